// Package all links every check into the worker.
package all

import (
	_ "package-operator.run/internal/packages/zzverif/checks/c01"
	_ "package-operator.run/internal/packages/zzverif/checks/c02"
	_ "package-operator.run/internal/packages/zzverif/checks/c03"
	_ "package-operator.run/internal/packages/zzverif/checks/c04"
	_ "package-operator.run/internal/packages/zzverif/checks/c05"
	_ "package-operator.run/internal/packages/zzverif/checks/c06"
	_ "package-operator.run/internal/packages/zzverif/checks/c07"
	_ "package-operator.run/internal/packages/zzverif/checks/c08"
	_ "package-operator.run/internal/packages/zzverif/checks/c09"
	_ "package-operator.run/internal/packages/zzverif/checks/c10"
	_ "package-operator.run/internal/packages/zzverif/checks/c11"
	_ "package-operator.run/internal/packages/zzverif/checks/c12"
	_ "package-operator.run/internal/packages/zzverif/checks/c13"
	_ "package-operator.run/internal/packages/zzverif/checks/c14"
	_ "package-operator.run/internal/packages/zzverif/checks/c15"
	_ "package-operator.run/internal/packages/zzverif/checks/c16"
	_ "package-operator.run/internal/packages/zzverif/checks/c17"
	_ "package-operator.run/internal/packages/zzverif/checks/c18"
	_ "package-operator.run/internal/packages/zzverif/checks/c19"
	_ "package-operator.run/internal/packages/zzverif/checks/c20"
)
