// Package c01 checks property C01 (collision protection) by running one real reconcile pass
// for every row of the adoption decision table (pre-existing object state x configuration) and
// judging the pass's requests and the stored result against a reference function transcribed
// from the statement; plus histories in which a third party re-owns/relabels the object
// between reconciles.
package c01

import (
	"encoding/json"
	"fmt"
	"os"
	"sort"
	"strings"

	metav1 "k8s.io/apimachinery/pkg/apis/meta/v1"
	"k8s.io/apimachinery/pkg/types"

	corev1alpha1 "package-operator.run/apis/core/v1alpha1"
	"package-operator.run/internal/packages/zzverif/checks"
	"package-operator.run/internal/packages/zzverif/kmodel"
	"package-operator.run/internal/packages/zzverif/report"
	"package-operator.run/internal/packages/zzverif/world"
)

const forceEnv = "PKO_FORCE_ADOPTION"

var (
	ownerStates = []string{"none", "X-ctrl", "X-plain", "P-ctrl", "P-plain", "P-ctrl+X-plain", "Q-ctrl", "phaseOfP-ctrl", "P-otherUID-ctrl", "phaseOfP-otherUID-ctrl", "self-plain", "P2-ctrl"}
	revAnnos    = []string{"", "1", "2", "3"}
	pkgLabels   = []string{"", "other", "package-operator"}
	cps         = []corev1alpha1.CollisionProtection{"", "Prevent", "IfNoController", "None"}
	prevs       = []string{"none", "P", "Pdeleted", "P+P2"}
	ownerRevs   = []int64{1, 2, 3}
)

// Case is one row of the decision table.
type Case struct {
	Owners   string                           `json:"owners"`
	RevAnno  string                           `json:"revAnnotation"`
	PkgLabel string                           `json:"packageLabel"`
	CP       corev1alpha1.CollisionProtection `json:"collisionProtection"`
	Prev     string                           `json:"previous"`
	OwnerRev int64                            `json:"ownerRevision"`
	Anno     bool                             `json:"annotationStrategy"`
	Force    bool                             `json:"forceAdoption"`
}

func allCases(anno, force bool) []Case {
	var out []Case
	for _, o := range ownerStates {
		for _, r := range revAnnos {
			for _, l := range pkgLabels {
				for _, cp := range cps {
					for _, p := range prevs {
						for _, or := range ownerRevs {
							out = append(out, Case{o, r, l, cp, p, or, anno, force})
						}
					}
				}
			}
		}
	}
	return out
}

type built struct {
	w       *world.World
	ownKey  kmodel.Key
	ownKind string
	objKey  kmodel.Key
	ids     map[string]world.Ident
}

func setRevision(w *world.World, k kmodel.Key, rev int64, remote []any) {
	st := map[string]any{"revision": rev}
	if remote != nil {
		st["remotePhases"] = remote
	}
	if err := w.SetStatus(k, st); err != nil {
		panic(err)
	}
}

func ownerEntry(id world.Ident, kindAPIVersion string, ctrl bool) map[string]any {
	e := map[string]any{"apiVersion": kindAPIVersion, "kind": id.Kind, "name": id.Name, "uid": id.UID}
	if ctrl {
		e["controller"] = true
		e["blockOwnerDeletion"] = true
	}
	return e
}

func build(c Case) *built {
	w := world.New()
	b := &built{w: w, ids: map[string]world.Ident{}}
	mk := func(name string) kmodel.Key {
		w.MustCreate(world.NewObjectSet(name, []world.PhaseSpec{{Name: "p1"}}, nil))
		return world.PKOKey("ObjectSet", world.NS, name)
	}
	id := func(tag string, k kmodel.Key) {
		b.ids[tag] = world.IdentOf(k, w.S.Objs[k].Content)
	}
	kx, kq := mk("x"), mk("q")
	setRevision(w, kx, 1, nil)
	setRevision(w, kq, 1, nil)
	id("X", kx)
	id("Q", kq)
	// phase object of P
	ph := &corev1alpha1.ObjectSetPhase{ObjectMeta: metav1.ObjectMeta{Name: "p-ph", Namespace: world.NS, Labels: map[string]string{corev1alpha1.ObjectSetPhaseClassLabel: world.PhaseClass}}}
	w.MustCreate(ph)
	kph := world.PKOKey("ObjectSetPhase", world.NS, "p-ph")
	id("phaseOfP", kph)
	if c.Prev != "Pdeleted" {
		kp := mk("p")
		setRevision(w, kp, 1, []any{map[string]any{"name": "p-ph", "uid": b.ids["phaseOfP"].UID}})
		id("P", kp)
	} else {
		b.ids["P"] = world.Ident{Group: "package-operator.run", Kind: "ObjectSet", Name: "p", UID: "uid-gone"}
	}
	kp2 := mk("p2")
	setRevision(w, kp2, 2, nil)
	id("P2", kp2)
	b.ids["P-otherUID"] = world.Ident{Group: "package-operator.run", Kind: "ObjectSet", Name: "p", UID: "uid-other"}
	b.ids["phaseOfP-otherUID"] = world.Ident{Group: "package-operator.run", Kind: "ObjectSetPhase", Name: "p-ph", UID: "uid-other-phase"}

	var previous []string
	switch c.Prev {
	case "P", "Pdeleted":
		previous = []string{"p"}
	case "P+P2":
		previous = []string{"p", "p2"}
	}
	desired := world.Obj("Widget", "", "a", map[string]any{"x": int64(1)})
	if !c.Anno {
		os := world.NewObjectSet("own", []world.PhaseSpec{{Name: "p1", Objects: []corev1alpha1.ObjectSetObject{world.OCP(desired, c.CP)}}}, nil, previous...)
		w.MustCreate(os)
		b.ownKey = world.PKOKey("ObjectSet", world.NS, "own")
		b.ownKind = world.CtrlObjectSet
		setRevision(w, b.ownKey, c.OwnerRev, nil)
	} else {
		p := &corev1alpha1.ObjectSetPhase{
			ObjectMeta: metav1.ObjectMeta{Name: "own", Namespace: world.NS, Labels: map[string]string{corev1alpha1.ObjectSetPhaseClassLabel: world.PhaseClass}},
			Spec:       corev1alpha1.ObjectSetPhaseSpec{Revision: c.OwnerRev, Objects: []corev1alpha1.ObjectSetObject{world.OCP(desired, c.CP)}},
		}
		for _, n := range previous {
			p.Spec.Previous = append(p.Spec.Previous, corev1alpha1.PreviousRevisionReference{Name: n})
		}
		w.MustCreate(p)
		b.ownKey = world.PKOKey("ObjectSetPhase", world.NS, "own")
		b.ownKind = world.CtrlPhaseAnno
	}
	id("self", b.ownKey)

	// the pre-existing object
	obj := world.Obj("Widget", world.NS, "a", map[string]any{"x": int64(0)})
	var entries []map[string]any
	add := func(tag string, ctrl bool) {
		entries = append(entries, ownerEntry(b.ids[tag], "package-operator.run/v1alpha1", ctrl))
	}
	switch c.Owners {
	case "none":
	case "X-ctrl":
		add("X", true)
	case "X-plain":
		add("X", false)
	case "P-ctrl":
		add("P", true)
	case "P-plain":
		add("P", false)
	case "P-ctrl+X-plain":
		add("P", true)
		add("X", false)
	case "Q-ctrl":
		add("Q", true)
	case "phaseOfP-ctrl":
		add("phaseOfP", true)
	case "P-otherUID-ctrl":
		add("P-otherUID", true)
	case "phaseOfP-otherUID-ctrl":
		add("phaseOfP-otherUID", true)
	case "self-plain":
		add("self", false)
	case "P2-ctrl":
		add("P2", true)
	}
	annos := map[string]string{}
	if c.RevAnno != "" {
		annos[world.RevisionAnnotation] = c.RevAnno
	}
	if len(entries) > 0 {
		if c.Anno {
			for _, e := range entries {
				e["namespace"] = world.NS
				delete(e, "blockOwnerDeletion")
			}
			j, _ := json.Marshal(entries)
			annos[world.OwnersAnnotation] = string(j)
		} else {
			var l []any
			for _, e := range entries {
				l = append(l, e)
			}
			obj.Object["metadata"].(map[string]any)["ownerReferences"] = l
		}
	}
	if len(annos) > 0 {
		obj.SetAnnotations(annos)
	}
	labels := map[string]string{}
	if c.PkgLabel != "" {
		labels["package-operator.run/package"] = c.PkgLabel
	}
	if c.Owners != "none" {
		labels["package-operator.run/cache"] = "True"
	}
	if len(labels) > 0 {
		obj.SetLabels(labels)
	}
	w.MustCreate(obj)
	b.objKey = world.KeyOf("Widget", world.NS, "a")
	return b
}

// permitted is the reference function of DESIGN.md Appendix A.1.
func permitted(c Case) (perm, mustReport bool) {
	var r int64
	fmt.Sscan(c.RevAnno, &r)
	if r > c.OwnerRev {
		return false, false
	}
	cp := c.CP
	if cp == "" {
		cp = "Prevent"
	}
	if c.Force || c.PkgLabel == "package-operator" {
		cp = "None"
	}
	hasCtrl := strings.Contains(c.Owners, "-ctrl")
	if cp == "None" {
		return true, false
	}
	if cp == "IfNoController" && !hasCtrl {
		return true, false
	}
	declaredP := c.Prev == "P" || c.Prev == "P+P2"
	declaredP2 := c.Prev == "P+P2"
	ctrlDeclared := false
	switch c.Owners {
	case "P-ctrl", "P-ctrl+X-plain", "phaseOfP-ctrl":
		ctrlDeclared = declaredP
	case "P2-ctrl":
		ctrlDeclared = declaredP2
	}
	if ctrlDeclared && r < c.OwnerRev {
		return true, false
	}
	return false, true
}

func judge(c Case) (violations []string, outcome string, trace []string) {
	b := build(c)
	w := b.w
	before := w.S.Objs[b.objKey].Content
	beforeRV := kmodel.RVOf(before)
	pass := w.Reconcile(b.ownKind, types.NamespacedName{Namespace: world.NS, Name: "own"}, nil)
	trace = pass.Trace()
	if pass.Panic != "" {
		return []string{"panic: " + pass.Panic}, "panic", trace
	}
	perm, mustReport := permitted(c)
	var writes []string
	for _, r := range pass.Reqs {
		if r.Key == b.objKey && r.IsWrite() {
			writes = append(writes, r.String())
		}
	}
	after := w.S.Objs[b.objKey]
	self := b.ids["self"]
	own := w.S.Objs[b.ownKey].Content
	avail, reason, _, _ := world.Condition(own, "Available")
	if !perm {
		outcome = "refused"
		if len(writes) > 0 {
			violations = append(violations, fmt.Sprintf("adoption is not permitted but the pass sent write requests for the object: %v", writes))
		}
		if after == nil || kmodel.Digest(after.Content) != kmodel.Digest(before) || kmodel.RVOf(after.Content) != beforeRV {
			violations = append(violations, "adoption is not permitted but the stored object changed")
		}
		if mustReport {
			outcome = "refused+reported"
			if avail != "False" || reason != "CollisionDetected" {
				violations = append(violations, fmt.Sprintf("refusal not reported: persisted Available=%q reason=%q, want False/CollisionDetected (pass error: %v)", avail, reason, pass.Err))
			}
		}
	} else {
		outcome = "adopted"
		if after == nil {
			return append(violations, "object vanished"), outcome, trace
		}
		ctrls := world.Controllers(after.Content, c.Anno)
		if len(ctrls) != 1 || !world.ControlledBy(after.Content, c.Anno, self) {
			violations = append(violations, fmt.Sprintf("adoption is permitted but after the pass the object's controllers are %v, want exactly the owner (pass error: %v, Available=%s/%s)", ctrls, pass.Err, avail, reason))
		}
		if rev, ok := world.Revision(after.Content); !ok || rev != c.OwnerRev {
			violations = append(violations, fmt.Sprintf("adopted object records revision %d, want %d", rev, c.OwnerRev))
		}
		if x, _ := world.Nested(after.Content, "spec", "x"); x != int64(1) {
			violations = append(violations, fmt.Sprintf("adopted object not patched to the desired spec (spec.x=%v)", x))
		}
	}
	return violations, outcome, trace
}

func identity(c Case, msg string) string {
	kind := "other"
	switch {
	case strings.Contains(msg, "write requests"), strings.Contains(msg, "stored object changed"):
		kind = "unpermitted-write"
	case strings.Contains(msg, "refusal not reported"):
		kind = "refusal-not-reported"
	case strings.Contains(msg, "adoption is permitted"):
		kind = "permitted-adoption-not-done"
	case strings.Contains(msg, "panic"):
		kind = "panic"
	}
	return fmt.Sprintf("%s owners=%s cp=%s prev=%s", kind, c.Owners, c.CP, c.Prev)
}

func runTable(force bool) func(o checks.Opts) *report.Report {
	return func(o checks.Opts) *report.Report {
		name := "table"
		if force {
			name = "table-forced"
			os.Setenv(forceEnv, "1")
		} else {
			os.Unsetenv(forceEnv)
		}
		rep := report.New("C01", name)
		rep.Rule = "one real reconcile pass per row of owners(12) x revision annotation(4) x package label(3) x collisionProtection(4) x previous list(4) x owner revision(3) x owner strategy(native ObjectSet / annotation ObjectSetPhase); distinct = (decision, strategy, collisionProtection, owners)"
		n := 0
		for _, anno := range []bool{false, true} {
			cases := allCases(anno, force)
			for i, c := range cases {
				if o.Shards > 1 && i%o.Shards != o.Shard {
					continue
				}
				n++
				v, out, trace := judge(c)
				rep.Executions++
				rep.ImplTraces++
				rep.Transitions++
				rep.Outcomes[fmt.Sprintf("%s anno=%v cp=%s owners=%s", out, anno, c.CP, c.Owners)]++
				rep.Monitors[out]++
				if len(v) > 0 {
					msg := strings.Join(v, "\n")
					rep.AddViolation(report.Violation{Identity: identity(c, msg), Message: msg, Params: map[string]any{"case": c}, Trace: trace})
				}
				if len(rep.Samples) < 2 && o.Shard == 0 && i%977 == 0 {
					rep.Samples = append(rep.Samples, map[string]any{"case": c, "decision": out})
				}
			}
		}
		rep.States = rep.Executions
		rep.Bounds["rows"] = n
		return rep
	}
}

func replayTable(v report.Violation) string {
	b, _ := json.Marshal(v.Params["case"])
	var c Case
	if err := json.Unmarshal(b, &c); err != nil {
		return "bad replay file: " + err.Error()
	}
	if c.Force {
		os.Setenv(forceEnv, "1")
	} else {
		os.Unsetenv(forceEnv)
	}
	viol, _, trace := judge(c)
	for _, l := range trace {
		fmt.Println(l)
	}
	return strings.Join(viol, "\n")
}

func sortedKeys(m map[string]int64) []string {
	var k []string
	for x := range m {
		k = append(k, x)
	}
	sort.Strings(k)
	return k
}

func init() {
	checks.Register(&checks.Check{
		ID:    "C01",
		Level: "model_checking",
		Assumptions: []string{
			"API server behaviour is the kmodel model (DESIGN.md §3); caches are fresh",
			"non-numeric revision annotations are not part of the table (statement silent)",
		},
		Subs: []*checks.Sub{
			{Name: "table", Shards: func(string) int { return 8 }, Run: runTable(false), Replay: replayTable},
			{Name: "table-forced", Shards: func(string) int { return 8 }, Run: runTable(true), Replay: replayTable},
			{Name: "history", Shards: func(string) int { return 6 }, Run: runHistory, Replay: replayHistory, Parallel: true},
		},
	})
}
