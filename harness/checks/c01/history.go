package c01

import (
	"fmt"
	"os"
	"strings"

	"k8s.io/apimachinery/pkg/types"

	corev1alpha1 "package-operator.run/apis/core/v1alpha1"
	"package-operator.run/internal/packages/zzverif/checks"
	"package-operator.run/internal/packages/zzverif/kmodel"
	"package-operator.run/internal/packages/zzverif/osw"
	"package-operator.run/internal/packages/zzverif/report"
	"package-operator.run/internal/packages/zzverif/world"
)

// permittedState is Appendix A.1 evaluated on a store state.
// ok=false: the object is absent or already controlled by the owner (no adoption question),
// or its revision annotation is not numeric (undecided).
func permittedState(w *world.World, ownKey, objKey kmodel.Key, cp corev1alpha1.CollisionProtection, anno, force bool) (perm, mustReport, ok bool) {
	o := w.S.Objs[objKey]
	own := w.S.Objs[ownKey]
	if o == nil || own == nil {
		return false, false, false
	}
	self := world.IdentOf(ownKey, own.Content)
	if world.ControlledBy(o.Content, anno, self) {
		return false, false, false
	}
	r, numeric := world.Revision(o.Content)
	if !numeric {
		return false, false, false
	}
	var R int64
	if v, okk := world.Nested(own.Content, "status", "revision"); okk {
		R, _ = v.(int64)
	}
	if v, okk := world.Nested(own.Content, "spec", "revision"); okk && ownKey.Kind == "ObjectSetPhase" {
		R, _ = v.(int64)
	}
	if r > R {
		return false, false, true
	}
	if cp == "" {
		cp = "Prevent"
	}
	if force || kmodel.Labels(o.Content)["package-operator.run/package"] == "package-operator" {
		cp = "None"
	}
	ctrls := world.Controllers(o.Content, anno)
	if cp == "None" {
		return true, false, true
	}
	if cp == "IfNoController" && len(ctrls) == 0 {
		return true, false, true
	}
	// declared previous revisions that exist, plus their recorded remote phases
	var declared []world.Ident
	prev, _ := world.Nested(own.Content, "spec", "previous")
	pl, _ := prev.([]any)
	for _, e := range pl {
		em, _ := e.(map[string]any)
		name, _ := em["name"].(string)
		pk := world.PKOKey("ObjectSet", ownKey.Namespace, name)
		p := w.S.Objs[pk]
		if p == nil {
			continue
		}
		declared = append(declared, world.IdentOf(pk, p.Content))
		rp, _ := world.Nested(p.Content, "status", "remotePhases")
		rl, _ := rp.([]any)
		for _, re := range rl {
			rm, _ := re.(map[string]any)
			n, _ := rm["name"].(string)
			u, _ := rm["uid"].(string)
			declared = append(declared, world.Ident{Group: "package-operator.run", Kind: "ObjectSetPhase", Name: n, UID: u})
		}
	}
	for _, c := range ctrls {
		for _, d := range declared {
			if c.Group == d.Group && c.Kind == d.Kind && c.Name == d.Name && c.UID == d.UID && r < R {
				return true, false, true
			}
		}
	}
	return false, true, true
}

func historySystem(cp corev1alpha1.CollisionProtection, budget int, declare bool) *world.System {
	ownKey := world.PKOKey("ObjectSet", world.NS, "own")
	objKey := world.KeyOf("Widget", world.NS, "a")
	nn := types.NamespacedName{Namespace: world.NS, Name: "own"}
	return &world.System{
		Name: "c01-history-" + string(cp),
		Init: func() *world.World {
			w := world.New()
			w.MustCreate(world.NewObjectSet("p", []world.PhaseSpec{{Name: "p1"}}, nil))
			w.MustCreate(world.NewObjectSet("x", []world.PhaseSpec{{Name: "p1"}}, nil))
			setRevision(w, world.PKOKey("ObjectSet", world.NS, "p"), 1, nil)
			setRevision(w, world.PKOKey("ObjectSet", world.NS, "x"), 1, nil)
			desired := world.Obj("Widget", "", "a", map[string]any{"x": int64(1)})
			var prev []string
			if declare {
				prev = []string{"p"}
			}
			w.MustCreate(world.NewObjectSet("own", []world.PhaseSpec{{Name: "p1", Objects: []corev1alpha1.ObjectSetObject{world.OCP(desired, cp)}}}, nil, prev...))
			setRevision(w, ownKey, 2, nil)
			w.Budget["third-party"] = budget
			w.Budget["fault"] = 1
			return w
		},
		Events: func(w *world.World) []world.Event {
			evs := []world.Event{{Name: "reconcile:own", Apply: func(w *world.World) *world.Pass {
				return w.Reconcile(world.CtrlObjectSet, nn, nil)
			}}}
			// one request of one pass is answered 409 or 500 without taking effect (the dry-run
			// of the preflight included): whatever the pass does next, a refused object stays untouched
			if w.S.Objs[objKey] != nil {
				evs = append(evs, osw.FaultEvents(w, world.CtrlObjectSet, "own", []world.FaultKind{world.ConflictBefore, world.ErrBefore})...)
			}
			if w.Budget["third-party"] <= 0 {
				return evs
			}
			tp := func(name string, f func(w *world.World)) {
				evs = append(evs, world.Event{Name: "third-party:" + name, Apply: func(w *world.World) *world.Pass {
					w.Budget["third-party"]--
					f(w)
					return nil
				}})
			}
			identOf := func(w *world.World, n string) world.Ident {
				k := world.PKOKey("ObjectSet", world.NS, n)
				return world.IdentOf(k, w.S.Objs[k].Content)
			}
			if w.S.Objs[objKey] == nil {
				tp("create-unowned", func(w *world.World) {
					w.MustCreate(world.Obj("Widget", world.NS, "a", map[string]any{"x": int64(0)}))
				})
				tp("create-owned-by-p", func(w *world.World) {
					o := world.Obj("Widget", world.NS, "a", map[string]any{"x": int64(0)})
					o.Object["metadata"].(map[string]any)["ownerReferences"] = []any{ownerEntry(identOf(w, "p"), "package-operator.run/v1alpha1", true)}
					o.SetAnnotations(map[string]string{world.RevisionAnnotation: "1"})
					o.SetLabels(map[string]string{"package-operator.run/cache": "True"})
					w.MustCreate(o)
				})
				return evs
			}
			setOwners := func(w *world.World, l []any) {
				_ = w.Edit(objKey, func(c map[string]any) {
					m := c["metadata"].(map[string]any)
					if l == nil {
						delete(m, "ownerReferences")
					} else {
						m["ownerReferences"] = l
					}
				})
			}
			tp("reown-x-ctrl", func(w *world.World) {
				setOwners(w, []any{ownerEntry(identOf(w, "x"), "package-operator.run/v1alpha1", true)})
			})
			tp("reown-p-ctrl", func(w *world.World) {
				setOwners(w, []any{ownerEntry(identOf(w, "p"), "package-operator.run/v1alpha1", true)})
			})
			tp("strip-owners", func(w *world.World) { setOwners(w, nil) })
			tp("demote-controller", func(w *world.World) {
				_ = w.Edit(objKey, func(c map[string]any) {
					m := c["metadata"].(map[string]any)
					l, _ := m["ownerReferences"].([]any)
					for _, e := range l {
						delete(e.(map[string]any), "controller")
					}
				})
			})
			for _, rv := range []string{"1", "3", ""} {
				rv := rv
				tp("set-revision-"+rv, func(w *world.World) {
					_ = w.Edit(objKey, func(c map[string]any) {
						m := c["metadata"].(map[string]any)
						a, _ := m["annotations"].(map[string]any)
						if a == nil {
							a = map[string]any{}
							m["annotations"] = a
						}
						if rv == "" {
							delete(a, world.RevisionAnnotation)
						} else {
							a[world.RevisionAnnotation] = rv
						}
					})
				})
			}
			tp("label-package-operator", func(w *world.World) {
				_ = w.Edit(objKey, func(c map[string]any) {
					m := c["metadata"].(map[string]any)
					l, _ := m["labels"].(map[string]any)
					if l == nil {
						l = map[string]any{}
						m["labels"] = l
					}
					l["package-operator.run/package"] = "package-operator"
				})
			})
			tp("unlabel-cache", func(w *world.World) {
				_ = w.Edit(objKey, func(c map[string]any) {
					m := c["metadata"].(map[string]any)
					l, _ := m["labels"].(map[string]any)
					delete(l, "package-operator.run/cache")
				})
			})
			tp("delete", func(w *world.World) { _ = w.S.Delete(objKey, kmodel.DeleteOpts{}) })
			return evs
		},
		Check: func(before *world.World, ev world.Event, pass *world.Pass, after *world.World) []world.Finding {
			if pass == nil {
				return nil
			}
			perm, mustReport, ok := permittedState(before, ownKey, objKey, cp, false, false)
			if !ok {
				return nil
			}
			faulted := strings.HasPrefix(ev.Name, "fault:")
			var out []world.Finding
			bad := func(id, f string, a ...any) {
				out = append(out, world.Finding{Monitor: "collision-protection", Identity: id, Message: fmt.Sprintf(f, a...)})
			}
			b := before.S.Objs[objKey].Content
			a := after.S.Objs[objKey]
			own := after.S.Objs[ownKey].Content
			avail, reason, _, _ := world.Condition(own, "Available")
			if !perm {
				for _, r := range pass.Reqs {
					if r.Key == objKey && r.IsWrite() {
						bad("unpermitted-write", "adoption not permitted (controllers %v, revision %s) but the pass sent %s", world.Controllers(b, false), kmodel.Annotations(b)[world.RevisionAnnotation], r)
					}
				}
				if a == nil || kmodel.Digest(a.Content) != kmodel.Digest(b) {
					bad("unpermitted-write", "adoption not permitted but the stored object changed")
				}
				if mustReport && !faulted && (avail != "False" || reason != "CollisionDetected") {
					bad("refusal-not-reported", "refusal not reported: Available=%q/%q (pass error %v)", avail, reason, pass.Err)
				}
			} else if !faulted {
				self := world.IdentOf(ownKey, own)
				if a == nil || len(world.Controllers(a.Content, false)) != 1 || !world.ControlledBy(a.Content, false, self) {
					bad("permitted-adoption-not-done", "adoption permitted but not carried out (pass error %v, Available=%s/%s)", pass.Err, avail, reason)
				} else if rev, _ := world.Revision(a.Content); rev != 2 {
					bad("permitted-adoption-not-done", "adopted object records revision %d, want 2", rev)
				}
			}
			return out
		},
	}
}

func runHistory(o checks.Opts) *report.Report {
	os.Unsetenv(forceEnv)
	rep := report.New("C01", "history")
	budget, depth := 4, 12
	if !o.Quick() {
		budget, depth = 6, 16
	}
	rep.Bounds["third_party_events"] = budget
	rep.Bounds["depth"] = depth
	rep.Rule = "explicit-state BFS over {reconcile(owner)} x third-party {create, re-own to X/P, strip owners, demote controller, set revision 1/3/none, label package-operator, remove cache label, delete} with a budget of third-party events, one system per collisionProtection; the adoption oracle is evaluated on the start state of every reconcile transition"
	cpsH := []corev1alpha1.CollisionProtection{"Prevent", "IfNoController", "None", "Prevent", "IfNoController", "None"}
	for i, cp := range cpsH {
		if o.Shards > 1 && i%o.Shards != o.Shard {
			continue
		}
		declare := i < 3
		sys := historySystem(cp, budget, declare)
		sys.MaxDepth = depth
		res := world.BFS(sys)
		rep.States += res.States
		rep.Transitions += res.Transitions
		rep.Executions += res.Transitions
		rep.ImplTraces += res.EventCount["reconcile"]
		rep.Outcomes[fmt.Sprintf("%s declare=%v states=%d", cp, declare, res.States)]++
		for _, ec := range res.SortedEventCounts() {
			rep.Outcomes[fmt.Sprintf("%s %v %s", cp, declare, ec)]++
		}
		if res.Capped != "" {
			rep.CapsHit = append(rep.CapsHit, string(cp)+": "+res.Capped)
			rep.Exhaustive = false
		}
		for _, v := range res.Violations {
			rep.AddViolation(report.Violation{Identity: v.Identity + " cp=" + string(cp), Message: v.Message + "\npath: " + strings.Join(v.Path, " -> "), Params: map[string]any{"cp": string(cp), "budget": budget, "declare": declare, "path": v.Path}, Trace: v.Trace})
		}
		rep.NViolations += res.NViolations - int64(len(res.Violations))
		rep.Samples = append(rep.Samples, map[string]any{"collisionProtection": cp, "example_path": []string{"third-party:create-unowned", "reconcile:own", "third-party:reown-p-ctrl", "reconcile:own"}})
	}
	return rep
}

func replayHistory(v report.Violation) string {
	cp, _ := v.Params["cp"].(string)
	budget := 3
	if b, ok := v.Params["budget"].(float64); ok {
		budget = int(b)
	}
	var path []string
	if l, ok := v.Params["path"].([]any); ok {
		for _, e := range l {
			path = append(path, e.(string))
		}
	}
	declare, _ := v.Params["declare"].(bool)
	finds, trace, err := world.Replay(historySystem(corev1alpha1.CollisionProtection(cp), budget, declare), path)
	for _, l := range trace {
		fmt.Println(l)
	}
	if err != nil {
		return "DIVERGENCE (harness fault): " + err.Error()
	}
	var msgs []string
	for _, f := range finds {
		msgs = append(msgs, f.Message)
	}
	return strings.Join(msgs, "\n")
}
