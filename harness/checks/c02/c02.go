// Package c02 checks property C02 (handover only moves objects forward between revisions)
// over chains of revisions that share, add and drop objects, with every interleaving of the
// revisions' reconciles and pause/archive/delete of revisions mid-handover; plus API-call
// granular interleavings of two revisions' passes.
package c02

import (
	"fmt"
	"strings"

	"package-operator.run/internal/packages/zzverif/checks"
	"package-operator.run/internal/packages/zzverif/checks/twin"
	"package-operator.run/internal/packages/zzverif/explore"
	"package-operator.run/internal/packages/zzverif/kmodel"
	"package-operator.run/internal/packages/zzverif/osw"
	"package-operator.run/internal/packages/zzverif/report"
	"package-operator.run/internal/packages/zzverif/vsched"
	"package-operator.run/internal/packages/zzverif/world"
)

// ownerOfPass resolves the identity and revision of the owner a pass works for.
func ownerOfPass(s *kmodel.Store, pass *world.Pass) (world.Ident, int64, bool) {
	var k kmodel.Key
	switch pass.Ctrl {
	case world.CtrlObjectSet:
		k = osw.OSKey(pass.Key.Name)
	case world.CtrlPhase, world.CtrlPhaseAnno:
		k = world.PKOKey("ObjectSetPhase", pass.Key.Namespace, pass.Key.Name)
	default:
		return world.Ident{}, 0, false
	}
	o := s.Objs[k]
	if o == nil {
		return world.Ident{}, 0, false
	}
	rev := osw.StatusRevision(o.Content)
	if k.Kind == "ObjectSetPhase" {
		v, _ := world.Nested(o.Content, "spec", "revision")
		rev, _ = v.(int64)
	}
	return world.IdentOf(k, o.Content), rev, true
}

// revisionIn answers the revision of the live ObjectSet / ObjectSetPhase an owner entry names (0 when gone).
func revisionIn(s *kmodel.Store) func(world.Ident) int64 {
	return func(id world.Ident) int64 {
		var k kmodel.Key
		switch id.Kind {
		case "ObjectSet":
			k = osw.OSKey(id.Name)
		case "ObjectSetPhase":
			k = world.PKOKey("ObjectSetPhase", world.NS, id.Name)
		default:
			return 0
		}
		o := s.Objs[k]
		if o == nil || kmodel.UID(o.Content) != id.UID {
			return 0
		}
		if k.Kind == "ObjectSetPhase" {
			v, _ := world.Nested(o.Content, "spec", "revision")
			r, _ := v.(int64)
			return r
		}
		return osw.StatusRevision(o.Content)
	}
}

// judgeRequests is the per-request part of the monitor (also used by the interleaving sub).
func judgeRequests(pass *world.Pass, self world.Ident, selfRev func() int64, revOf func(world.Ident) int64) []world.Finding {
	return judgeRequestsFor(pass, self, selfRev, revOf, false)
}

// judgeRequestsFor: anno = ownership is kept in the package-operator.run/owners annotation.
func judgeRequestsFor(pass *world.Pass, self world.Ident, selfRev func() int64, revOf func(world.Ident) int64, anno bool) []world.Finding {
	var out []world.Finding
	bad := func(id, f string, a ...any) {
		out = append(out, world.Finding{Monitor: "handover", Identity: id, Message: fmt.Sprintf(f, a...)})
	}
	for i, r := range pass.Reqs {
		if r.Key.Group != world.TestGroup || !r.IsWrite() || r.Err != nil || r.Verb == "delete" || r.Post == nil {
			continue
		}
		preRev, preOK := world.Revision(r.Pre)
		postRev, postOK := world.Revision(r.Post)
		if r.Pre != nil && preOK && postOK && postRev < preRev {
			bad("revision-lowered", "request #%d %s lowers the recorded revision of the object from %d to %d", i, r, preRev, postRev)
		}
		ctrls := world.Controllers(r.Post, anno)
		if len(ctrls) > 1 {
			bad("two-controllers", "request #%d %s leaves the object with %d controllers: %v", i, r, len(ctrls), ctrls)
		}
		preCtrls := world.Controllers(r.Pre, anno)
		changed := len(ctrls) == 1 && (len(preCtrls) != 1 || preCtrls[0] != ctrls[0])
		if changed {
			if !world.ControlledBy(r.Post, anno, self) {
				bad("foreign-controller-set", "request #%d %s by %s/%s makes %v the controller", i, r, self.Kind, self.Name, ctrls[0])
			}
			if r.Pre != nil && preOK && preRev > selfRev() {
				bad("took-object-of-newer-revision", "request #%d %s: %s/%s (revision %d) takes control of an object recorded for revision %d", i, r, self.Kind, self.Name, selfRev(), preRev)
			}
			for _, pc := range preCtrls {
				if pc.UID == self.UID {
					continue
				}
				// independent of what the annotation says: the object moves backwards when
				// the controller it is taken from is a live revision newer than the taker
				if pr := revOf(world.Ident{Group: pc.Group, Kind: pc.Kind, Name: pc.Name, UID: pc.UID}); pr != 0 && selfRev() != 0 && pr > selfRev() {
					bad("took-object-from-newer-revision", "request #%d %s: %s/%s (revision %d) takes control from %s/%s of revision %d", i, r, self.Kind, self.Name, selfRev(), pc.Kind, pc.Name, pr)
				}
				kept := false
				for _, o := range world.Owners(r.Post, anno) {
					if o.UID == pc.UID && o.Name == pc.Name && !o.Controller {
						kept = true
					}
				}
				if !kept && !anno {
					bad("former-controller-dropped", "request #%d %s: former controller %s/%s is not kept as plain owner after the handover (owners now %v)", i, r, pc.Kind, pc.Name, world.Owners(r.Post, anno))
				}
			}
		}
	}
	return out
}

// Check is the C02 transition monitor.
func Check(before *world.World, _ world.Event, pass *world.Pass, after *world.World) []world.Finding {
	if pass == nil {
		return nil
	}
	self, rev, ok := ownerOfPass(before.S, pass)
	if !ok {
		return nil
	}
	// the ObjectSet may get its revision assigned in this very pass
	return judgeRequests(pass, self, func() int64 {
		if rev != 0 {
			return rev
		}
		_, r2, _ := ownerOfPass(after.S, pass)
		return r2
	}, revisionIn(before.S))
}

// Invariant: no object is controlled by an ObjectSet (or phase) whose revision is lower than
// the revision recorded on the object; never two controllers.
func Invariant(w *world.World) []world.Finding {
	var out []world.Finding
	for _, k := range w.S.SortedKeys() {
		if k.Group != world.TestGroup {
			continue
		}
		c := w.S.Objs[k].Content
		ctrls := world.Controllers(c, false)
		if len(ctrls) > 1 {
			out = append(out, world.Finding{Monitor: "handover", Identity: "two-controllers-state", Message: fmt.Sprintf("%s has %d controllers", k, len(ctrls))})
		}
		rev, okr := world.Revision(c)
		if !okr || len(ctrls) != 1 {
			continue
		}
		var ck kmodel.Key
		switch ctrls[0].Kind {
		case "ObjectSet":
			ck = osw.OSKey(ctrls[0].Name)
		case "ObjectSetPhase":
			ck = world.PKOKey("ObjectSetPhase", k.Namespace, ctrls[0].Name)
		default:
			continue
		}
		o := w.S.Objs[ck]
		if o == nil || kmodel.UID(o.Content) != ctrls[0].UID {
			continue
		}
		orev := osw.StatusRevision(o.Content)
		if ck.Kind == "ObjectSetPhase" {
			v, _ := world.Nested(o.Content, "spec", "revision")
			orev, _ = v.(int64)
		}
		if orev != 0 && orev < rev {
			out = append(out, world.Finding{Monitor: "handover", Identity: "controlled-by-older-revision", Message: fmt.Sprintf("%s records revision %d but is controlled by %s %s of revision %d", k, rev, ck.Kind, ck.Name, orev)})
		}
	}
	return out
}

type scenario struct {
	Kind  string `json:"kind"`      // chain2 | chain3 | deployment
	Mask  uint   `json:"delegated"` // which revisions use a delegated phase
	CP    string `json:"collisionProtection"`
	Users int    `json:"userEvents"`
	Edits int    `json:"edits"`
	// Restarts / Conflicts: budgets of operator crashes before a request and of foreign writes
	// landing just before a write of a pass
	Restarts  int `json:"restarts"`
	Conflicts int `json:"conflicts"`
	// LongLived: all passes of a history run in one operator process (states rebuilt by path replay)
	LongLived bool `json:"longLived"`
	// RV0: the cluster's resourceVersion counter starts here (so that versions cross a digit
	// boundary, 9 -> 10 / 99 -> 100, at different points of the history)
	RV0 int64 `json:"rv0"`
	// Preset: the manifest of object "a" in revision r2 carries this value in the
	// package-operator.run/revision annotation (a manifest exported from a live cluster);
	// the recorded revision must still be the adopting revision's own
	Preset string `json:"preset"`
	// Faults: budget of "one request of a revision's pass (the preflight dry run included) is
	// answered 409 or 500 without taking effect"
	Faults int `json:"faults"`
	// Holds: budget of "a third party puts a finalizer of its own on a managed object" (the object
	// then outlives its delete, terminating, until the holder lets go)
	Holds int `json:"holds,omitempty"`
}

func (sc scenario) name() string {
	return fmt.Sprintf("%s delegated=%03b cp=%s users=%d edits=%d restarts=%d conflicts=%d longLived=%v rv0=%d preset=%q faults=%d holds=%d", sc.Kind, sc.Mask, sc.CP, sc.Users, sc.Edits, sc.Restarts, sc.Conflicts, sc.LongLived, sc.RV0, sc.Preset, sc.Faults, sc.Holds)
}

var chainObjs = [][]string{{"a", "b"}, {"a", "b", "c"}, {"a", "c", "d"}}

func mkRevision(w *world.World, i int, sc scenario, prev ...string) {
	cfg := osw.OnePhase(chainObjs[i]...)
	cfg[0].Delegated = sc.Mask&(1<<uint(i)) != 0
	ps := osw.PhaseSpecs(cfg, int64(i+1))
	if sc.CP != "" {
		for pi := range ps {
			for oi := range ps[pi].Objects {
				ps[pi].Objects[oi].CollisionProtection = corev1(sc.CP)
			}
		}
	}
	if sc.Preset != "" && i == 1 {
		for pi := range ps {
			for oi := range ps[pi].Objects {
				if o := &ps[pi].Objects[oi].Object; o.GetName() == "a" {
					o.SetAnnotations(map[string]string{world.RevisionAnnotation: sc.Preset})
				}
			}
		}
	}
	w.MustCreate(world.NewObjectSet(fmt.Sprintf("r%d", i+1), ps, nil, prev...))
}

// holdEvents: a third party puts its finalizer on a managed object (budgeted) and lets go of
// terminating ones.
func holdEvents(w *world.World) []world.Event {
	evs := osw.ReleaseEvents(w)
	if w.Budget["hold"] > 0 {
		for _, k := range w.S.SortedKeys() {
			o := w.S.Objs[k]
			if k.Group != world.TestGroup || kmodel.Terminating(o.Content) || osw.HasFinalizer(o.Content, osw.HoldFinalizer) {
				continue
			}
			k := k
			evs = append(evs, world.Event{Name: "hold:" + k.Kind + "/" + k.Name, Apply: func(w *world.World) *world.Pass {
				w.Budget["hold"]--
				osw.AddFinalizer(w, k, osw.HoldFinalizer)
				return nil
			}})
		}
	}
	return evs
}

func system(sc scenario) *world.System {
	n := 2
	if sc.Kind == "chain3" {
		n = 3
	}
	t := []func() any{}
	_ = t
	return &world.System{
		Name:       sc.name(),
		Persistent: sc.LongLived,
		Init: func() *world.World {
			w := osw.NewWorld()
			w.S.RV += sc.RV0
			if sc.LongLived {
				w.LongLived()
			}
			if sc.Kind == "deployment" {
				w.MustCreate(osw.NewOD("d", world.TemplateSpec(osw.PhaseSpecs(osw.OnePhase("a", "b"), 1), nil), nil))
				w.Budget["edit"] = sc.Edits
			} else {
				mkRevision(w, 0, sc)
				mkRevision(w, 1, sc, "r1")
				if n == 3 {
					mkRevision(w, 2, sc, "r1", "r2")
				}
			}
			w.Budget["user"] = sc.Users
			w.Budget["restart"] = sc.Restarts
			w.Budget["conflict"] = sc.Conflicts
			w.Budget["fault"] = sc.Faults
			w.Budget["hold"] = sc.Holds
			return w
		},
		Events: func(w *world.World) []world.Event {
			evs := osw.ReconcileEvents(w)
			evs = append(evs, osw.GCEvent(w)...)
			evs = append(evs, osw.CrashEvents(w)...)
			evs = append(evs, osw.ConflictEventsAll(w)...)
			evs = append(evs, holdEvents(w)...)
			if w.Budget["fault"] > 0 {
				for _, k := range w.S.SortedKeys() {
					if k.Group == "package-operator.run" && k.Kind == "ObjectSet" {
						evs = append(evs, osw.FaultEvents(w, world.CtrlObjectSet, k.Name, []world.FaultKind{world.ConflictBefore, world.ErrBefore})...)
					}
				}
			}
			if sc.Kind == "deployment" {
				if e := w.Budget["edit"]; e > 0 {
					tmpls := [][]string{{"a", "c"}, {"a", "b"}}
					names := tmpls[(sc.Edits-e)%2]
					evs = append(evs, world.Event{Name: fmt.Sprintf("user:edit-template:%s", strings.Join(names, "")), Apply: func(w *world.World) *world.Pass {
						w.Budget["edit"]--
						osw.SetODTemplate(w, "d", world.TemplateSpec(osw.PhaseSpecs(osw.OnePhase(names...), int64(sc.Edits-e+2)), nil))
						return nil
					}})
				}
				return evs
			}
			if w.Budget["user"] > 0 {
				for i := 0; i < n; i++ {
					name := fmt.Sprintf("r%d", i+1)
					o := w.S.Objs[osw.OSKey(name)]
					if o == nil || kmodel.Terminating(o.Content) {
						continue
					}
					lc := osw.Lifecycle(o.Content)
					add := func(ev string, f func(w *world.World)) {
						evs = append(evs, world.Event{Name: "user:" + ev + ":" + name, Apply: func(w *world.World) *world.Pass {
							w.Budget["user"]--
							f(w)
							return nil
						}})
					}
					if lc == "Active" {
						add("pause", func(w *world.World) { osw.SetLifecycle(w, name, "Paused") })
					}
					if lc != "Archived" {
						add("archive", func(w *world.World) { osw.SetLifecycle(w, name, "Archived") })
					}
					add("delete", func(w *world.World) { _ = w.S.Delete(osw.OSKey(name), kmodel.DeleteOpts{}) })
				}
			}
			return evs
		},
		Check:     Check,
		Invariant: Invariant,
	}
}

func scenarios(quick bool) []scenario {
	out := []scenario{
		{Kind: "chain2", Users: 2},
		{Kind: "chain2", Mask: 0b10, Users: 1},
		{Kind: "chain2", Mask: 0b01, Users: 1},
		{Kind: "chain3", Users: 1},
		{Kind: "chain2", CP: "None", Users: 1},
		{Kind: "deployment", Edits: 2},
		{Kind: "chain2", Restarts: 1, Conflicts: 1},
		{Kind: "chain2", Mask: 0b10, Restarts: 1},
		{Kind: "chain2", LongLived: true},
		{Kind: "chain2", Faults: 1},
		{Kind: "chain2", Users: 1, Holds: 1},
		{Kind: "chain2", CP: "None", Preset: "1"},
		{Kind: "chain2", Preset: "9"},
		{Kind: "chain3", LongLived: true},
		{Kind: "chain2", LongLived: true, RV0: 90},
		{Kind: "chain3", LongLived: true, RV0: 985},
	}
	if !quick {
		out = append(out,
			scenario{Kind: "chain3", Users: 2},
			scenario{Kind: "chain3", Mask: 0b010, Users: 1},
			scenario{Kind: "chain3", CP: "None", Users: 2},
			scenario{Kind: "chain2", Mask: 0b11, Users: 2},
			scenario{Kind: "chain3", CP: "IfNoController", Users: 1},
			scenario{Kind: "deployment", Edits: 3},
			scenario{Kind: "chain3", Users: 1, Restarts: 1, Conflicts: 1},
			scenario{Kind: "chain2", Mask: 0b11, Restarts: 2, Conflicts: 1},
			scenario{Kind: "deployment", Edits: 2, Restarts: 1, Conflicts: 1},
		)
	}
	return out
}

func run(o checks.Opts) *report.Report {
	rep := report.New("C02", "bfs")
	rep.Rule = "explicit-state BFS to closure: chains r1{a,b} <- r2{a,b,c} <- r3{a,c,d} of hand-made ObjectSets with previous lists (two systems run all passes of a history in one long-lived operator process) (local or delegated phase per revision, collisionProtection Prevent/IfNoController/None) and an ObjectDeployment rolling T1{a,b} -> T2{a,c} -> T1; events = reconcile of every ObjectSet / ObjectSetPhase / ObjectDeployment in any order, user pausing / archiving / deleting any revision mid-handover, garbage collector, (budgeted) operator crash before request i of a pass and a foreign write landing before write i of a pass, one request of a revision's pass answered 409 / 500 without effect; monitor on every effective write to a managed object + state invariant"
	scs := scenarios(o.Quick())
	rep.Bounds["systems"] = len(scs)
	for i, sc := range scs {
		if o.Shards > 1 && i%o.Shards != o.Shard {
			continue
		}
		sys := system(sc)
		sys.MaxStates = 250000
		if !o.Quick() {
			sys.MaxStates = 1000000
		}
		osw.RunBFS(rep, sys, map[string]any{"scenario": sc})
		rep.Samples = append(rep.Samples, map[string]any{"scenario": sc, "example_path": []string{"reconcile:os:r1", "reconcile:os:r2", "reconcile:os:r1", "user:archive:r1", "reconcile:os:r1", "reconcile:os:r2"}})
	}
	return rep
}

func replay(v report.Violation) string {
	var sc scenario
	if err := checks.Decode(v.Params["scenario"], &sc); err != nil {
		return err.Error()
	}
	return osw.ReplayBFS(system(sc), v)
}

// twinScenarios: handovers r1 -> r2 on the cluster-scoped kinds in lockstep with the namespaced ones.
func twinScenarios(quick bool) []twin.Scenario {
	two := []string{"ready", "notready"}
	out := []twin.Scenario{
		{Kind: "chain", N: 2, Mask: 0, Successor: true, Classes: []string{"ready"}, Users: 1},
		{Kind: "chain", N: 1, Mask: 0b1, Successor: true, Classes: []string{"ready"}, Users: 1},
		{Kind: "deployment", Classes: []string{"ready"}, Edits: 1, Limit: -1},
		{Kind: "chain", N: 2, Mask: 0b10, Classes: two, Users: 1},
	}
	if !quick {
		out = append(out, twin.Scenario{Kind: "chain", N: 2, Mask: 0b10, Successor: true, Classes: []string{"ready"}, Users: 1}, twin.Scenario{Kind: "deployment", Classes: two, Edits: 2, Limit: 1},
			twin.Scenario{Kind: "chain", N: 2, Mask: 0b01, Successor: true, Classes: []string{"ready"}, Users: 1, Third: 1})
	}
	return out
}

// ---- API-call granular interleavings of two revisions' passes ----

type ilScenario struct {
	Warm  []string `json:"warmup"` // reconciles run atomically first
	A, B  string   `json:"a"`
	CP    string   `json:"cp"`
	Bound int      `json:"preemptions"`
	// Fault409: one of the first Fault409 requests of pass A may be answered 409 Conflict without
	// taking effect (the explorer picks which, or none; it counts as one deviation like a preemption)
	Fault409 int `json:"fault409,omitempty"`
}

func ilBody(sc ilScenario) explore.Body {
	return func(ctx *explore.Ctx) (string, string) {
		w := osw.NewWorld()
		base := scenario{Kind: "chain3", CP: sc.CP}
		mkRevision(w, 0, base)
		mkRevision(w, 1, base, "r1")
		mkRevision(w, 2, base, "r1", "r2")
		for _, n := range sc.Warm {
			switch {
			case strings.HasPrefix(n, "archive:"):
				osw.SetLifecycle(w, strings.TrimPrefix(n, "archive:"), "Archived")
			case strings.HasPrefix(n, "delete:"):
				_ = w.S.Delete(osw.OSKey(strings.TrimPrefix(n, "delete:")), kmodel.DeleteOpts{})
			default:
				w.Reconcile(world.CtrlObjectSet, osw.NN(n), nil)
			}
		}
		before := w.S.Clone()
		passes := map[string]*world.Pass{}
		plans := map[string]*world.Plan{sc.A: {Yield: true}, sc.B: {Yield: true}}
		if sc.Fault409 > 0 {
			if c := ctx.Choose(sc.Fault409+1, 1, "409-at-request-of-pass-"+sc.A); c > 0 {
				plans[sc.A].FaultAt, plans[sc.A].Fault = c-1, world.ConflictBefore
			}
		}
		sch := vsched.Run(ctx, 4000, func() {
			for _, n := range []string{sc.A, sc.B} {
				n := n
				vsched.GoNamed("pass-"+n, func() {
					passes[n] = w.Reconcile(world.CtrlObjectSet, osw.NN(n), plans[n])
				})
			}
		})
		var viol []string
		if sch.Panic != "" {
			viol = append(viol, "panic: "+sch.Panic)
		}
		if sch.Deadlock != "" {
			viol = append(viol, "deadlock: "+sch.Deadlock)
		}
		for _, n := range []string{sc.A, sc.B} {
			p := passes[n]
			if p == nil {
				continue
			}
			if p.Panic != "" {
				viol = append(viol, "panic in pass: "+p.Panic)
			}
			k := osw.OSKey(n)
			self := world.IdentOf(k, before.Objs[k].Content)
			for _, f := range judgeRequests(p, self, func() int64 {
				if o := w.S.Objs[k]; o != nil {
					return osw.StatusRevision(o.Content)
				}
				return osw.StatusRevision(before.Objs[k].Content) // the revision is gone after its teardown
			}, revisionIn(before)) {
				viol = append(viol, f.Message)
				ctx.Log = append(ctx.Log, p.Trace()...)
			}
		}
		for _, f := range Invariant(w) {
			viol = append(viol, f.Message)
		}
		// did pass A go on writing to managed objects after one of its requests was answered 409?
		if pl, p := plans[sc.A], passes[sc.A]; len(viol) > 0 && pl.Fault != world.NoFault && p != nil {
			for i, r := range p.Reqs {
				if i > pl.FaultAt && r.Key.Group == world.TestGroup && r.IsWrite() && r.Err == nil && r.Changed() {
					viol = append(viol, fmt.Sprintf("(pass %s went on after request #%d was answered 409: %s)", sc.A, pl.FaultAt, r))
					break
				}
			}
		}
		var ctl []string
		for _, k := range w.S.SortedKeys() {
			if k.Group == world.TestGroup {
				cs := world.Controllers(w.S.Objs[k].Content, false)
				c := "-"
				if len(cs) > 0 {
					c = cs[0].Name
				}
				ctl = append(ctl, k.Name+":"+c)
			}
		}
		return strings.Join(viol, "\n"), strings.Join(ctl, " ")
	}
}

func ilScenarios(quick bool) []ilScenario {
	out := []ilScenario{
		{Warm: []string{"r1", "r2", "r3"}, A: "r1", B: "r2", Bound: 2},
		{Warm: []string{"r1", "r2", "r3", "r1"}, A: "r2", B: "r3", Bound: 2},
		{Warm: []string{"r1", "r2", "r3", "r1", "r2"}, A: "r1", B: "r3", Bound: 2},
		{Warm: []string{"r1", "r2", "r3", "r1", "r2", "r3"}, A: "r2", B: "r3", Bound: 2},
		{Warm: []string{"r1", "r2", "r3", "r1", "r2"}, A: "r1", B: "r2", CP: "None", Bound: 2},
		// an old revision, demoted to plain owner, is archived / deleted and releases its objects
		// while a newer revision adopts them
		{Warm: []string{"r1", "r2", "archive:r1"}, A: "r1", B: "r3", Bound: 2},
		{Warm: []string{"r1", "r2", "delete:r1"}, A: "r1", B: "r3", Bound: 2},
		{Warm: []string{"r1", "archive:r1"}, A: "r1", B: "r2", Bound: 2},
		// a request of the older revision's pass is answered 409 while the newer revision adopts
		{Warm: []string{"r1"}, A: "r1", B: "r2", Bound: 2, Fault409: 14},
		{Warm: []string{"r1", "r2"}, A: "r2", B: "r3", Bound: 2, Fault409: 14},
	}
	if !quick {
		for i := range out {
			out[i].Bound = 3
		}
		out = append(out, ilScenario{Warm: []string{"r1", "r2", "r3", "r1", "r2", "r3", "r1"}, A: "r1", B: "r3", CP: "None", Bound: 3})
	}
	return out
}

func runIL(o checks.Opts) *report.Report {
	rep := report.New("C02", "interleavings")
	rep.Rule = "two revisions' reconcile passes of the chain r1<-r2<-r3 run as threads with a scheduling point before every API request, after an atomic warm-up sequence (which may archive or delete the oldest revision, so that its teardown releases objects while a newer revision adopts them); every interleaving with <= `preemptions` preemptions (two scenarios: one request of the older revision's pass may also be answered 409 without effect, which counts like a preemption); same per-request monitor and state invariant; distinct = final controller per object"
	scs := ilScenarios(o.Quick())
	rep.Bounds["scenarios"] = len(scs)
	for i, sc := range scs {
		if o.Shards > 1 && i%o.Shards != o.Shard {
			continue
		}
		rep.Bounds["preemptions"] = sc.Bound
		e := &explore.Explorer{Bound: sc.Bound, MaxViol: 3000}
		st := e.Explore(ilBody(sc))
		if len(st.Divergences) > 0 {
			rep.Fault = st.Divergences[0]
			return rep
		}
		rep.Executions += st.Executions
		rep.ImplTraces += st.Executions
		rep.States += st.Executions
		rep.Transitions += st.Points
		for k, v := range st.Outcomes {
			rep.Outcomes[fmt.Sprintf("%s|%s: %s", sc.A, sc.B, k)] += v
		}
		added := int64(0)
		for _, v := range st.Violations {
			n := len(rep.Violations)
			rep.AddViolation(report.Violation{Identity: ilIdentity(sc, v.Message), Message: v.Message, Choices: v.Choices, Labels: v.Labels, Params: map[string]any{"scenario": sc}, Trace: v.Log})
			added++
			_ = n
		}
		if st.NViolations > added {
			rep.NViolations += st.NViolations - added
		}
		rep.Samples = append(rep.Samples, map[string]any{"scenario": sc})
	}
	return rep
}

// ilIdentity: what went wrong (the first monitor named in the message), in which scenario, and
// whether the pass went on writing after a 409.
func ilIdentity(sc ilScenario, msg string) string {
	kind := "other"
	for _, k := range [][2]string{{"lowers the recorded revision", "revision-lowered"}, {"takes control of an object recorded for", "took-object-of-newer-revision"}, {"takes control from", "took-object-from-newer-revision"}, {"controllers", "two-controllers"}, {"makes", "foreign-controller-set"}, {"is not kept as plain owner", "former-controller-dropped"}, {"panic", "panic"}, {"deadlock", "deadlock"}} {
		if strings.Contains(msg, k[0]) {
			kind = k[1]
			break
		}
	}
	id := fmt.Sprintf("interleaving %s a=%s b=%s warm=%v", kind, sc.A, sc.B, sc.Warm)
	if strings.Contains(msg, "went on after request #") {
		id += " after-409"
	}
	return id
}

func replayIL(v report.Violation) string {
	var sc ilScenario
	if err := checks.Decode(v.Params["scenario"], &sc); err != nil {
		return err.Error()
	}
	c, msg, _ := explore.RunOnce(ilBody(sc), v.Choices, v.Labels)
	if c.Divergence != "" {
		return "DIVERGENCE (harness fault): " + c.Divergence
	}
	return msg
}

func init() {
	checks.Register(&checks.Check{
		ID:    "C02",
		Level: "model_checking",
		Assumptions: []string{
			"native owner strategy in the chains (the annotation strategy drops former owners by design and is exercised in C01/C05)",
			"no availability probes in the chain scenarios (handover does not depend on them)",
		},
		Subs: []*checks.Sub{
			{Name: "bfs", Shards: func(t string) int {
				if t == "thorough" {
					return 20
				}
				return 15
			}, Run: run, Replay: replay, Parallel: true},
			{Name: "interleavings", Shards: func(string) int { return 8 }, Run: runIL, Replay: replayIL},
			{Name: "annotation-held", Shards: func(string) int { return 2 }, Run: runAnno, Replay: replayAnno},
			{Name: "cluster-twin", Shards: func(string) int { return 4 }, Run: func(o checks.Opts) *report.Report { return twin.Run("C02", twinScenarios(o.Quick()), o) }, Replay: twin.Replay, Parallel: true},
		},
	})
}
