package c02

import (
	"fmt"

	metav1 "k8s.io/apimachinery/pkg/apis/meta/v1"

	corev1alpha1 "package-operator.run/apis/core/v1alpha1"
	"package-operator.run/internal/packages/zzverif/checks"
	"package-operator.run/internal/packages/zzverif/kmodel"
	"package-operator.run/internal/packages/zzverif/osw"
	"package-operator.run/internal/packages/zzverif/report"
	"package-operator.run/internal/packages/zzverif/world"
)

// ---- annotation owner strategy, objects that outlive their delete ----
//
// Two ObjectSetPhases r1 (revision 1, objects a, b) and r2 (revision 2, objects a, c) are served
// by the multi-cluster phase controller, which keeps ownership in the package-operator.run/owners
// annotation. r2 may take a over (collisionProtection per system). A third party may put a
// finalizer of its own on a managed object, the user may delete either phase, so that objects of
// the newer revision linger on, terminating, while the older revision reconciles.

type annoScenario struct {
	CP    string `json:"collisionProtection"`
	Users int    `json:"userEvents"`
	Holds int    `json:"holds"`
}

func (sc annoScenario) name() string {
	return fmt.Sprintf("annotation-strategy phases r1{a,b} r2{a,c} cp=%s users=%d holds=%d", sc.CP, sc.Users, sc.Holds)
}

func annoSystem(sc annoScenario) *world.System {
	mk := func(w *world.World, name string, rev int64, objs ...string) {
		var l []corev1alpha1.ObjectSetObject
		for _, n := range objs {
			o := world.O(world.Obj("Widget", "", n, map[string]any{"x": rev}))
			if sc.CP != "" {
				o.CollisionProtection = corev1(sc.CP)
			}
			l = append(l, o)
		}
		w.MustCreate(&corev1alpha1.ObjectSetPhase{
			ObjectMeta: metav1.ObjectMeta{Name: name, Namespace: world.NS, Labels: map[string]string{corev1alpha1.ObjectSetPhaseClassLabel: world.PhaseClass}},
			Spec:       corev1alpha1.ObjectSetPhaseSpec{Revision: rev, Objects: l}})
	}
	return &world.System{
		Name: sc.name(),
		Init: func() *world.World {
			w := osw.NewWorld()
			mk(w, "r1", 1, "a", "b")
			mk(w, "r2", 2, "a", "c")
			w.Budget["user"] = sc.Users
			w.Budget["hold"] = sc.Holds
			return w
		},
		Events: func(w *world.World) []world.Event {
			var evs []world.Event
			for _, name := range []string{"r1", "r2"} {
				name := name
				k := world.PKOKey("ObjectSetPhase", world.NS, name)
				o := w.S.Objs[k]
				if o == nil {
					continue
				}
				evs = append(evs, world.Event{Name: "reconcile:phase-anno:" + name, Apply: func(w *world.World) *world.Pass {
					return w.Reconcile(world.CtrlPhaseAnno, osw.NN(name), nil)
				}})
				if w.Budget["user"] > 0 && !kmodel.Terminating(o.Content) {
					evs = append(evs, world.Event{Name: "user:delete:" + name, Apply: func(w *world.World) *world.Pass {
						w.Budget["user"]--
						_ = w.S.Delete(k, kmodel.DeleteOpts{})
						return nil
					}})
				}
			}
			evs = append(evs, osw.GCEvent(w)...)
			evs = append(evs, holdEvents(w)...)
			return evs
		},
		Check: func(before *world.World, ev world.Event, pass *world.Pass, after *world.World) []world.Finding {
			if pass == nil || pass.Ctrl != world.CtrlPhaseAnno {
				return nil
			}
			self, rev, ok := ownerOfPass(before.S, pass)
			if !ok {
				return nil
			}
			return judgeRequestsFor(pass, self, func() int64 { return rev }, revisionIn(before.S), true)
		},
		Invariant: func(w *world.World) []world.Finding {
			var out []world.Finding
			for _, k := range w.S.SortedKeys() {
				if k.Group != world.TestGroup {
					continue
				}
				c := w.S.Objs[k].Content
				ctrls := world.Controllers(c, true)
				if len(ctrls) > 1 {
					out = append(out, world.Finding{Monitor: "handover", Identity: "two-controllers-state", Message: fmt.Sprintf("%s has %d controllers in its owners annotation", k, len(ctrls))})
				}
				rev, okr := world.Revision(c)
				if !okr || len(ctrls) != 1 || ctrls[0].Kind != "ObjectSetPhase" {
					continue
				}
				o := w.S.Objs[world.PKOKey("ObjectSetPhase", world.NS, ctrls[0].Name)]
				if o == nil || kmodel.UID(o.Content) != ctrls[0].UID {
					continue
				}
				v, _ := world.Nested(o.Content, "spec", "revision")
				if orev, _ := v.(int64); orev != 0 && orev < rev {
					out = append(out, world.Finding{Monitor: "handover", Identity: "controlled-by-older-revision-state", Message: fmt.Sprintf("%s is recorded for revision %d but controlled by ObjectSetPhase %s of revision %d", k, rev, ctrls[0].Name, orev)})
				}
			}
			return out
		},
	}
}

func annoScenarios(quick bool) []annoScenario {
	out := []annoScenario{{CP: "None", Users: 1, Holds: 1}, {CP: "", Users: 1, Holds: 1}}
	if !quick {
		out = append(out, annoScenario{CP: "None", Users: 2, Holds: 2}, annoScenario{CP: "IfNoController", Users: 2, Holds: 1})
	}
	return out
}

func runAnno(o checks.Opts) *report.Report {
	rep := report.New("C02", "annotation-held")
	rep.Rule = "explicit-state BFS to closure: ObjectSetPhases r1{a,b} (revision 1) and r2{a,c} (revision 2) under the multi-cluster phase controller (owners annotation); events = reconcile of either phase, the user deleting a phase, a third party putting its own finalizer on a managed object and releasing terminating ones, garbage collector (budgets); the handover monitor of sub bfs reads ownership from the annotation (former controllers may be dropped there)"
	scs := annoScenarios(o.Quick())
	rep.Bounds["systems"] = len(scs)
	for i, sc := range scs {
		if o.Shards > 1 && i%o.Shards != o.Shard {
			continue
		}
		sys := annoSystem(sc)
		sys.MaxStates = 80000
		osw.RunBFS(rep, sys, map[string]any{"anno": sc})
	}
	return rep
}

func replayAnno(v report.Violation) string {
	var sc annoScenario
	if err := checks.Decode(v.Params["anno"], &sc); err != nil {
		return err.Error()
	}
	return osw.ReplayBFS(annoSystem(sc), v)
}
