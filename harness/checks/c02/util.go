package c02

import corev1alpha1 "package-operator.run/apis/core/v1alpha1"

func corev1(s string) corev1alpha1.CollisionProtection { return corev1alpha1.CollisionProtection(s) }
