// Package c03 checks property C03 (phases roll out in order, gated on the probes of the
// previous phase) by explicit-state search over the real ObjectSet and ObjectSetPhase
// controllers interleaved with a workload controller that moves every object's status.
package c03

import (
	metav1 "k8s.io/apimachinery/pkg/apis/meta/v1"

	"fmt"
	corev1alpha1 "package-operator.run/apis/core/v1alpha1"
	"strings"

	"package-operator.run/internal/packages/zzverif/checks"
	"package-operator.run/internal/packages/zzverif/checks/twin"
	"package-operator.run/internal/packages/zzverif/kmodel"
	"package-operator.run/internal/packages/zzverif/osw"
	"package-operator.run/internal/packages/zzverif/report"
	"package-operator.run/internal/packages/zzverif/world"
)

func system(n int, mask uint, classes []string, pauses int, drifts int, celProbes ...bool) *world.System {
	probes := world.StdProbes()
	if len(celProbes) > 0 && celProbes[0] {
		probes = world.CELProbes()
	}
	sliced := len(celProbes) > 1 && celProbes[1]
	successor := len(celProbes) > 2 && celProbes[2]
	withPrev := len(celProbes) > 3 && celProbes[3]
	remote := len(celProbes) > 4 && celProbes[4]
	if len(celProbes) > 5 && celProbes[5] {
		probes = world.FEProbes()
	}
	cfg := osw.B1(n, mask)
	return &world.System{
		Name: fmt.Sprintf("B1 phases=%d delegated=%03b pauses=%d drifts=%d", n, mask, pauses, drifts),
		Init: func() *world.World {
			w := osw.NewWorld()
			ps := osw.PhaseSpecs(cfg, 1)
			if remote {
				// delegated phases of a class the built-in controller does not serve: some other phase
				// controller (scripted below) owns the ObjectSetPhases' status
				for i := range ps {
					if ps[i].Class != "" {
						ps[i].Class = "remote"
					}
				}
			}
			if sliced {
				// the phases' objects live in ObjectSlices; a lagging cache may hide one from a pass
				for i := range ps {
					if withPrev && i > 0 {
						break // only the first phase is sliced: the later ones have inline objects to write
					}
					name := fmt.Sprintf("r1-slice-%d", i)
					w.MustCreate(&corev1alpha1.ObjectSlice{ObjectMeta: metav1.ObjectMeta{Name: name, Namespace: world.NS}, Objects: ps[i].Objects})
					ps[i].Slices, ps[i].Objects = []string{name}, nil
				}
				w.Budget["stale"] = 1
			}
			if withPrev {
				// r1 is a second revision: an unrelated earlier revision r0 has reported revision 1, so
				// r1's first pass also computes and persists its own revision number
				w.MustCreate(world.NewObjectSet("r0", osw.PhaseSpecs(osw.OnePhase("z"), 1), nil))
				w.Reconcile(world.CtrlObjectSet, osw.NN("r0"), nil)
				w.MustCreate(world.NewObjectSet("r1", ps, probes, "r0"))
			} else {
				w.MustCreate(world.NewObjectSet("r1", ps, probes))
			}
			if successor {
				// a newer revision r2 that keeps only r1's first phase: it takes the object over, r1
				// goes on observing it and must still gate its later phases on that object's probes
				w.MustCreate(world.NewObjectSet("r2", osw.PhaseSpecs(cfg[:1], 1), probes, "r1"))
			}
			w.Budget["user-pause"] = pauses
			w.Budget["drift"] = drifts
			return w
		},
		Events: func(w *world.World) []world.Event {
			evs := append(osw.ReconcileEvents(w), osw.WorkloadEvents(w, classes)...)
			if w.Budget["drift"] > 0 {
				// a third party edits the spec of a managed object (generation bump); the workload
				// controller may catch up with it before PKO reverts it, which bumps the generation again
				for _, k := range w.S.SortedKeys() {
					if k.Group != world.TestGroup {
						continue
					}
					k := k
					evs = append(evs, world.Event{Name: fmt.Sprintf("third-party:drift:%s/%s", k.Kind, k.Name), Apply: func(w *world.World) *world.Pass {
						w.Budget["drift"]--
						_ = w.Edit(k, func(c map[string]any) { c["spec"].(map[string]any)["x"] = int64(9) })
						return nil
					}})
				}
			}
			if remote {
				for _, k := range w.S.SortedKeys() {
					o := w.S.Objs[k]
					if k.Kind != "ObjectSetPhase" || kmodel.Labels(o.Content)[corev1alpha1.ObjectSetPhaseClassLabel] != "remote" {
						continue
					}
					k := k
					gen := world.Generation(o.Content)
					cur, _, curOG, has := world.Condition(o.Content, "Available")
					for _, st := range []struct {
						status string
						stale  bool
					}{{"True", false}, {"False", false}, {"Unknown", false}, {"True", true}} {
						st := st
						og := gen
						if st.stale {
							og = gen - 1
						}
						if has && cur == st.status && curOG == og {
							continue
						}
						name := fmt.Sprintf("remote-phase-controller:%s:Available=%s", k.Name, st.status)
						if st.stale {
							name += "@previous-generation"
						}
						evs = append(evs, world.Event{Name: name, Apply: func(w *world.World) *world.Pass {
							_ = w.SetStatus(k, map[string]any{"conditions": []any{map[string]any{"type": "Available", "status": st.status, "reason": "Reported", "message": "reported by the remote phase controller", "observedGeneration": og, "lastTransitionTime": "2026-01-01T00:00:00Z"}}})
							return nil
						}})
					}
				}
			}
			if w.Budget["stale"] > 0 {
				for _, k := range w.S.SortedKeys() {
					if k.Kind == "ObjectSlice" {
						k := k
						evs = append(evs, world.Event{Name: "reconcile-stale:os:r1 (cache misses slice " + k.Name + ")", Apply: func(w *world.World) *world.Pass {
							w.Budget["stale"]--
							return w.Reconcile(world.CtrlObjectSet, osw.NN("r1"), &world.Plan{HideInList: []kmodel.Key{k}})
						}})
					}
				}
			}
			return append(evs, osw.PauseEvents(w, "r1")...)
		},
		Check: Check,
	}
}

func phaseAvailable(c map[string]any) bool {
	if c == nil {
		return false
	}
	st, _, og, ok := world.Condition(c, "Available")
	return ok && st == "True" && og == world.Generation(c)
}

// Check is the C03 monitor for one transition.
func Check(before *world.World, _ world.Event, pass *world.Pass, after *world.World) []world.Finding {
	if pass == nil || pass.Ctrl != world.CtrlObjectSet {
		return nil
	}
	osKey := osw.OSKey(pass.Key.Name)
	osObj := before.S.Objs[osKey]
	if osObj == nil {
		return nil
	}
	phases := osw.SpecPhasesIn(before.S, osObj.Content, osKey.Namespace) // incl. the content of referenced ObjectSlices
	v := osw.View{Before: before.S, Pass: pass}
	probe := osw.ProbeFor(osObj.Content)
	var out []world.Finding
	bad := func(id, f string, a ...any) {
		out = append(out, world.Finding{Monitor: "phase-order", Identity: id, Message: fmt.Sprintf(f, a...)})
	}
	phaseOf := func(k kmodel.Key) int {
		for i, p := range phases {
			if p.Class != "" {
				if k == osw.PhaseKey(osKey.Name, p.Name) {
					return i
				}
				continue
			}
			for _, ok := range p.Objects {
				if ok == k {
					return i
				}
			}
		}
		return -1
	}
	// earlierOK: did the pass, before request i, see phase j complete and passing?
	earlierOK := func(j, i int) (bool, string) {
		p := phases[j]
		if p.Class != "" {
			resp, seen := v.LastResponse(osw.PhaseKey(osKey.Name, p.Name), i)
			if !seen || resp == nil {
				return false, fmt.Sprintf("delegated phase %q was not read as present", p.Name)
			}
			if !phaseAvailable(resp) {
				return false, fmt.Sprintf("delegated phase %q was not Available for its current generation in what the pass read", p.Name)
			}
			return true, ""
		}
		for _, ok := range p.Objects {
			resp, seen := v.LastResponse(ok, i)
			if !seen || resp == nil {
				return false, fmt.Sprintf("object %s of phase %q was not found present in this pass", ok, p.Name)
			}
			if !probe(resp) {
				return false, fmt.Sprintf("object %s of phase %q fails its probes in what the pass read (status class %s)", ok, p.Name, osw.StatusClass(resp))
			}
		}
		return true, ""
	}
	for i, r := range pass.Reqs {
		if !r.IsWrite() || r.Verb == "delete" || r.Key == osKey {
			continue
		}
		k := phaseOf(r.Key)
		if k < 0 {
			continue
		}
		for j := 0; j < k; j++ {
			if ok, why := earlierOK(j, i); !ok {
				bad("later-phase-written-before-earlier-passed", "request #%d %s writes phase %q although %s", i, r, phases[k].Name, why)
				break
			}
		}
	}
	// the first failing phase is the one named
	osAfter := after.S.Objs[osKey]
	if osAfter != nil && pass.Err == nil && len(pass.Reqs) > 0 {
		last := pass.Reqs[len(pass.Reqs)-1]
		if last.Key == osKey && last.Sub == "status" && last.Err == nil {
			st, reason, _, _ := world.Condition(osAfter.Content, "Available")
			if st == "False" && reason == "ProbeFailure" {
				msg := condMessage(osAfter.Content, "Available")
				first := -1
				for j := range phases {
					if ok, _ := earlierOK(j, len(pass.Reqs)); !ok {
						first = j
						break
					}
				}
				if first >= 0 && !strings.HasPrefix(msg, fmt.Sprintf("Phase %q failed", phases[first].Name)) {
					bad("wrong-phase-named", "Available=False/ProbeFailure names %q but the first failing phase in spec order is %q", msg, phases[first].Name)
				}
				if first < 0 {
					bad("probe-failure-without-failing-phase", "Available=False/ProbeFailure (%q) although every phase was seen present and passing", msg)
				}
			}
		}
	}
	return out
}

func condMessage(c map[string]any, typ string) string {
	st, _ := c["status"].(map[string]any)
	l, _ := st["conditions"].([]any)
	for _, e := range l {
		m, _ := e.(map[string]any)
		if m["type"] == typ {
			s, _ := m["message"].(string)
			return s
		}
	}
	return ""
}

type shape struct {
	n       int
	mask    uint
	classes []string
	pauses  int
	drifts  int
	cel     bool // probes are a CEL rule with an empty failure message
	sliced  bool // the phases' objects live in ObjectSlices, a lagging cache may hide one
	succ    bool // a newer revision r2 (previous: r1) keeps r1's first phase only
	prev    bool // r1 names an earlier revision r0 as previous (its first pass assigns revision 2)
	remote  bool // delegated phases have a class served by a scripted remote phase controller
	fe      bool // Gadgets are probed by fieldsEqual over two status fields (both absent at first)
}

var (
	two   = []string{"ready", "notready"}
	three = []string{"ready", "notready", "stale"}
	zero  = []string{"ready", "stale0"} // stale0: status.observedGeneration and the condition's are an explicit 0
)

func shapes(quick bool) []shape {
	if quick {
		return []shape{
			{n: 2, mask: 0, classes: osw.StatusNames, pauses: 0}, {n: 2, mask: 1, classes: three, pauses: 0}, {n: 2, mask: 2, classes: three, pauses: 0}, {n: 2, mask: 3, classes: two, pauses: 0},
			{n: 3, mask: 0, classes: three, pauses: 0}, {n: 3, mask: 0b010, classes: two, pauses: 0}, {n: 2, mask: 1, classes: two, pauses: 2},
			{n: 2, mask: 0, classes: two, drifts: 1}, {n: 2, mask: 1, classes: []string{"ready"}, drifts: 1},
			{n: 2, mask: 0, classes: two, cel: true}, {n: 2, mask: 1, classes: two, cel: true},
			{n: 2, mask: 0, classes: two, sliced: true},
			{n: 2, mask: 0, classes: two, succ: true}, {n: 2, mask: 2, classes: two, succ: true},
			{n: 2, mask: 0, classes: zero}, {n: 2, mask: 1, classes: zero},
			{n: 2, mask: 0, classes: two, sliced: true, prev: true}, {n: 2, mask: 2, classes: two, prev: true},
			{n: 2, mask: 1, classes: []string{"ready"}, remote: true}, {n: 3, mask: 0b010, classes: []string{"ready"}, remote: true},
			{n: 3, mask: 0, classes: two, fe: true}, {n: 3, mask: 0b010, classes: two, fe: true},
		}
	}
	var out []shape
	for m := uint(0); m < 4; m++ {
		out = append(out, shape{n: 2, mask: m, classes: three, pauses: 0}, shape{n: 2, mask: m, classes: two, pauses: 2})
	}
	out = append(out, shape{n: 2, mask: 0, classes: osw.StatusNames, pauses: 0}, shape{n: 2, mask: 1, classes: osw.StatusNames, pauses: 0})
	for m := uint(0); m < 8; m++ {
		out = append(out, shape{n: 3, mask: m, classes: two, pauses: 0})
	}
	out = append(out, shape{n: 3, mask: 0, classes: three, pauses: 0}, shape{n: 3, mask: 0b001, classes: three, pauses: 0}, shape{n: 3, mask: 0b100, classes: three, pauses: 0}, shape{n: 3, mask: 0b001, classes: two, pauses: 2})
	for m := uint(0); m < 4; m++ {
		out = append(out, shape{n: 2, mask: m, classes: two, drifts: 1})
	}
	out = append(out, shape{n: 2, mask: 0, classes: three, drifts: 2}, shape{n: 3, mask: 0, classes: []string{"ready"}, drifts: 1})
	for m := uint(0); m < 4; m++ {
		out = append(out, shape{n: 2, mask: m, classes: two, cel: true})
	}
	out = append(out, shape{n: 3, mask: 0b010, classes: two, cel: true})
	out = append(out, shape{n: 2, mask: 0, classes: three, sliced: true}, shape{n: 3, mask: 0, classes: two, sliced: true}, shape{n: 2, mask: 0b10, classes: two, sliced: true})
	for m := uint(0); m < 4; m++ {
		out = append(out, shape{n: 2, mask: m, classes: two, succ: true}, shape{n: 2, mask: m, classes: []string{"ready", "notready", "stale0"}})
	}
	out = append(out, shape{n: 3, mask: 0, classes: two, succ: true}, shape{n: 2, mask: 0, classes: two, drifts: 1, succ: true})
	out = append(out, shape{n: 2, mask: 1, classes: two, remote: true}, shape{n: 3, mask: 0b010, classes: two, remote: true}, shape{n: 3, mask: 0b011, classes: []string{"ready"}, remote: true, pauses: 1})
	out = append(out, shape{n: 3, mask: 0, classes: three, fe: true}, shape{n: 3, mask: 0b010, classes: two, fe: true}, shape{n: 3, mask: 0b110, classes: two, fe: true})
	out = append(out, shape{n: 2, mask: 0, classes: two, sliced: true, prev: true}, shape{n: 3, mask: 0, classes: two, sliced: true, prev: true}, shape{n: 2, mask: 0b10, classes: three, sliced: true, prev: true}, shape{n: 2, mask: 1, classes: two, prev: true})
	return out
}

func run(o checks.Opts) *report.Report {
	rep := report.New("C03", "bfs")
	rep.Rule = "explicit-state BFS to closure: events = reconcile(ObjectSet), reconcile(each ObjectSetPhase), workload controller setting any existing object's status to a class of the system's alphabet (none/ready/not-ready/stale-observedGeneration/observedGeneration 0), a third party editing a managed object's spec (so that PKO's own revert bumps the generation under a status that was current); one system per phase layout (2-3 phases, local/delegated mask), status alphabet, probe set and encoding (objects inline, or in ObjectSlices one of which a lagging cache may hide from a pass) (condition / fieldsEqual probes, or a CEL rule with an empty failure message), layouts whose delegated phases have a class served by a scripted remote phase controller that reports Available True / False / Unknown for the current or the previous generation, and layouts with a newer revision r2 that takes over r1's first phase while r1 keeps rolling out its later ones; monitor on every request of every ObjectSet pass"
	ss := shapes(o.Quick())
	rep.Bounds["systems"] = len(ss)
	for i, s := range ss {
		if o.Shards > 1 && i%o.Shards != o.Shard {
			continue
		}
		sys := system(s.n, s.mask, s.classes, s.pauses, s.drifts, s.cel, s.sliced, s.succ, s.prev, s.remote, s.fe)
		sys.Name += fmt.Sprintf(" statuses=%d celProbes=%v sliced=%v successor=%v prev=%v remote=%v fieldsEqualStatus=%v", len(s.classes), s.cel, s.sliced, s.succ, s.prev, s.remote, s.fe)
		sys.MaxStates = 400000
		osw.RunBFS(rep, sys, map[string]any{"n": s.n, "mask": s.mask, "classes": s.classes, "pauses": s.pauses, "drifts": s.drifts, "cel": s.cel, "sliced": s.sliced, "succ": s.succ, "prev": s.prev, "remote": s.remote, "fe": s.fe})
		rep.Samples = append(rep.Samples, map[string]any{"system": sys.Name, "example_path": []string{"reconcile:os:r1", "workload:Widget/a=ready", "reconcile:os:r1", "workload:Widget/a=notready", "reconcile:os:r1"}})
	}
	return rep
}

func replay(v report.Violation) string {
	n, _ := v.Params["n"].(float64)
	mask, _ := v.Params["mask"].(float64)
	var classes []string
	if l, ok := v.Params["classes"].([]any); ok {
		for _, e := range l {
			classes = append(classes, fmt.Sprint(e))
		}
	}
	pauses, _ := v.Params["pauses"].(float64)
	drifts, _ := v.Params["drifts"].(float64)
	cel, _ := v.Params["cel"].(bool)
	sliced, _ := v.Params["sliced"].(bool)
	succ, _ := v.Params["succ"].(bool)
	prev, _ := v.Params["prev"].(bool)
	remote, _ := v.Params["remote"].(bool)
	fe, _ := v.Params["fe"].(bool)
	return osw.ReplayBFS(system(int(n), uint(mask), classes, int(pauses), int(drifts), cel, sliced, succ, prev, remote, fe), v)
}

// twinScenarios: phase gating of the cluster-scoped kinds in lockstep with the namespaced ones.
func twinScenarios(quick bool) []twin.Scenario {
	out := []twin.Scenario{
		{Kind: "chain", N: 3, Mask: 0, Classes: two},
		{Kind: "chain", N: 2, Mask: 0b01, Classes: three},
	}
	if !quick {
		out = append(out, twin.Scenario{Kind: "chain", N: 3, Mask: 0b010, Classes: three}, twin.Scenario{Kind: "chain", N: 2, Mask: 0b11, Classes: []string{"ready", "notready", "stale0"}, Third: 1})
	}
	return out
}

func init() {
	checks.Register(&checks.Check{
		ID:    "C03",
		Level: "model_checking",
		Assumptions: []string{
			"what a pass 'found' for an object is the last answer (read or write response) it received for that key before the judged request",
			"probes are the fixed pair condition Ready=True on Widget / fieldsEqual(.spec.x,.status.x) on Gadget; the reference prober is independent of pkg/probing (which C17 checks)",
		},
		Subs: []*checks.Sub{{Name: "bfs", Shards: func(t string) int {
			if t == "thorough" {
				return 55
			}
			return 20
		}, Run: run, Replay: replay, Parallel: true},
			{Name: "long-lived", Shards: func(t string) int {
				if t == "thorough" {
					return 5
				}
				return 2
			}, Run: runLL, Replay: replayLL, Parallel: true},
			twin.Sub("C03", twinScenarios)},
	})
}
