package c03

import (
	"fmt"

	corev1alpha1 "package-operator.run/apis/core/v1alpha1"
	"package-operator.run/internal/packages/zzverif/checks"
	"package-operator.run/internal/packages/zzverif/kmodel"
	"package-operator.run/internal/packages/zzverif/osw"
	"package-operator.run/internal/packages/zzverif/report"
	"package-operator.run/internal/packages/zzverif/world"
)

// ---- one long-lived operator process; the ObjectSet is deleted and re-created under the same name ----
//
// Every state is reached on a single process whose real controller instances live across all
// passes of the history (world.System.Persistent), so anything the code keeps in memory between
// reconciles follows the history. The ObjectSet r1 is deleted (normally or with orphan
// propagation) and re-created under the same name with the other probe set (none <-> standard)
// and IfNoController collision protection, so that the second incarnation meets the objects the
// first one left behind.

type llScenario struct {
	N          int      `json:"phases"`
	Mask       uint     `json:"delegated"`
	FirstProbe bool     `json:"firstIncarnationHasProbes"`
	Classes    []string `json:"classes"`
}

func (sc llScenario) name() string {
	return fmt.Sprintf("long-lived phases=%d delegated=%03b firstProbes=%v statuses=%d", sc.N, sc.Mask, sc.FirstProbe, len(sc.Classes))
}

func llObjectSet(sc llScenario, incarnation int) *corev1alpha1.ObjectSet {
	cfg := osw.B1(sc.N, sc.Mask)
	var phases []world.PhaseSpec
	for _, p := range cfg {
		ps := world.PhaseSpec{Name: p.Name}
		if p.Delegated {
			ps.Class = world.PhaseClass
		}
		for _, o := range p.Objects {
			ps.Objects = append(ps.Objects, world.OCP(world.Obj(o.Kind, "", o.Name, map[string]any{"x": int64(1)}), corev1alpha1.CollisionProtectionIfNoController))
		}
		phases = append(phases, ps)
	}
	withProbes := sc.FirstProbe == (incarnation == 1)
	var probes []corev1alpha1.ObjectSetProbe
	if withProbes {
		probes = world.StdProbes()
	}
	return world.NewObjectSet("r1", phases, probes)
}

func llSystem(sc llScenario) *world.System {
	return &world.System{
		Name:       sc.name(),
		Persistent: true,
		Init: func() *world.World {
			w := osw.NewWorld()
			w.LongLived()
			w.MustCreate(llObjectSet(sc, 1))
			w.Budget["delete"] = 1
			w.Budget["recreate"] = 1
			return w
		},
		Events: func(w *world.World) []world.Event {
			evs := append(osw.ReconcileEvents(w), osw.WorkloadEvents(w, sc.Classes)...)
			evs = append(evs, osw.GCEvent(w)...)
			os := w.S.Objs[osw.OSKey("r1")]
			if os != nil && !kmodel.Terminating(os.Content) && w.Budget["delete"] > 0 {
				for _, prop := range []string{"", "Orphan"} {
					prop := prop
					evs = append(evs, world.Event{Name: "user:delete:r1 propagation=" + prop, Apply: func(w *world.World) *world.Pass {
						w.Budget["delete"]--
						_ = w.S.Delete(osw.OSKey("r1"), kmodel.DeleteOpts{Propagation: prop})
						return nil
					}})
				}
			}
			if os == nil && w.Budget["delete"] == 0 && w.Budget["recreate"] > 0 {
				evs = append(evs, world.Event{Name: "user:re-create:r1 (other probes)", Apply: func(w *world.World) *world.Pass {
					w.Budget["recreate"]--
					w.MustCreate(llObjectSet(sc, 2))
					return nil
				}})
			}
			return evs
		},
		Check: Check,
	}
}

func llScenarios(quick bool) []llScenario {
	out := []llScenario{
		{N: 2, Mask: 0, FirstProbe: false, Classes: []string{"ready", "notready"}},
		{N: 2, Mask: 0, FirstProbe: true, Classes: []string{"ready", "notready"}},
	}
	if !quick {
		out = append(out,
			llScenario{N: 2, Mask: 0b10, FirstProbe: false, Classes: []string{"ready", "notready"}},
			llScenario{N: 3, Mask: 0, FirstProbe: false, Classes: []string{"ready", "notready"}},
			llScenario{N: 2, Mask: 0, FirstProbe: false, Classes: []string{"ready", "notready", "stale"}},
		)
	}
	return out
}

func runLL(o checks.Opts) *report.Report {
	rep := report.New("C03", "long-lived")
	rep.Rule = "explicit-state BFS in which every state is reached on ONE long-lived operator process (the real controller instances live across all passes; a state is rebuilt by replaying its event path from the initial state): reconcile(ObjectSet, each ObjectSetPhase), workload status changes, the user deleting the ObjectSet (background or orphan propagation) and re-creating it under the same name with the other probe set and IfNoController collision protection, garbage collector; the gating monitor on every request of every ObjectSet pass, with the probes of the ObjectSet as it is at that pass"
	scs := llScenarios(o.Quick())
	rep.Bounds["systems"] = len(scs)
	for i, sc := range scs {
		if o.Shards > 1 && i%o.Shards != o.Shard {
			continue
		}
		sys := llSystem(sc)
		sys.MaxStates = 200000
		osw.RunBFS(rep, sys, map[string]any{"scenario": sc})
		rep.Samples = append(rep.Samples, map[string]any{"scenario": sc, "example_path": []string{"reconcile:os:r1", "workload:Widget/a=ready", "reconcile:os:r1", "user:delete:r1 propagation=Orphan", "reconcile:os:r1", "gc", "user:re-create:r1 (other probes)", "reconcile:os:r1"}})
	}
	return rep
}

func replayLL(v report.Violation) string {
	var sc llScenario
	if err := checks.Decode(v.Params["scenario"], &sc); err != nil {
		return err.Error()
	}
	return osw.ReplayBFS(llSystem(sc), v)
}
