// Package c04 checks property C04 (teardown in reverse phase order; finalizer / Archived held
// until nothing is controlled any more) by explicit-state search over deletion and archival
// of a rolled-out ObjectSet, with finalizer holders, third-party take-overs, the garbage
// collector and operator crashes at every API call of every teardown pass.
package c04

import (
	"fmt"
	"strings"

	metav1 "k8s.io/apimachinery/pkg/apis/meta/v1"
	"k8s.io/apimachinery/pkg/runtime/schema"

	corev1alpha1 "package-operator.run/apis/core/v1alpha1"
	"package-operator.run/internal/packages/zzverif/checks"
	"package-operator.run/internal/packages/zzverif/checks/twin"
	"package-operator.run/internal/packages/zzverif/kmodel"
	"package-operator.run/internal/packages/zzverif/osw"
	"package-operator.run/internal/packages/zzverif/report"
	"package-operator.run/internal/packages/zzverif/world"
)

const cachedFinalizer = "package-operator.run/cached"

type scenario struct {
	N        int      `json:"phases"`
	Mask     uint     `json:"delegated"`
	Archive  bool     `json:"archive"`
	Holds    []string `json:"holds"` // object names carrying a foreign finalizer
	Restarts int      `json:"restarts"`
	TakeOver bool     `json:"takeover"`
	// Conflicts: budget of foreign writes (resourceVersion bumps) landing just before a write of a pass
	Conflicts int `json:"conflicts"`
	// Rearchive: all passes run in one long-lived operator process and the user may set the
	// archived ObjectSet back to Active (the API allows it) and archive it again
	Rearchive bool `json:"rearchive"`
	// AdmissionFaults: budget of "admission for one managed object starts answering every write
	// and dry run with a reason-less 500" (and may heal again)
	AdmissionFaults int `json:"admissionFaults"`
	// Foreground: the user deletes with propagationPolicy=Foreground (kubectl delete
	// --cascade=foreground): the ObjectSet also carries the foregroundDeletion finalizer and the
	// garbage collector deletes the dependents itself, in no particular order
	Foreground bool `json:"foreground"`
	// Sliced: every phase keeps all its objects in an ObjectSlice (nothing inline)
	Sliced bool `json:"sliced"`
	// Graceful: Gadgets outlive their delete without any finalizer (like a Pod in graceful
	// termination) until the kubelet is done with them
	Graceful bool `json:"graceful"`
	// Collide: a foreign Widget b exists before the rollout, which therefore stops in phase p2 with a
	// collision and never gets to report what it controls; teardown starts from that state
	Collide bool `json:"collide"`
	// SliceUnowned: (with Sliced) after the rollout the ObjectSlices lose their owner references -
	// as after the package deployer re-created them - so that the teardown pass has to write to
	// them again before it can read the phases' objects
	SliceUnowned bool `json:"sliceUnowned,omitempty"`
}

func (sc scenario) name() string {
	return fmt.Sprintf("B1 phases=%d delegated=%03b archive=%v holds=%v restarts=%d takeover=%v conflicts=%d rearchive=%v admissionFaults=%d foreground=%v sliced=%v graceful=%v collide=%v sliceUnowned=%v", sc.N, sc.Mask, sc.Archive, sc.Holds, sc.Restarts, sc.TakeOver, sc.Conflicts, sc.Rearchive, sc.AdmissionFaults, sc.Foreground, sc.Sliced, sc.Graceful, sc.Collide, sc.SliceUnowned)
}

func system(sc scenario) *world.System {
	cfg := osw.B1(sc.N, sc.Mask)
	return &world.System{
		Name:       sc.name(),
		Persistent: sc.Rearchive,
		Init: func() *world.World {
			w := osw.NewWorld()
			if sc.Rearchive {
				w.LongLived()
				w.Budget["unarchive"] = 1
				w.Budget["rearchive"] = 1
			}
			if sc.Graceful {
				w.S.Graceful = map[schema.GroupKind]bool{{Group: world.TestGroup, Kind: "Gadget"}: true}
			}
			if sc.Collide {
				w.MustCreate(world.Obj("Widget", world.NS, "b", map[string]any{"x": int64(7)}))
			}
			ps := osw.PhaseSpecs(cfg, 1)
			if sc.Sliced {
				for i := range ps {
					sn := "r1-slice-" + ps[i].Name
					w.MustCreate(&corev1alpha1.ObjectSlice{ObjectMeta: metav1.ObjectMeta{Name: sn, Namespace: world.NS}, Objects: ps[i].Objects})
					ps[i].Slices, ps[i].Objects = []string{sn}, nil
				}
			}
			w.MustCreate(world.NewObjectSet("r1", ps, world.StdProbes()))
			w.MustCreate(world.NewObjectSet("x", nil, nil))
			if !osw.Settle(w, 40, true) {
				panic("c04: rollout did not settle")
			}
			if sc.SliceUnowned {
				for _, k := range w.S.SortedKeys() {
					if k.Kind == "ObjectSlice" {
						_ = w.Edit(k, func(c map[string]any) { delete(c["metadata"].(map[string]any), "ownerReferences") })
					}
				}
			}
			if sc.Collide {
				if o := w.S.Objs[world.KeyOf("Widget", world.NS, "a")]; o == nil {
					panic("c04: collide scenario did not roll out phase p1")
				}
			}
			for _, p := range cfg {
				for _, o := range p.Objects {
					for _, h := range sc.Holds {
						if h == o.Name {
							osw.AddFinalizer(w, o.Key(), osw.HoldFinalizer)
						}
					}
				}
			}
			w.Budget["user"] = 1
			w.Budget["restart"] = sc.Restarts
			w.Budget["conflict"] = sc.Conflicts
			w.Budget["admission"] = sc.AdmissionFaults
			if sc.TakeOver {
				w.Budget["takeover"] = 1
			}
			return w
		},
		Events: func(w *world.World) []world.Event {
			var evs []world.Event
			os := w.S.Objs[osw.OSKey("r1")]
			if os == nil {
				// the ObjectSet is gone: only the garbage collector is left
				return osw.GCEvent(w)
			}
			if w.Budget["user"] > 0 {
				if sc.Archive {
					evs = append(evs, world.Event{Name: "user:archive:r1", Apply: func(w *world.World) *world.Pass {
						w.Budget["user"]--
						osw.SetLifecycle(w, "r1", "Archived")
						return nil
					}})
				} else {
					evs = append(evs, world.Event{Name: "user:delete:r1", Apply: func(w *world.World) *world.Pass {
						w.Budget["user"]--
						opts := kmodel.DeleteOpts{}
						if sc.Foreground {
							opts.Propagation = "Foreground"
						}
						_ = w.S.Delete(osw.OSKey("r1"), opts)
						return nil
					}})
				}
				return evs // teardown is explored from the moment the user acts
			}
			if lc := osw.Lifecycle(os.Content); sc.Rearchive && !kmodel.Terminating(os.Content) {
				if lc == "Archived" && w.Budget["unarchive"] > 0 {
					evs = append(evs, world.Event{Name: "user:unarchive:r1", Apply: func(w *world.World) *world.Pass {
						w.Budget["unarchive"]--
						osw.SetLifecycle(w, "r1", "Active")
						return nil
					}})
				}
				if lc == "Active" && w.Budget["unarchive"] == 0 && w.Budget["rearchive"] > 0 {
					evs = append(evs, world.Event{Name: "user:archive-again:r1", Apply: func(w *world.World) *world.Pass {
						w.Budget["rearchive"]--
						osw.SetLifecycle(w, "r1", "Archived")
						return nil
					}})
				}
			}
			for _, k := range w.S.SortedKeys() {
				if k.Group != world.TestGroup {
					continue
				}
				k := k
				if _, broken := w.S.Admission[k]; broken {
					evs = append(evs, world.Event{Name: "admission:heals:" + k.Kind + "/" + k.Name, Apply: func(w *world.World) *world.Pass {
						delete(w.S.Admission, k)
						return nil
					}})
				} else if w.Budget["admission"] > 0 {
					evs = append(evs, world.Event{Name: "admission:breaks:" + k.Kind + "/" + k.Name, Apply: func(w *world.World) *world.Pass {
						w.Budget["admission"]--
						if w.S.Admission == nil {
							w.S.Admission = map[kmodel.Key]string{}
						}
						w.S.Admission[k] = "noreason"
						return nil
					}})
				}
			}
			evs = append(evs, osw.ReconcileEvents(w)...)
			for _, k := range w.S.SortedKeys() {
				if o := w.S.Objs[k]; w.S.Graceful[k.GK()] && kmodel.Terminating(o.Content) && len(kmodel.Finalizers(o.Content)) == 0 {
					k := k
					evs = append(evs, world.Event{Name: "kubelet:finished:" + k.Kind + "/" + k.Name, Apply: func(w *world.World) *world.Pass {
						w.S.FinishGraceful(k)
						return nil
					}})
				}
			}
			evs = append(evs, osw.ReleaseEvents(w)...)
			evs = append(evs, osw.GCEvent(w)...)
			evs = append(evs, osw.CrashEvents(w)...)
			evs = append(evs, osw.ConflictEventsAll(w)...)
			if w.Budget["takeover"] > 0 {
				// a third party makes ObjectSet x the controller of b (r1 stays plain owner)
				bk := world.KeyOf("Widget", world.NS, "b")
				if b := w.S.Objs[bk]; b != nil && !kmodel.Terminating(b.Content) {
					evs = append(evs, world.Event{Name: "third-party:takeover:b", Apply: func(w *world.World) *world.Pass {
						w.Budget["takeover"]--
						x := world.IdentOf(osw.OSKey("x"), w.S.Objs[osw.OSKey("x")].Content)
						_ = w.Edit(bk, func(c map[string]any) {
							m := c["metadata"].(map[string]any)
							l, _ := m["ownerReferences"].([]any)
							for _, e := range l {
								delete(e.(map[string]any), "controller")
							}
							m["ownerReferences"] = append(l, map[string]any{"apiVersion": "package-operator.run/v1alpha1", "kind": "ObjectSet", "name": x.Name, "uid": x.UID, "controller": true})
						})
						return nil
					}})
				}
			}
			return evs
		},
		Check:     Check,
		Invariant: Invariant,
	}
}

// controlledLater lists objects of phases > k that os still controls (transitively) in the
// store as it is just before request i of the pass.
func controlledLater(v osw.View, s *kmodel.Store, osKey kmodel.Key, osContent map[string]any, k, i int) []string {
	id := world.IdentOf(osKey, osContent)
	var out []string
	phases := osw.SpecPhasesIn(s, osContent, osKey.Namespace)
	for j := k + 1; j < len(phases); j++ {
		for _, ok := range phases[j].Objects {
			c := v.ContentAt(ok, i)
			if c == nil {
				continue
			}
			if controlsAt(v, s, c, id, i) {
				out = append(out, fmt.Sprintf("%s (phase %q)", ok, phases[j].Name))
			}
		}
		if phases[j].Class != "" {
			pk := osw.PhaseKey(osKey.Name, phases[j].Name)
			if c := v.ContentAt(pk, i); c != nil && world.ControlledBy(c, false, id) {
				out = append(out, fmt.Sprintf("%s (phase object of %q)", pk, phases[j].Name))
			}
		}
	}
	return out
}

// controlsAt: transitive control evaluated on the store as of request i.
func controlsAt(v osw.View, s *kmodel.Store, obj map[string]any, os world.Ident, i int) bool {
	if world.ControlledBy(obj, false, os) {
		return true
	}
	for _, c := range world.Controllers(obj, false) {
		if c.Kind != "ObjectSetPhase" {
			continue
		}
		m, _ := obj["metadata"].(map[string]any)
		ns, _ := m["namespace"].(string)
		p := v.ContentAt(world.PKOKey("ObjectSetPhase", ns, c.Name), i)
		if p != nil && kmodel.UID(p) == c.UID && world.ControlledBy(p, false, os) {
			return true
		}
		// the phase object that rolled this object out for the ObjectSet has vanished without
		// tearing it down: the object is still what the ObjectSet put there (an in-process phase
		// cannot leave it behind), only the garbage collector will find it
		if p == nil && strings.HasPrefix(c.Name, os.Name+"-") {
			return true
		}
	}
	return false
}

// Check is the C04 transition monitor.
func Check(before *world.World, _ world.Event, pass *world.Pass, after *world.World) []world.Finding {
	if pass == nil {
		return nil
	}
	var out []world.Finding
	bad := func(id, f string, a ...any) {
		out = append(out, world.Finding{Monitor: "teardown-order", Identity: id, Message: fmt.Sprintf(f, a...)})
	}
	v := osw.View{Before: before.S, Pass: pass}
	// which ObjectSet is this pass working for?
	var osKey kmodel.Key
	phaseIdx := -1
	switch pass.Ctrl {
	case world.CtrlObjectSet:
		osKey = osw.OSKey(pass.Key.Name)
	case world.CtrlPhase:
		k, idx, ok := osw.OwnerOfPhase(before.S, world.PKOKey("ObjectSetPhase", pass.Key.Namespace, pass.Key.Name))
		if !ok {
			return nil
		}
		osKey, phaseIdx = k, idx
	default:
		return nil
	}
	os := before.S.Objs[osKey]
	if os == nil {
		return nil
	}
	phases := osw.SpecPhasesIn(before.S, os.Content, osKey.Namespace)
	phaseOf := func(k kmodel.Key) int {
		for i, p := range phases {
			if p.Class != "" && k == osw.PhaseKey(osKey.Name, p.Name) {
				return i
			}
			for _, ok := range p.Objects {
				if ok == k {
					return i
				}
			}
		}
		return -1
	}
	id := world.IdentOf(osKey, os.Content)
	for i, r := range pass.Reqs {
		if !r.IsWrite() || r.Err != nil {
			continue
		}
		if r.Verb == "delete" && r.Key != osKey {
			if phaseIdx >= 0 && osw.HasFinalizer(os.Content, "foregroundDeletion") {
				// foreground cascade: the garbage collector deletes the dependents itself, the
				// ObjectSetPhase among them and in no particular order; the phase controller then
				// honours the deletion of its own object. Who deletes what when is the collector's
				// doing, not an order the ObjectSet's teardown chose.
				continue
			}
			k := phaseOf(r.Key)
			if phaseIdx >= 0 {
				k = phaseIdx
			}
			if k < 0 {
				continue
			}
			if later := controlledLater(v, before.S, osKey, os.Content, k, i); len(later) > 0 {
				bad("delete-before-later-phase-gone", "request #%d %s deletes an object of phase %q while objects of later phases are still present and controlled by the ObjectSet: %v", i, r, phases[k].Name, later)
			}
		}
		if r.Key == osKey {
			removesFinalizer := osw.HasFinalizer(r.Pre, cachedFinalizer) && (r.Post == nil || !osw.HasFinalizer(r.Post, cachedFinalizer))
			archivedTrue := false
			if r.Post != nil {
				if st, _, _, ok := world.Condition(r.Post, "Archived"); ok && st == "True" {
					if pst, _, _, pok := world.Condition(r.Pre, "Archived"); !pok || pst != "True" {
						archivedTrue = true
					}
				}
			}
			if removesFinalizer || archivedTrue {
				var still []string
				for _, p := range phases {
					for _, ok := range p.Objects {
						if c := v.ContentAt(ok, i); c != nil && controlsAt(v, before.S, c, id, i) {
							still = append(still, ok.String())
						}
					}
				}
				what := "removes the finalizer"
				if archivedTrue {
					what = "reports Archived=True"
				}
				if len(still) > 0 {
					bad("done-while-still-controlling", "request #%d %s %s while the ObjectSet still controls %v", i, r, what, still)
				}
			}
		}
	}
	return out
}

// Invariant: a terminating/archived ObjectSet that still controls a listed object keeps its
// finalizer and does not show Archived=True.
func Invariant(w *world.World) []world.Finding {
	var out []world.Finding
	for _, k := range w.S.SortedKeys() {
		if k.Kind != "ObjectSet" || k.Group != "package-operator.run" {
			continue
		}
		os := w.S.Objs[k].Content
		arch := osw.Lifecycle(os) == "Archived"
		if !kmodel.Terminating(os) && !arch {
			continue
		}
		id := world.IdentOf(k, os)
		var still []string
		for _, p := range osw.SpecPhasesIn(w.S, os, k.Namespace) {
			for _, ok := range p.Objects {
				if o := w.S.Objs[ok]; o != nil && osw.ControlsTransitively(w.S, o.Content, id) {
					still = append(still, ok.String())
				}
			}
		}
		if len(still) == 0 {
			continue
		}
		if !osw.HasFinalizer(os, cachedFinalizer) {
			out = append(out, world.Finding{Monitor: "finalizer-held", Identity: "finalizer-gone-while-controlling", Message: fmt.Sprintf("ObjectSet %s is being torn down, still controls %v, but no longer carries its finalizer", k.Name, still)})
		}
		if st, _, _, ok := world.Condition(os, "Archived"); ok && st == "True" {
			out = append(out, world.Finding{Monitor: "finalizer-held", Identity: "archived-true-while-controlling", Message: fmt.Sprintf("ObjectSet %s reports Archived=True but still controls %v", k.Name, still)})
		}
	}
	return out
}

func scenarios(quick bool) []scenario {
	var out []scenario
	for _, arch := range []bool{false, true} {
		for m := uint(0); m < 4; m++ {
			out = append(out,
				scenario{N: 2, Mask: m, Archive: arch, Holds: []string{"b"}, Restarts: 1, TakeOver: true, Conflicts: 1},
				scenario{N: 2, Mask: m, Archive: arch, Holds: []string{"a", "g"}, Restarts: 1, Conflicts: 1},
				scenario{N: 2, Mask: m, Archive: arch, AdmissionFaults: 1},
			)
		}
		for _, m := range []uint{0, 0b010, 0b101, 0b111} {
			out = append(out, scenario{N: 3, Mask: m, Archive: arch, Holds: []string{"c", "b"}, Restarts: 1, TakeOver: true, Conflicts: 1})
		}
		if arch {
			out = append(out, scenario{N: 2, Mask: 0, Archive: true, Collide: true, Holds: []string{"a"}}, scenario{N: 2, Mask: 0b01, Archive: true, Collide: true})
			out = append(out, scenario{N: 2, Mask: 0, Archive: true, Graceful: true, Conflicts: 1}, scenario{N: 3, Mask: 0b010, Archive: true, Graceful: true})
			out = append(out, scenario{N: 2, Mask: 0, Archive: true, Holds: []string{"b"}, Sliced: true, Restarts: 1}, scenario{N: 2, Mask: 0b01, Archive: true, Holds: []string{"g"}, Sliced: true})
			out = append(out, scenario{N: 2, Mask: 0, Archive: true, Holds: []string{"a"}, Rearchive: true})
			out = append(out, scenario{N: 2, Mask: 0, Archive: true, Sliced: true, SliceUnowned: true, Conflicts: 1}, scenario{N: 2, Mask: 0, Sliced: true, SliceUnowned: true, Conflicts: 1, Restarts: 1})
		} else {
			out = append(out, scenario{N: 2, Mask: 0, Collide: true, Holds: []string{"a"}}, scenario{N: 3, Mask: 0, Collide: true, Restarts: 1})
			out = append(out, scenario{N: 2, Mask: 0, Graceful: true, Restarts: 1}, scenario{N: 2, Mask: 0b10, Holds: []string{"b"}, Graceful: true})
			out = append(out, scenario{N: 2, Mask: 0, Holds: []string{"b"}, Sliced: true, Restarts: 1}, scenario{N: 2, Mask: 0b10, Holds: []string{"a"}, Sliced: true})
			out = append(out, scenario{N: 2, Mask: 0, Holds: []string{"b"}, Foreground: true, Restarts: 1}, scenario{N: 2, Mask: 0b10, Holds: []string{"a", "g"}, Foreground: true})
		}
		if !quick {
			if !arch {
				for m := uint(0); m < 8; m++ {
					out = append(out, scenario{N: 3, Mask: m, Holds: []string{"b", "c"}, Foreground: true, Restarts: 1, TakeOver: true})
				}
			}
			if arch {
				out = append(out, scenario{N: 3, Mask: 0, Archive: true, Holds: []string{"b"}, Rearchive: true}, scenario{N: 2, Mask: 0b10, Archive: true, Holds: []string{"a"}, Rearchive: true})
			}
			for m := uint(0); m < 8; m++ {
				for _, h := range [][]string{{}, {"c"}, {"b", "g"}, {"a", "b", "c"}} {
					out = append(out, scenario{N: 3, Mask: m, Archive: arch, Holds: h, Restarts: 2, TakeOver: true, Conflicts: 2})
				}
			}
		}
	}
	return out
}

func run(o checks.Opts) *report.Report {
	rep := report.New("C04", "bfs")
	rep.Rule = "explicit-state BFS to closure from the fully rolled-out state, or from a rollout that a collision stopped in its second phase (phases inline, or every phase entirely in an ObjectSlice): user deletes (background, or foreground propagation with the garbage collector deleting dependents itself) or archives the ObjectSet, then reconcile(ObjectSet / each ObjectSetPhase), finalizer holder releasing foreign finalizers, (some systems) Gadgets that outlive their delete without any finalizer until the kubelet is done with them, garbage collector, third party making another ObjectSet the controller of b, (budgeted) an operator crash before request i of a pass for every i, and (budgeted) another actor's write to the target landing just before write i of a pass for every i (delete precondition / update conflict); (budgeted) admission for one managed object starting to answer every write and dry run with a reason-less 500 and healing again, (one system: all passes in one long-lived operator process, the archived ObjectSet set back to Active and archived again); monitors on every delete / finalizer removal / Archived=True write and an invariant on every state"
	scs := scenarios(o.Quick())
	rep.Bounds["systems"] = len(scs)
	for i, sc := range scs {
		if o.Shards > 1 && i%o.Shards != o.Shard {
			continue
		}
		sys := system(sc)
		sys.MaxStates = 300000
		osw.RunBFS(rep, sys, map[string]any{"scenario": sc})
		rep.Samples = append(rep.Samples, map[string]any{"scenario": sc, "example_path": []string{"user:delete:r1", "reconcile:os:r1", "release:Widget/b", "reconcile:os:r1", "gc"}})
	}
	return rep
}

func replay(v report.Violation) string {
	var sc scenario
	if err := checks.Decode(v.Params["scenario"], &sc); err != nil {
		return "bad replay: " + err.Error()
	}
	return osw.ReplayBFS(system(sc), v)
}

// twinScenarios: teardown (archive / delete) of the cluster-scoped kinds in lockstep with the namespaced ones.
func twinScenarios(quick bool) []twin.Scenario {
	out := []twin.Scenario{
		{Kind: "chain", N: 2, Mask: 0, Classes: []string{"ready"}, Users: 2, Third: 1},
		{Kind: "chain", N: 2, Mask: 0b10, Classes: []string{"ready"}, Users: 1},
	}
	if !quick {
		out = append(out, twin.Scenario{Kind: "chain", N: 3, Mask: 0b101, Classes: []string{"ready"}, Users: 2}, twin.Scenario{Kind: "chain", N: 2, Mask: 0b11, Classes: []string{"ready", "notready"}, Users: 2})
	}
	return out
}

func init() {
	checks.Register(&checks.Check{
		ID:    "C04",
		Level: "model_checking",
		Assumptions: []string{
			"orphan deletion is outside C04 (C05 covers it); 'controls' is transitive through a delegated phase's ObjectSetPhase",
			"crash = process death before request i is sent, followed by a restart with an empty dynamic cache",
		},
		Subs: []*checks.Sub{{Name: "bfs", Shards: func(t string) int {
			if t == "thorough" {
				return 16
			}
			return 8
		}, Run: run, Replay: replay, Parallel: true},
			twin.Sub("C04", twinScenarios)},
	})
}
