// Package c05 checks property C05 (deletes hit only controlled objects, pinned to the inspected
// version) by enumerating, under the controlled scheduler, every interleaving at API-call
// granularity of a real teardown pass with third-party actions on the managed objects.
package c05

import (
	"encoding/json"
	"fmt"
	"strings"

	metav1 "k8s.io/apimachinery/pkg/apis/meta/v1"

	corev1alpha1 "package-operator.run/apis/core/v1alpha1"
	"package-operator.run/internal/packages/zzverif/checks"
	"package-operator.run/internal/packages/zzverif/explore"
	"package-operator.run/internal/packages/zzverif/kmodel"
	"package-operator.run/internal/packages/zzverif/osw"
	"package-operator.run/internal/packages/zzverif/report"
	"package-operator.run/internal/packages/zzverif/vsched"
	"package-operator.run/internal/packages/zzverif/world"
)

var objStates = []string{"controlled", "co-owned", "foreign", "absent"}

// extraStates: shapes that take a different path through the teardown code; used in dedicated
// scenarios (controlled, but without the cache label and held by a foreign finalizer).
var extraStates = []string{"controlled-unlabelled-held", "sole-plain-owner"}

// Scenario is one closed teardown system.
type Scenario struct {
	States []string `json:"states"` // per object o1..on
	Target int      `json:"target"` // object the third party acts on
	Anno   bool     `json:"annotationStrategy"`
	Orphan bool     `json:"orphan"`
	Events int      `json:"thirdPartyEvents"`
	// Foreground: the owner was deleted with foreground propagation (foregroundDeletion finalizer)
	Foreground bool `json:"foreground"`
}

func (sc Scenario) String() string { b, _ := json.Marshal(sc); return string(b) }

var tpMenu = []string{"reown-to-x", "delete-recreate-unowned", "delete-recreate-owned-by-x", "modify-spec", "strip-owners"}

type sys struct {
	w      *world.World
	sc     Scenario
	ownKey kmodel.Key
	ctrl   string
	self   world.Ident
	x      world.Ident
	keys   []kmodel.Key
}

func ownerEntries(anno bool, ents []map[string]any, obj map[string]any) {
	md := obj["metadata"].(map[string]any)
	if len(ents) == 0 {
		delete(md, "ownerReferences")
		if a, ok := md["annotations"].(map[string]any); ok {
			delete(a, world.OwnersAnnotation)
		}
		return
	}
	if anno {
		for _, e := range ents {
			e["namespace"] = world.NS
			delete(e, "blockOwnerDeletion")
		}
		j, _ := json.Marshal(ents)
		a, _ := md["annotations"].(map[string]any)
		if a == nil {
			a = map[string]any{}
			md["annotations"] = a
		}
		a[world.OwnersAnnotation] = string(j)
		return
	}
	var l []any
	for _, e := range ents {
		l = append(l, e)
	}
	md["ownerReferences"] = l
}

func entry(id world.Ident, ctrl bool) map[string]any {
	e := map[string]any{"apiVersion": "package-operator.run/v1alpha1", "kind": id.Kind, "name": id.Name, "uid": id.UID}
	if ctrl {
		e["controller"] = true
		e["blockOwnerDeletion"] = true
	}
	return e
}

func build(sc Scenario) *sys {
	w := osw.NewWorld()
	s := &sys{w: w, sc: sc}
	w.MustCreate(world.NewObjectSet("x", nil, nil))
	s.x = world.IdentOf(osw.OSKey("x"), w.S.Objs[osw.OSKey("x")].Content)
	var objs []corev1alpha1.ObjectSetObject
	for i := range sc.States {
		name := fmt.Sprintf("o%d", i+1)
		objs = append(objs, world.O(world.Obj("Widget", "", name, map[string]any{"x": int64(1)})))
		s.keys = append(s.keys, world.KeyOf("Widget", world.NS, name))
	}
	if sc.Anno {
		w.MustCreate(&corev1alpha1.ObjectSetPhase{
			ObjectMeta: metav1.ObjectMeta{Name: "own", Namespace: world.NS, Finalizers: []string{"package-operator.run/cached"}, Labels: map[string]string{corev1alpha1.ObjectSetPhaseClassLabel: world.PhaseClass}},
			Spec:       corev1alpha1.ObjectSetPhaseSpec{Revision: 1, Objects: objs}})
		s.ownKey, s.ctrl = world.PKOKey("ObjectSetPhase", world.NS, "own"), world.CtrlPhaseAnno
	} else {
		os := world.NewObjectSet("own", []world.PhaseSpec{{Name: "p1", Objects: objs}}, nil)
		os.Finalizers = []string{"package-operator.run/cached"}
		w.MustCreate(os)
		s.ownKey, s.ctrl = osw.OSKey("own"), world.CtrlObjectSet
		_ = w.SetStatus(s.ownKey, map[string]any{"revision": int64(1)})
	}
	s.self = world.IdentOf(s.ownKey, w.S.Objs[s.ownKey].Content)
	for i, st := range sc.States {
		if st == "absent" {
			continue
		}
		s.create(i, st)
	}
	prop := ""
	if sc.Orphan {
		prop = "Orphan"
	}
	if sc.Foreground {
		prop = "Foreground"
	}
	if err := w.S.Delete(s.ownKey, kmodel.DeleteOpts{Propagation: prop}); err != nil {
		panic(err)
	}
	return s
}

func (s *sys) create(i int, st string) {
	o := world.Obj("Widget", world.NS, fmt.Sprintf("o%d", i+1), map[string]any{"x": int64(1)})
	o.SetAnnotations(map[string]string{world.RevisionAnnotation: "1"})
	o.SetLabels(map[string]string{"package-operator.run/cache": "True"})
	var ents []map[string]any
	switch st {
	case "sole-plain-owner":
		// the torn-down owner is the object's only owner, but not its controller (its controller
		// flag was taken away, or the revision that took the object over was orphan-deleted)
		ents = []map[string]any{entry(s.self, false)}
	case "controlled-unlabelled-held":
		ents = []map[string]any{entry(s.self, true)}
		o.SetLabels(nil)
		o.SetFinalizers([]string{"example.com/hold"})
	case "controlled":
		ents = []map[string]any{entry(s.self, true)}
	case "co-owned":
		ents = []map[string]any{entry(s.self, false), entry(s.x, true)}
	case "foreign":
		ents = []map[string]any{entry(s.x, true)}
	case "unowned":
	}
	ownerEntries(s.sc.Anno, ents, o.Object)
	s.w.MustCreate(o)
}

func (s *sys) thirdParty(action string) {
	k := s.keys[s.sc.Target]
	w := s.w
	switch action {
	case "nothing":
	case "reown-to-x":
		if w.S.Objs[k] != nil {
			_ = w.Edit(k, func(c map[string]any) {
				ownerEntries(s.sc.Anno, []map[string]any{entry(s.self, false), entry(s.x, true)}, c)
			})
		}
	case "delete-recreate-unowned":
		_ = w.S.Delete(k, kmodel.DeleteOpts{})
		if w.S.Objs[k] == nil {
			s.create(s.sc.Target, "unowned")
		}
	case "delete-recreate-owned-by-x":
		_ = w.S.Delete(k, kmodel.DeleteOpts{})
		if w.S.Objs[k] == nil {
			s.create(s.sc.Target, "foreign")
		}
	case "modify-spec":
		if w.S.Objs[k] != nil {
			_ = w.Edit(k, func(c map[string]any) { c["spec"].(map[string]any)["x"] = int64(9) })
		}
	case "strip-owners":
		if w.S.Objs[k] != nil {
			_ = w.Edit(k, func(c map[string]any) { ownerEntries(s.sc.Anno, nil, c) })
		}
	}
}

// judge evaluates the C05 monitors on the teardown pass.
func (s *sys) judge(pass *world.Pass, before *kmodel.Store) []string {
	var out []string
	bad := func(f string, a ...any) { out = append(out, fmt.Sprintf(f, a...)) }
	listed := map[kmodel.Key]bool{}
	for _, k := range s.keys {
		listed[k] = true
	}
	v := osw.View{Before: before, Pass: pass}
	for i, r := range pass.Reqs {
		if !listed[r.Key] || !r.IsWrite() {
			continue
		}
		if s.sc.Orphan {
			bad("orphan deletion, but the pass sent %s", r)
			continue
		}
		ctrlBefore := world.ControlledBy(r.Pre, s.sc.Anno, s.self)
		if r.Verb == "delete" {
			read, seen := v.LastResponse(r.Key, i)
			if r.PreUID == nil || r.PreRV == nil {
				bad("delete #%d %s carries no UID/resourceVersion precondition", i, r)
			} else if !seen || read == nil || *r.PreUID != kmodel.UID(read) || *r.PreRV != kmodel.RVOf(read) {
				bad("delete #%d %s is conditioned on uid=%s rv=%s, which is not the version this pass inspected (%s/%s)", i, r, *r.PreUID, *r.PreRV, kmodel.UID(read), kmodel.RVOf(read))
			}
			if r.Err == nil && r.Pre != nil && !ctrlBefore {
				bad("delete #%d %s took effect on an object the owner does not control at that instant (controllers: %v)", i, r, world.Controllers(r.Pre, s.sc.Anno))
			}
			continue
		}
		if r.Err != nil || !r.Changed() {
			continue
		}
		if ctrlBefore {
			continue // statement only restricts objects PKO does not control
		}
		if !world.OwnedBy(r.Pre, s.sc.Anno, s.self) {
			bad("request #%d %s changed an object owned by others (owners %v)", i, r, world.Owners(r.Pre, s.sc.Anno))
			continue
		}
		// co-owned: at most its own owner reference and the cache label are removed
		if d := diffBeyondRelease(r.Pre, r.Post, s.sc.Anno, s.self); d != "" {
			bad("request #%d %s changed a merely co-owned object beyond removing its own owner reference and the cache label: %s", i, r, d)
		}
	}
	return out
}

// diffBeyondRelease compares pre/post after normalising away the two permitted changes.
func diffBeyondRelease(pre, post map[string]any, anno bool, self world.Ident) string {
	if post == nil {
		return "object deleted"
	}
	norm := func(c map[string]any) string {
		cp := kmodelDeepCopy(c)
		md := cp["metadata"].(map[string]any)
		if l, ok := md["labels"].(map[string]any); ok {
			delete(l, "package-operator.run/cache")
			if len(l) == 0 {
				delete(md, "labels")
			}
		}
		if anno {
			if a, ok := md["annotations"].(map[string]any); ok {
				var keep []string
				for _, o := range world.Owners(cp, true) {
					if !(o.Kind == self.Kind && o.Name == self.Name && o.UID == self.UID) {
						keep = append(keep, fmt.Sprintf("%s/%s/%s/%v", o.Kind, o.Name, o.UID, o.Controller))
					}
				}
				a[world.OwnersAnnotation] = strings.Join(keep, ",")
				if len(keep) == 0 {
					delete(a, world.OwnersAnnotation)
				}
			}
		} else {
			l, _ := md["ownerReferences"].([]any)
			var nl []any
			for _, e := range l {
				em := e.(map[string]any)
				if em["uid"] == self.UID && em["name"] == self.Name {
					continue
				}
				nl = append(nl, e)
			}
			if len(nl) == 0 {
				delete(md, "ownerReferences")
			} else {
				md["ownerReferences"] = nl
			}
		}
		delete(md, "generation")
		return kmodel.Digest(cp)
	}
	a, b := norm(pre), norm(post)
	if a != b {
		return fmt.Sprintf("before %s after %s", a, b)
	}
	return ""
}

func kmodelDeepCopy(c map[string]any) map[string]any {
	b, _ := json.Marshal(c)
	var out map[string]any
	_ = json.Unmarshal(b, &out)
	return out
}

func body(sc Scenario) explore.Body {
	return func(ctx *explore.Ctx) (string, string) {
		s := build(sc)
		before := s.w.S.Clone()
		var pass *world.Pass
		var actions []string
		sch := vsched.Run(ctx, 3000, func() {
			vsched.GoNamed("pko", func() {
				pass = s.w.Reconcile(s.ctrl, osw.NN("own"), &world.Plan{Yield: true})
			})
			for e := 0; e < sc.Events; e++ {
				e := e
				vsched.GoNamed(fmt.Sprintf("tp%d", e+1), func() {
					a := tpMenu[ctx.Choose(len(tpMenu), 0, "third-party-action")]
					actions = append(actions, a)
					s.thirdParty(a)
				})
			}
		})
		var viol []string
		if sch.Panic != "" {
			viol = append(viol, "panic: "+sch.Panic)
		}
		if sch.Deadlock != "" {
			viol = append(viol, "deadlock: "+sch.Deadlock)
		}
		out := ""
		if pass != nil {
			if pass.Panic != "" {
				viol = append(viol, "panic in pass: "+pass.Panic)
			}
			viol = append(viol, s.judge(pass, before)...)
			var surv []string
			for _, k := range s.keys {
				if s.w.S.Objs[k] != nil {
					surv = append(surv, k.Name)
				}
			}
			out = fmt.Sprintf("survivors=%v err=%v", surv, pass.Err != nil)
			if len(viol) > 0 {
				ctx.Log = append(ctx.Log, pass.Trace()...)
				ctx.Logf("third-party actions: %v", actions)
			}
		}
		return strings.Join(viol, "\n"), out
	}
}

func scenarios(quick bool) []Scenario {
	var out []Scenario
	n := 2
	if !quick {
		n = 3
	}
	var rec func(prefix []string)
	rec = func(prefix []string) {
		if len(prefix) == n {
			for t := 0; t < n; t++ {
				// quick: the objects the third party does not touch start controlled or foreign
				if quick {
					skip := false
					for i, st := range prefix {
						if i != t && st != "controlled" && st != "foreign" {
							skip = true
						}
					}
					if skip {
						continue
					}
				}
				events := 2
				if prefix[t] == "foreign" || prefix[t] == "absent" {
					events = 1 // PKO never acts on them; one third-party action suffices to show that
				}
				for _, anno := range []bool{false, true} {
					out = append(out, Scenario{States: append([]string{}, prefix...), Target: t, Anno: anno, Events: events})
				}
			}
			return
		}
		for _, st := range objStates {
			rec(append(prefix, st))
		}
	}
	rec(nil)
	// unusual shapes of a controlled object
	for _, st := range extraStates {
		for _, anno := range []bool{false, true} {
			out = append(out, Scenario{States: []string{st, "controlled"}, Target: 0, Anno: anno, Events: 2})
			out = append(out, Scenario{States: []string{"foreign", st}, Target: 1, Anno: anno, Events: 1})
		}
	}
	// the owner deleted with foreground propagation: its own teardown is as careful as ever
	for _, anno := range []bool{false, true} {
		out = append(out, Scenario{States: []string{"controlled", "controlled"}, Target: 0, Anno: anno, Foreground: true, Events: 2})
		out = append(out, Scenario{States: []string{"controlled", "co-owned"}, Target: 1, Anno: anno, Foreground: true, Events: 1})
	}
	// orphan deletion
	for _, anno := range []bool{false, true} {
		out = append(out, Scenario{States: []string{"controlled", "co-owned"}, Target: 0, Anno: anno, Orphan: true, Events: 1})
		out = append(out, Scenario{States: []string{"controlled", "foreign"}, Target: 1, Anno: anno, Orphan: true, Events: 1})
	}
	return out
}

func identity(msg string) string {
	first := strings.SplitN(msg, "\n", 2)[0]
	for _, k := range []string{"carries no UID", "not the version this pass inspected", "does not control at that instant", "owned by others", "beyond removing", "orphan deletion", "panic", "deadlock"} {
		if strings.Contains(first, k) {
			return k
		}
	}
	return "other"
}

func run(o checks.Opts) *report.Report {
	rep := report.New("C05", "interleavings")
	bound := 2
	rep.Bounds["preemptions"] = bound
	scs := scenarios(o.Quick())
	rep.Bounds["scenarios"] = len(scs)
	rep.Rule = "for every initial ownership state of the phase's objects (controlled / co-owned / foreign / absent per object, plus controlled without the cache label and held by a foreign finalizer, and owned - as the only owner - but not controlled), target object, owner strategy (native ObjectSet, annotation ObjectSetPhase), orphan deletion and foreground deletion of the owner: every interleaving, with <= 2 preemptions at API-call granularity, of one real teardown pass with up to two third-party actions (re-own to another controller, delete+re-create unowned / owned by another, modify spec, strip owners); monitors on every request of the pass; distinct = (survivors, pass error)"
	for i, sc := range scs {
		if o.Shards > 1 && i%o.Shards != o.Shard {
			continue
		}
		c1, _, o1 := explore.RunOnce(body(sc), nil, nil)
		c2, _, o2 := explore.RunOnce(body(sc), nil, nil)
		if o1 != o2 || len(c1.Points) != len(c2.Points) {
			rep.Fault = "nondeterministic default execution in " + sc.String()
			return rep
		}
		e := &explore.Explorer{Bound: bound}
		st := e.Explore(body(sc))
		if len(st.Divergences) > 0 {
			rep.Fault = st.Divergences[0]
			return rep
		}
		rep.Executions += st.Executions
		rep.ImplTraces += st.Executions
		rep.States += st.Executions
		rep.Transitions += st.Points
		for k, v := range st.Outcomes {
			rep.Outcomes[fmt.Sprintf("anno=%v orphan=%v %s", sc.Anno, sc.Orphan, k)] += v
		}
		seen := map[string]bool{}
		for _, v := range st.Violations {
			id := identity(v.Message)
			if seen[id] {
				continue
			}
			seen[id] = true
			rep.AddViolation(report.Violation{Identity: id, Message: v.Message + "\nscenario: " + sc.String(), Choices: v.Choices, Labels: v.Labels, Params: map[string]any{"scenario": sc}, Trace: v.Log})
		}
		rep.NViolations += st.NViolations - int64(len(seen))
		if len(rep.Samples) < 2 {
			rep.Samples = append(rep.Samples, map[string]any{"scenario": sc, "default_outcome": o1, "choice_points": len(c1.Points)})
		}
	}
	return rep
}

func replay(v report.Violation) string {
	var sc Scenario
	if err := checks.Decode(v.Params["scenario"], &sc); err != nil {
		return err.Error()
	}
	c, msg, _ := explore.RunOnce(body(sc), v.Choices, v.Labels)
	for _, l := range c.Log {
		fmt.Println(l)
	}
	if c.Divergence != "" {
		return "DIVERGENCE (harness fault): " + c.Divergence
	}
	return msg
}

func init() {
	checks.Register(&checks.Check{
		ID:    "C05",
		Level: "model_checking",
		Assumptions: []string{
			"'cluster object' = a key listed in the phase being torn down; deletes of PKO's own API objects belong to C04/C08/C14",
			"scheduling points: every API request of the pass (before it is sent) and third-party thread start",
		},
		Subs: []*checks.Sub{
			{Name: "interleavings", Shards: func(string) int { return 16 }, Run: run, Replay: replay},
			{Name: "orphan-system", Shards: func(string) int { return 6 }, Run: runOrphan, Replay: replayOrphan, Parallel: true},
		},
	})
}
