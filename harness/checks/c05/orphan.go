package c05

import (
	"fmt"

	"package-operator.run/internal/packages/zzverif/checks"
	"package-operator.run/internal/packages/zzverif/kmodel"
	"package-operator.run/internal/packages/zzverif/osw"
	"package-operator.run/internal/packages/zzverif/report"
	"package-operator.run/internal/packages/zzverif/world"
)

// ---- orphan deletion of whole ObjectSets, local and delegated phases, all controller orders ----

type orphanScenario struct {
	N        int  `json:"phases"`
	Mask     uint `json:"delegated"`
	Restarts int  `json:"restarts"`
	// Archive: the user may archive the ObjectSet first; its teardown is held up by a foreign
	// finalizer on Hold, and the orphan deletion arrives at any point of it
	Archive bool   `json:"archiveFirst"`
	Hold    string `json:"hold"`
}

func (sc orphanScenario) name() string {
	return fmt.Sprintf("orphan-delete phases=%d delegated=%03b restarts=%d archiveFirst=%v hold=%s", sc.N, sc.Mask, sc.Restarts, sc.Archive, sc.Hold)
}

func orphanSystem(sc orphanScenario) *world.System {
	cfg := osw.B1(sc.N, sc.Mask)
	var objs []kmodel.Key
	for _, p := range cfg {
		for _, o := range p.Objects {
			objs = append(objs, o.Key())
		}
	}
	return &world.System{
		Name: sc.name(),
		Init: func() *world.World {
			w := osw.NewWorld()
			w.MustCreate(world.NewObjectSet("r1", osw.PhaseSpecs(cfg, 1), world.StdProbes()))
			if !osw.Settle(w, 40, true) {
				panic("c05: rollout did not settle")
			}
			w.Budget["user"] = 1
			w.Budget["restart"] = sc.Restarts
			if sc.Archive {
				w.Budget["archive"] = 1
				for _, k := range objs {
					if k.Name == sc.Hold {
						osw.AddFinalizer(w, k, osw.HoldFinalizer)
					}
				}
			}
			return w
		},
		Events: func(w *world.World) []world.Event {
			orphan := world.Event{Name: "user:delete-orphan:r1", Apply: func(w *world.World) *world.Pass {
				w.Budget["user"]--
				_ = w.S.Delete(osw.OSKey("r1"), kmodel.DeleteOpts{Propagation: "Orphan"})
				return nil
			}}
			if w.Budget["user"] > 0 && !sc.Archive {
				return []world.Event{orphan}
			}
			var pre []world.Event
			if w.Budget["user"] > 0 {
				if w.Budget["archive"] > 0 {
					// teardown by archival is explored from the moment the user archives
					return []world.Event{{Name: "user:archive:r1", Apply: func(w *world.World) *world.Pass {
						w.Budget["archive"]--
						osw.SetLifecycle(w, "r1", "Archived")
						return nil
					}}}
				}
				pre = append(pre, orphan)
				pre = append(pre, osw.ReleaseEvents(w)...)
			}
			evs := append(pre, osw.ReconcileEvents(w)...)
			evs = append(evs, osw.GCEvent(w)...)
			evs = append(evs, osw.CrashEvents(w)...)
			return evs
		},
		Check: func(before *world.World, ev world.Event, pass *world.Pass, after *world.World) []world.Finding {
			var out []world.Finding
			// the clause holds from the moment of the orphan deletion
			if o := before.S.Objs[osw.OSKey("r1")]; before.Budget["user"] > 0 || (o != nil && !kmodel.Terminating(o.Content)) {
				return nil
			}
			if pass != nil {
				for i, r := range pass.Reqs {
					if r.Verb == "delete" && r.IsWrite() && r.Err == nil && r.Pre != nil {
						out = append(out, world.Finding{Monitor: "orphan", Identity: "orphan deletion, but " + r.Key.Kind + " deleted", Message: fmt.Sprintf("the ObjectSet was deleted with orphan propagation, but request #%d %s of %s deletes an object", i, r, pass.Actor)})
					}
				}
			}
			// whoever does it (a PKO pass, or the garbage collector as a consequence of one): nothing
			// the ObjectSet rolled out may disappear or start terminating
			for _, k := range objs {
				b, a := before.S.Objs[k], after.S.Objs[k]
				if b != nil && (a == nil || (kmodel.Terminating(a.Content) && !kmodel.Terminating(b.Content))) {
					out = append(out, world.Finding{Monitor: "orphan", Identity: "orphan deletion, but a rolled-out object went away", Message: fmt.Sprintf("the ObjectSet was deleted with orphan propagation, but %s was deleted by event %s", k, ev.Name)})
				}
			}
			return out
		},
	}
}

func orphanScenarios(quick bool) []orphanScenario {
	out := []orphanScenario{{N: 2, Mask: 0b00, Restarts: 1}, {N: 2, Mask: 0b01, Restarts: 1}, {N: 2, Mask: 0b10, Restarts: 1}, {N: 2, Mask: 0b11, Restarts: 1}}
	// (archive-first systems use local phases only: an ObjectSetPhase the archival already deleted
	// finishes its own teardown, ordered before the orphan deletion - the clause is silent on it)
	out = append(out, orphanScenario{N: 2, Mask: 0b00, Archive: true, Hold: "b"}, orphanScenario{N: 2, Mask: 0b00, Archive: true, Hold: "g", Restarts: 1})
	if !quick {
		for m := uint(0); m < 8; m++ {
			out = append(out, orphanScenario{N: 3, Mask: m, Restarts: 2})
		}
		out = append(out, orphanScenario{N: 3, Mask: 0, Archive: true, Hold: "c", Restarts: 1}, orphanScenario{N: 3, Mask: 0, Archive: true, Hold: "b"}, orphanScenario{N: 3, Mask: 0, Archive: true, Hold: "g", Restarts: 2})
	}
	return out
}

func runOrphan(o checks.Opts) *report.Report {
	rep := report.New("C05", "orphan-system")
	rep.Rule = "explicit-state BFS to closure from the fully rolled-out state of an ObjectSet with every subset of phases delegated: the user deletes it with orphan propagation (in some systems after archiving it, at any point of an archival teardown that a foreign finalizer holds up), then reconcile(ObjectSet / each ObjectSetPhase) and the garbage collector (which strips owner references and then drops the orphan finalizer) in any order, with an operator crash before request i of a pass for every i; no PKO request deletes anything and no rolled-out object disappears or starts terminating"
	scs := orphanScenarios(o.Quick())
	rep.Bounds["systems"] = len(scs)
	for i, sc := range scs {
		if o.Shards > 1 && i%o.Shards != o.Shard {
			continue
		}
		sys := orphanSystem(sc)
		sys.MaxStates = 300000
		osw.RunBFS(rep, sys, map[string]any{"scenario": sc})
		rep.Samples = append(rep.Samples, map[string]any{"scenario": sc, "example_path": []string{"user:delete-orphan:r1", "reconcile:os:r1", "gc", "reconcile:phase:r1-p2"}})
	}
	return rep
}

func replayOrphan(v report.Violation) string {
	var sc orphanScenario
	if err := checks.Decode(v.Params["scenario"], &sc); err != nil {
		return err.Error()
	}
	return osw.ReplayBFS(orphanSystem(sc), v)
}
