// Package c06 checks property C06 (ObjectSet status never claims more than the reconcile pass
// observed) with monitors on every status write of the real ObjectSet controller, over
// histories of rollout, handover, probe regressions, pause, archival, deletion and crashes.
package c06

import (
	metav1 "k8s.io/apimachinery/pkg/apis/meta/v1"

	"fmt"
	corev1alpha1 "package-operator.run/apis/core/v1alpha1"
	"sort"
	"strings"

	"package-operator.run/internal/packages/zzverif/checks"
	"package-operator.run/internal/packages/zzverif/checks/twin"
	"package-operator.run/internal/packages/zzverif/kmodel"
	"package-operator.run/internal/packages/zzverif/osw"
	"package-operator.run/internal/packages/zzverif/report"
	"package-operator.run/internal/packages/zzverif/world"
)

func condTrue(c map[string]any, typ string) bool {
	st, _, _, ok := world.Condition(c, typ)
	return ok && st == "True"
}

// Check is the C06 transition monitor.
func Check(before *world.World, ev world.Event, pass *world.Pass, after *world.World) []world.Finding {
	if pass == nil {
		return nil
	}
	if pass.Ctrl == world.CtrlPhase {
		return checkPhase(before, pass)
	}
	if pass.Ctrl != world.CtrlObjectSet {
		return nil
	}
	osKey := osw.OSKey(pass.Key.Name)
	var out []world.Finding
	bad := func(id, f string, a ...any) {
		out = append(out, world.Finding{Monitor: "status-claims", Identity: id, Message: fmt.Sprintf(f, a...)})
	}
	v := osw.View{Before: before.S, Pass: pass}
	pre := before.S.Objs[osKey]
	// (judged on what the pass read: a cache that is one write behind may not show it yet)
	readArchived := pre != nil && condTrue(pre.Content, "Archived")
	if len(pass.Reqs) > 0 && pass.Reqs[0].Verb == "get" && pass.Reqs[0].Key == osKey && pass.Reqs[0].Resp != nil {
		readArchived = condTrue(pass.Reqs[0].Resp, "Archived")
	}
	if readArchived {
		// archival completed: not reconciled again
		for i, r := range pass.Reqs {
			if i == 0 && r.Verb == "get" && r.Key == osKey {
				continue
			}
			bad("reconciled-after-archived", "ObjectSet %s shows Archived=True but its controller still sent %s", osKey.Name, r)
		}
		return out
	}
	// the ObjectSet as read by this pass
	var read map[string]any
	for _, r := range pass.Reqs {
		if r.Verb == "get" && r.Key == osKey && r.Err == nil {
			read = r.Resp
			break
		}
	}
	for i, r := range pass.Reqs {
		if r.Key != osKey || r.Sub != "status" || !r.IsWrite() || r.Err != nil || r.Post == nil {
			continue
		}
		post, prev := r.Post, r.Pre
		id := world.IdentOf(osKey, post)
		phases := osw.SpecPhasesIn(before.S, post, osKey.Namespace) // incl. the content of referenced ObjectSlices
		// what the pass saw
		seenControlled := map[string]bool{}
		allPresentPassing := true
		why := ""
		allSpecControlled := true
		for _, p := range phases {
			if p.Class != "" {
				resp, seen := v.LastResponse(osw.PhaseKey(osKey.Name, p.Name), i)
				if !seen || resp == nil {
					allPresentPassing, why = false, fmt.Sprintf("phase object of %q not read present", p.Name)
					allSpecControlled = false
					continue
				}
				st, _, og, ok := world.Condition(resp, "Available")
				if !(ok && st == "True" && og == world.Generation(resp)) {
					allPresentPassing, why = false, fmt.Sprintf("phase %q not Available for its current generation", p.Name)
				}
				reported := map[string]bool{}
				for _, s := range osw.ControllerOfList(resp) {
					seenControlled[s] = true
					reported[s] = true
				}
				for _, ok := range p.Objects {
					if !reported[osw.KeyString(ok)] {
						allSpecControlled = false
					}
				}
				continue
			}
			for _, ok := range p.Objects {
				resp, seen := v.LastResponse(ok, i)
				if !seen || resp == nil {
					allPresentPassing, why = false, fmt.Sprintf("%s not found present in this pass", ok)
					allSpecControlled = false
					continue
				}
				if !osw.ProbeFor(post)(resp) {
					allPresentPassing, why = false, fmt.Sprintf("%s fails its probes in what the pass read", ok)
				}
				if world.ControlledBy(resp, false, id) {
					seenControlled[osw.KeyString(ok)] = true
				} else {
					allSpecControlled = false
				}
			}
		}
		if st, _, og, ok := world.Condition(post, "Available"); ok && st == "True" {
			if read != nil && og != world.Generation(read) {
				bad("available-for-other-generation", "status write #%d sets Available=True for generation %d but the pass read generation %d", i, og, world.Generation(read))
			}
			if !allPresentPassing {
				bad("available-without-evidence", "status write #%d sets Available=True although %s", i, why)
			}
			got := osw.ControllerOfList(post)
			var want []string
			for s := range seenControlled {
				want = append(want, s)
			}
			sort.Strings(want)
			if strings.Join(got, ",") != strings.Join(want, ",") {
				bad("controllerOf-mismatch", "status write #%d with Available=True reports controllerOf=%v but the pass saw %v under the ObjectSet's control", i, got, want)
			}
		} else if osw.Lifecycle(post) != "Archived" && !kmodel.Terminating(post) {
			// completeness is demanded only with Available=True, but no write of a rollout pass may
			// list an object which this very pass saw under somebody else's control ("every entry
			// ... was seen in that pass to be controlled by the ObjectSet"); entries the pass did
			// not look at (error paths that carry the previous list) are not judged
			for _, p := range phases {
				if p.Class != "" {
					continue
				}
				for _, ok := range p.Objects {
					resp, seen := v.LastResponse(ok, i)
					if !seen || resp == nil || world.ControlledBy(resp, false, id) {
						continue
					}
					for _, e := range osw.ControllerOfList(post) {
						if e == osw.KeyString(ok) {
							bad("controllerOf-lists-object-seen-uncontrolled", "status write #%d lists %s in controllerOf although this pass read it under the control of %v", i, e, world.Controllers(resp, false))
						}
					}
				}
			}
		}
		newSucceeded := condTrue(post, "Succeeded") && (prev == nil || !condTrue(prev, "Succeeded"))
		if newSucceeded {
			if !condTrue(post, "Available") || condTrue(post, "InTransition") {
				bad("succeeded-without-available", "status write #%d newly sets Succeeded while Available=%v InTransition=%v", i, condTrue(post, "Available"), condTrue(post, "InTransition"))
			}
		}
		if prev != nil && condTrue(prev, "Succeeded") && !condTrue(post, "Succeeded") {
			bad("succeeded-withdrawn", "status write #%d withdraws Succeeded", i)
		}
		if prev != nil && condTrue(prev, "InTransition") && !condTrue(post, "InTransition") && osw.Lifecycle(post) != "Archived" {
			if !allSpecControlled {
				bad("intransition-cleared-early", "status write #%d clears InTransition although not every object in spec was seen under the ObjectSet's control (seen: %v)", i, keysOf(seenControlled))
			}
		}
		if condTrue(post, "Archived") {
			if _, _, _, ok := world.Condition(post, "Available"); ok {
				bad("archived-with-available", "status write #%d reports Archived=True and still carries an Available condition", i)
			}
			if l := osw.ControllerOfList(post); len(l) > 0 {
				bad("archived-with-controllerOf", "status write #%d reports Archived=True with controllerOf=%v", i, l)
			}
		}
	}
	return out
}

// checkPhase judges the status writes of the ObjectSetPhase controller the same way: the phase's
// Available=True is what the ObjectSet relies on for a delegated phase.
func checkPhase(before *world.World, pass *world.Pass) []world.Finding {
	pk := world.PKOKey("ObjectSetPhase", pass.Key.Namespace, pass.Key.Name)
	var out []world.Finding
	bad := func(id, f string, a ...any) {
		out = append(out, world.Finding{Monitor: "status-claims", Identity: id, Message: fmt.Sprintf(f, a...)})
	}
	v := osw.View{Before: before.S, Pass: pass}
	var read map[string]any
	for _, r := range pass.Reqs {
		if r.Verb == "get" && r.Key == pk && r.Err == nil {
			read = r.Resp
			break
		}
	}
	if read == nil || kmodel.Terminating(read) {
		// a phase being torn down carries its last status along; the ObjectSet does not consult it
		// any more (the statement binds the ObjectSet's own claims), so it is not judged
		return nil
	}
	for i, r := range pass.Reqs {
		if r.Key != pk || r.Sub != "status" || !r.IsWrite() || r.Err != nil || r.Post == nil {
			continue
		}
		post := r.Post
		st, _, og, ok := world.Condition(post, "Available")
		if !ok || st != "True" {
			continue
		}
		id := world.IdentOf(pk, post)
		if read != nil && og != world.Generation(read) {
			bad("phase-available-for-other-generation", "ObjectSetPhase status write #%d sets Available=True for generation %d but the pass read generation %d", i, og, world.Generation(read))
		}
		seen := map[string]bool{}
		for _, ok := range osw.PhaseObjects(post, pk.Namespace) {
			resp, was := v.LastResponse(ok, i)
			if !was || resp == nil {
				bad("phase-available-without-evidence", "ObjectSetPhase %s status write #%d sets Available=True although %s was not found present in this pass", pk.Name, i, ok)
				continue
			}
			if !osw.ProbeFor(post)(resp) {
				bad("phase-available-without-evidence", "ObjectSetPhase %s status write #%d sets Available=True although %s fails its probes in what the pass read (status class %s)", pk.Name, i, ok, osw.StatusClass(resp))
			}
			if world.ControlledBy(resp, false, id) {
				seen[osw.KeyString(ok)] = true
			}
		}
		got := osw.ControllerOfList(post)
		want := keysOf(seen)
		if strings.Join(got, ",") != strings.Join(want, ",") {
			bad("phase-controllerOf-mismatch", "ObjectSetPhase %s status write #%d with Available=True reports controllerOf=%v but the pass saw %v under its control", pk.Name, i, got, want)
		}
	}
	return out
}

func keysOf(m map[string]bool) []string {
	var k []string
	for x := range m {
		k = append(k, x)
	}
	sort.Strings(k)
	return k
}

// ---- systems ----

type scenario struct {
	Kind     string   `json:"kind"` // single | chain | takeover | sliced | sliced-tail
	N        int      `json:"phases"`
	Mask     uint     `json:"delegated"`
	Classes  []string `json:"classes"`
	Pauses   int      `json:"pauses"`
	Archive  bool     `json:"archive"`
	Delete   bool     `json:"delete"`
	Restarts int      `json:"restarts"`
	// Conflicts: budget of foreign writes landing just before a write of a pass
	Conflicts int `json:"conflicts"`
	// LongLived: all passes of a history run in one operator process (states rebuilt by path replay)
	LongLived bool `json:"longLived"`
	// Unarchives: budget of the user setting the archived ObjectSet back to Active
	Unarchives int `json:"unarchives"`
	// StaleOwn: budget of passes whose cached read of the ObjectSet itself is one write behind
	// (the informer has not delivered the controller's own previous status update yet)
	StaleOwn int `json:"staleOwn"`
}

func (sc scenario) name() string {
	return fmt.Sprintf("%s phases=%d delegated=%03b statuses=%d pauses=%d archive=%v delete=%v restarts=%d conflicts=%d longLived=%v staleOwn=%d", sc.Kind, sc.N, sc.Mask, len(sc.Classes), sc.Pauses, sc.Archive, sc.Delete, sc.Restarts, sc.Conflicts, sc.LongLived, sc.StaleOwn)
}

func userEvents(w *world.World, sc scenario, os string) []world.Event {
	var evs []world.Event
	o := w.S.Objs[osw.OSKey(os)]
	if o == nil || kmodel.Terminating(o.Content) {
		return nil
	}
	evs = append(evs, osw.PauseEvents(w, os)...)
	if sc.Archive && w.Budget["archive"] > 0 && osw.Lifecycle(o.Content) != "Archived" {
		evs = append(evs, world.Event{Name: "user:archive:" + os, Apply: func(w *world.World) *world.Pass {
			w.Budget["archive"]--
			osw.SetLifecycle(w, os, "Archived")
			return nil
		}})
	}
	if sc.Archive && w.Budget["unarchive"] > 0 && osw.Lifecycle(o.Content) == "Archived" {
		// the API allows setting an archived ObjectSet back to Active
		evs = append(evs, world.Event{Name: "user:unarchive:" + os, Apply: func(w *world.World) *world.Pass {
			w.Budget["unarchive"]--
			osw.SetLifecycle(w, os, "Active")
			return nil
		}})
	}
	if sc.Delete && w.Budget["delete"] > 0 {
		evs = append(evs, world.Event{Name: "user:delete:" + os, Apply: func(w *world.World) *world.Pass {
			w.Budget["delete"]--
			_ = w.S.Delete(osw.OSKey(os), kmodel.DeleteOpts{})
			return nil
		}})
	}
	return evs
}

func system(sc scenario) *world.System {
	return &world.System{
		Name:       sc.name(),
		Persistent: sc.LongLived,
		Init: func() *world.World {
			w := osw.NewWorld()
			if sc.LongLived {
				w.LongLived()
			}
			if sc.Kind == "single" {
				w.MustCreate(world.NewObjectSet("r1", osw.PhaseSpecs(osw.B1(sc.N, sc.Mask), 1), world.StdProbes()))
			} else if sc.Kind == "sliced" || sc.Kind == "sliced-tail" {
				// the phases' objects live in ObjectSlices; a lagging cache may hide a slice from a pass
				// (sliced-tail: the first phase keeps its objects inline, only the later ones are sliced)
				ps := osw.PhaseSpecs(osw.B1(sc.N, sc.Mask), 1)
				for i := range ps {
					if sc.Kind == "sliced-tail" && i == 0 {
						continue
					}
					name := fmt.Sprintf("r1-slice-%d", i)
					w.MustCreate(&corev1alpha1.ObjectSlice{ObjectMeta: metav1.ObjectMeta{Name: name, Namespace: world.NS}, Objects: ps[i].Objects})
					ps[i].Slices, ps[i].Objects = []string{name}, nil
				}
				w.MustCreate(world.NewObjectSet("r1", ps, world.StdProbes()))
				w.Budget["stale"] = 1
			} else if sc.Kind == "takeover" {
				// r2 contains everything r1 has: after the handover r1 controls nothing, so its
				// archival teardown completes in the very first pass
				w.MustCreate(world.NewObjectSet("r1", osw.PhaseSpecs([]osw.PhaseCfg{{Name: "p1", Objects: []osw.ObjRef{{Kind: "Widget", Name: "a"}}}}, 1), world.StdProbes()))
				w.MustCreate(world.NewObjectSet("r2", osw.PhaseSpecs([]osw.PhaseCfg{{Name: "p1", Objects: []osw.ObjRef{{Kind: "Widget", Name: "a"}, {Kind: "Widget", Name: "c"}}}}, 2), world.StdProbes(), "r1"))
			} else {
				// handover chain r1{a,b} -> r2{a,c}
				w.MustCreate(world.NewObjectSet("r1", osw.PhaseSpecs([]osw.PhaseCfg{{Name: "p1", Objects: []osw.ObjRef{{Kind: "Widget", Name: "a"}, {Kind: "Widget", Name: "b"}}}}, 1), world.StdProbes()))
				w.MustCreate(world.NewObjectSet("r2", osw.PhaseSpecs([]osw.PhaseCfg{{Name: "p1", Objects: []osw.ObjRef{{Kind: "Widget", Name: "a"}, {Kind: "Widget", Name: "c"}}}}, 2), world.StdProbes(), "r1"))
			}
			w.Budget["user-pause"] = sc.Pauses
			w.Budget["archive"] = 1
			w.Budget["unarchive"] = sc.Unarchives
			w.Budget["delete"] = 1
			w.Budget["restart"] = sc.Restarts
			w.Budget["conflict"] = sc.Conflicts
			w.Budget["stale-own"] = sc.StaleOwn
			return w
		},
		Events: func(w *world.World) []world.Event {
			evs := append(osw.ReconcileEvents(w), osw.WorkloadEvents(w, sc.Classes)...)
			evs = append(evs, userEvents(w, sc, "r1")...)
			evs = append(evs, osw.GCEvent(w)...)
			evs = append(evs, osw.CrashEvents(w)...)
			evs = append(evs, osw.ConflictEventsAll(w)...)
			evs = append(evs, osw.StaleOwnEvents(w)...)
			if w.Budget["stale"] > 0 {
				for _, k := range w.S.SortedKeys() {
					if k.Kind == "ObjectSlice" {
						k := k
						evs = append(evs, world.Event{Name: "reconcile-stale:os:r1 (cache misses slice " + k.Name + ")", Apply: func(w *world.World) *world.Pass {
							w.Budget["stale"]--
							return w.Reconcile(world.CtrlObjectSet, osw.NN("r1"), &world.Plan{HideInList: []kmodel.Key{k}})
						}})
					}
				}
			}
			return evs
		},
		Check: Check,
	}
}

var (
	two   = []string{"ready", "notready"}
	three = []string{"ready", "notready", "stale"}
)

func scenarios(quick bool) []scenario {
	out := []scenario{
		{Kind: "single", N: 2, Mask: 0, Classes: three, Pauses: 1, Archive: true},
		{Kind: "single", N: 2, Mask: 0b01, Classes: two, Pauses: 1, Archive: true},
		{Kind: "single", N: 2, Mask: 0b10, Classes: two, Delete: true, Restarts: 1},
		{Kind: "chain", N: 1, Classes: two, Archive: true},
		{Kind: "chain", N: 1, Classes: two, Pauses: 1, Delete: true},
		// archival interrupted by a crash between any two calls (e.g. finalizer removed, status not yet written)
		{Kind: "single", N: 2, Mask: 0, Classes: []string{"ready"}, Archive: true, Restarts: 1, Conflicts: 1},
		{Kind: "single", N: 2, Mask: 0, Classes: []string{"ready"}, Archive: true, Unarchives: 1},
		{Kind: "takeover", N: 1, Classes: []string{"ready"}, Archive: true, Restarts: 1, Conflicts: 1},
		{Kind: "sliced", N: 2, Mask: 0, Classes: two, Archive: true},
		{Kind: "sliced-tail", N: 2, Mask: 0, Classes: two, Archive: true},
		{Kind: "chain", N: 1, Classes: []string{"ready"}, Archive: true, LongLived: true},
		{Kind: "single", N: 2, Mask: 0b10, Classes: []string{"ready"}, Pauses: 1, Delete: true, LongLived: true},
		// stale0: the workload controller reports an explicit observedGeneration 0
		{Kind: "single", N: 2, Mask: 0b10, Classes: []string{"ready", "stale0"}},
		{Kind: "single", N: 1, Mask: 0, Classes: two, StaleOwn: 1},
	}
	if !quick {
		out = append(out,
			scenario{Kind: "single", N: 2, Mask: 0b11, Classes: two, Pauses: 2, Archive: true, Restarts: 1},
			scenario{Kind: "single", N: 3, Mask: 0, Classes: two, Pauses: 1, Archive: true},
			scenario{Kind: "single", N: 3, Mask: 0b010, Classes: two, Archive: true, Delete: true},
			scenario{Kind: "single", N: 2, Mask: 0, Classes: osw.StatusNames, Pauses: 2, Archive: true, Delete: true, Restarts: 1},
			scenario{Kind: "chain", N: 1, Classes: three, Pauses: 1, Archive: true, Delete: true, Restarts: 1},
		)
	}
	return out
}

func run(o checks.Opts) *report.Report {
	rep := report.New("C06", "bfs")
	rep.Rule = "explicit-state BFS: reconcile(ObjectSets, ObjectSetPhases), workload status changes, user pause/unpause/archive/un-archive/delete, garbage collector, operator crash before request i, a foreign write landing before write i of a pass (update conflict), (budgeted) a pass whose cached read of the ObjectSet itself is one write behind; two systems run all passes of a history in one long-lived operator process; systems: a sliced ObjectSet whose lagging cache may hide a slice from a pass, single ObjectSet (2-3 phases, local/delegated) a two-revision handover chain r1{a,b}->r2{a,c}, and a complete takeover r1{a}->r2{a,c} (r1's archival teardown finishes in its first pass) with crashes; monitor on every status write of the ObjectSet controller"
	scs := scenarios(o.Quick())
	rep.Bounds["systems"] = len(scs)
	for i, sc := range scs {
		if o.Shards > 1 && i%o.Shards != o.Shard {
			continue
		}
		sys := system(sc)
		sys.MaxStates = 150000
		if !o.Quick() {
			sys.MaxStates = 600000
		}
		osw.RunBFS(rep, sys, map[string]any{"scenario": sc})
		rep.Samples = append(rep.Samples, map[string]any{"scenario": sc, "example_path": []string{"reconcile:os:r1", "workload:Widget/a=ready", "reconcile:os:r1", "user:archive:r1", "reconcile:os:r1"}})
	}
	return rep
}

func replay(v report.Violation) string {
	var sc scenario
	if err := checks.Decode(v.Params["scenario"], &sc); err != nil {
		return err.Error()
	}
	return osw.ReplayBFS(system(sc), v)
}

// twinScenarios: status reporting of the cluster-scoped kinds in lockstep with the namespaced ones.
func twinScenarios(quick bool) []twin.Scenario {
	three := []string{"ready", "notready", "stale"}
	out := []twin.Scenario{
		{Kind: "chain", N: 2, Mask: 0, Classes: three, Users: 1},
		{Kind: "chain", N: 2, Mask: 0b01, Classes: []string{"ready", "notready"}, Users: 1},
	}
	if !quick {
		out = append(out, twin.Scenario{Kind: "chain", N: 3, Mask: 0b010, Classes: three, Users: 1}, twin.Scenario{Kind: "deployment", Classes: three, Edits: 1, Limit: -1})
	}
	return out
}

func init() {
	checks.Register(&checks.Check{
		ID:    "C06",
		Level: "model_checking",
		Assumptions: []string{
			"controllerOf is judged for exactness on status writes that carry Available=True; on other writes of a rollout pass only entries that the same pass read under somebody else's control are rejected (reading of the statement, DESIGN.md C06)",
			"successDelaySeconds = 0, so Succeeded does not depend on the wall clock",
		},
		Subs: []*checks.Sub{{Name: "bfs", Shards: func(t string) int {
			if t == "thorough" {
				return 19
			}
			return 14
		}, Run: run, Replay: replay, Parallel: true},
			twin.Sub("C06", twinScenarios)},
	})
}
