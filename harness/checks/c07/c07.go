// Package c07 checks property C07 (one ObjectSet per template; unique, increasing revision
// numbers; name clashes never resolved by reuse) over the real ObjectDeployment and ObjectSet
// controllers with template edit sequences, API faults at every call of the deployment's
// pass, a lagging list cache and pre-seeded name clashes.
package c07

import (
	"fmt"
	"sort"
	"strings"

	metav1 "k8s.io/apimachinery/pkg/apis/meta/v1"

	corev1alpha1 "package-operator.run/apis/core/v1alpha1"
	"package-operator.run/internal/packages/zzverif/checks"
	"package-operator.run/internal/packages/zzverif/checks/twin"
	"package-operator.run/internal/packages/zzverif/kmodel"
	"package-operator.run/internal/packages/zzverif/osw"
	"package-operator.run/internal/packages/zzverif/report"
	"package-operator.run/internal/packages/zzverif/world"
)

const hashAnno = "package-operator.run/hash"

var templates = map[string]corev1alpha1.ObjectSetTemplateSpec{
	"T1": world.TemplateSpec(osw.PhaseSpecs(osw.OnePhase("a", "b"), 1), nil),
	"T2": world.TemplateSpec(osw.PhaseSpecs(osw.OnePhase("a", "c"), 1), nil),
	"E":  {},
}

func podPaused(c map[string]any) bool {
	v, _ := world.Nested(c, "spec", "paused")
	b, _ := v.(bool)
	return b
}

func hasPhases(odc map[string]any) bool {
	v, _ := world.Nested(odc, "spec", "template", "spec", "phases")
	l, _ := v.([]any)
	return len(l) > 0
}

func collisionCount(c map[string]any) int64 {
	v, _ := world.Nested(c, "status", "collisionCount")
	n, _ := v.(int64)
	return n
}

func previousNames(c map[string]any) []string {
	v, _ := world.Nested(c, "spec", "previous")
	l, _ := v.([]any)
	var out []string
	for _, e := range l {
		m, _ := e.(map[string]any)
		n, _ := m["name"].(string)
		out = append(out, n)
	}
	sort.Strings(out)
	return out
}

// Check is the C07 transition monitor (ObjectDeployment passes only).
func Check(before *world.World, ev world.Event, pass *world.Pass, after *world.World) []world.Finding {
	if pass == nil || pass.Ctrl != world.CtrlObjectDeployment {
		return nil
	}
	var out []world.Finding
	bad := func(id, f string, a ...any) {
		out = append(out, world.Finding{Monitor: "one-objectset-per-template", Identity: id, Message: fmt.Sprintf(f, a...)})
	}
	odKey := osw.ODKey(pass.Key.Name)
	var od map[string]any
	var listed []map[string]any // what the deployment's List answered
	sawList := false
	for _, r := range pass.Reqs {
		if r.Verb == "get" && r.Key == odKey && r.Err == nil && od == nil {
			od = r.Resp
		}
	}
	if od == nil {
		return nil
	}
	hidden := map[string]bool{}
	if strings.HasPrefix(ev.Name, "reconcile-stale") {
		n := strings.TrimSuffix(strings.TrimPrefix(ev.Name, "reconcile-stale:od:d (List misses "), ")")
		hidden[n] = true
	}
	for _, r := range pass.Reqs {
		if r.Verb == "list" && r.Key.Kind == "ObjectSet" && r.Err == nil {
			sawList = true
		}
	}
	for _, k := range osw.ObjectSetsOf(before.S, pass.Key.Name) {
		if !hidden[k.Name] {
			listed = append(listed, before.S.Objs[k].Content)
		}
	}
	if !sawList {
		return nil // the pass died before listing (fault)
	}
	tmpl := osw.TemplateOf(od)
	allReported := true
	var names []string
	var newest map[string]any
	for _, c := range listed {
		if osw.StatusRevision(c) == 0 {
			allReported = false
		}
		names = append(names, kmodel.Labels(c)["__name"]) // placeholder, replaced below
		if newest == nil || osw.StatusRevision(c) >= osw.StatusRevision(newest) {
			newest = c
		}
	}
	names = names[:0]
	for _, c := range listed {
		m, _ := c["metadata"].(map[string]any)
		n, _ := m["name"].(string)
		names = append(names, n)
	}
	sort.Strings(names)
	// an archived newest ObjectSet does not realise the template (second sentence of the statement)
	matched := newest != nil && osw.Lifecycle(newest) != "Archived" && osw.TemplateOf(newest) == tmpl
	pre := !podPaused(od) && allReported && hasPhases(od)

	var creates, clashes []*kmodel.Request
	for _, r := range pass.Reqs {
		if r.Verb == "create" && r.Key.Kind == "ObjectSet" && !r.DryRun {
			if r.Changed() || (r.Err == nil && r.Post != nil) {
				creates = append(creates, r)
			} else if r.Err != nil && strings.Contains(r.String(), "AlreadyExists") {
				clashes = append(clashes, r)
			}
		}
	}
	for _, r := range creates {
		if podPaused(od) {
			bad("create-while-paused", "%s creates a revision although the deployment is paused", r)
		}
		if !allReported {
			bad("create-before-revisions-reported", "%s creates a revision while an existing ObjectSet has not reported its revision", r)
		}
		if !hasPhases(od) {
			bad("create-for-empty-template", "%s creates a revision for a template without phases", r)
		}
		if osw.TemplateOf(r.Post) != tmpl {
			bad("created-spec-differs", "%s: the created ObjectSet's spec differs from the template", r)
		}
		if got := previousNames(r.Post); strings.Join(got, ",") != strings.Join(names, ",") {
			bad("previous-incomplete", "%s: previous=%v but the deployment's existing ObjectSets are %v", r, got, names)
		}
		// (after a genuine name clash bumped the collision counter the hash of an unchanged template
		// changes too; the statement does not speak about that case)
		if matched && collisionCount(od) == 0 {
			bad("create-although-matched", "%s creates a revision although the newest ObjectSet already matches the template", r)
		}
	}
	if len(creates) > 1 {
		bad("more-than-one-create", "%d ObjectSets created in one pass", len(creates))
	}
	completed := pass.Err == nil && !pass.Crashed
	if completed && pre && !matched && len(creates) == 0 && len(clashes) == 0 {
		bad("no-create-for-unmatched-template", "template not matched by the newest ObjectSet, deployment unpaused, all revisions reported, but no ObjectSet was created (existing: %v)", names)
	}
	// name clashes
	for _, r := range clashes {
		conf := r.Pre // content of the clashing object at the time of the request
		if conf == nil {
			continue
		}
		var latest int64
		if newest != nil {
			latest = osw.StatusRevision(newest)
		}
		odID := world.IdentOf(odKey, od)
		legit := osw.Lifecycle(conf) != "Archived" && world.ControlledBy(conf, false, odID) && osw.TemplateOf(conf) == tmpl && osw.StatusRevision(conf) >= latest
		// the deployment's own ObjectSet for this very template, created after everything the pass
		// listed (the create-not-yet-visible window): not a name clash at all - counting it as one
		// makes the next pass create a second ObjectSet for the same template
		if own := osw.Lifecycle(conf) != "Archived" && world.ControlledBy(conf, false, odID) && osw.TemplateOf(conf) == tmpl; own && completed {
			newer := true
			cn := uidNum(conf)
			for _, c := range listed {
				if uidNum(c) > cn {
					newer = false
				}
			}
			if odAfter := after.S.Objs[odKey]; newer && odAfter != nil && collisionCount(odAfter.Content) > collisionCount(od) {
				bad("spurious-collision-bump", "create of %s met the deployment's own ObjectSet for this template, created after every ObjectSet the pass listed (slow cache), but the collision counter was bumped from %d to %d", r.Key.Name, collisionCount(od), collisionCount(odAfter.Content))
			}
		}
		if legit {
			continue
		}
		if completed {
			odAfter := after.S.Objs[odKey]
			if odAfter == nil || collisionCount(odAfter.Content) <= collisionCount(od) {
				bad("clash-resolved-by-reuse", "create of %s clashed with an ObjectSet that is archived / differs / is not this deployment's (lifecycle=%s controlled=%v specEqual=%v revision=%d latest=%d) but the collision counter was not bumped", r.Key.Name, osw.Lifecycle(conf), world.ControlledBy(conf, false, odID), osw.TemplateOf(conf) == tmpl, osw.StatusRevision(conf), latest)
			}
		}
	}
	return out
}

func uidNum(c map[string]any) int64 {
	var n int64
	fmt.Sscanf(kmodel.UID(c), "uid-%d", &n)
	return n
}

func markFresh(w *world.World, p *world.Pass) {
	for _, r := range p.Reqs {
		if r.Verb == "create" && r.Key.Kind == "ObjectSet" && !r.DryRun && r.Post != nil && r.Pre == nil {
			w.Budget["fresh:"+r.Key.Name] = 1
		}
	}
}

func newestCreated(s *kmodel.Store, od string) (kmodel.Key, bool) {
	var best kmodel.Key
	var bestN int64 = -1
	for _, k := range osw.ObjectSetsOf(s, od) {
		var n int64
		fmt.Sscanf(kmodel.UID(s.Objs[k].Content), "uid-%d", &n)
		if n > bestN {
			best, bestN = k, n
		}
	}
	return best, bestN >= 0
}

// Invariant: revisions unique and greater than those of the previous list.
func Invariant(w *world.World) []world.Finding {
	var out []world.Finding
	// "the collision counter is bumped and a fresh ObjectSet is created": a bump changes the name,
	// so each bump gets past one occupied name. These systems hold a handful of ObjectSets; a
	// counter that has left them far behind is bumping without ever arriving at a free name.
	if od := w.S.Objs[osw.ODKey(odName)]; od != nil {
		if n := collisionCount(od.Content); n > int64(len(osw.ObjectSetsOf(w.S, odName))+4) {
			out = append(out, world.Finding{Monitor: "revisions", Identity: "collision-counter-runs-away", Message: fmt.Sprintf("the deployment's collision counter is at %d with %d ObjectSets in existence: name clashes keep being answered with a bump that never leads to a fresh ObjectSet", n, len(osw.ObjectSetsOf(w.S, odName)))})
		}
	}
	seen := map[int64]string{}
	for _, k := range osw.ObjectSetsOf(w.S, odName) {
		c := w.S.Objs[k].Content
		rev := osw.StatusRevision(c)
		if rev == 0 {
			continue
		}
		if o, dup := seen[rev]; dup {
			out = append(out, world.Finding{Monitor: "revisions", Identity: "duplicate-revision", Message: fmt.Sprintf("ObjectSets %s and %s both report revision %d", o, k.Name, rev)})
		}
		seen[rev] = k.Name
		for _, pn := range previousNames(c) {
			p := w.S.Objs[osw.OSKey(pn)]
			if p == nil {
				continue
			}
			// a pruned revision's name may be taken again by a later ObjectSet (rollback to its
			// template): the entry then names an object created after this one, which it never was
			// a successor of
			var pn64, kn64 int64
			fmt.Sscanf(kmodel.UID(p.Content), "uid-%d", &pn64)
			fmt.Sscanf(kmodel.UID(c), "uid-%d", &kn64)
			if pn64 > kn64 {
				continue
			}
			if pr := osw.StatusRevision(p.Content); pr != 0 && pr >= rev {
				out = append(out, world.Finding{Monitor: "revisions", Identity: "revision-not-increasing", Message: fmt.Sprintf("ObjectSet %s has revision %d but its previous %s has %d", k.Name, rev, pn, pr)})
			}
		}
	}
	return out
}

type scenario struct {
	Edits  int `json:"edits"`
	Faults int `json:"faults"`
	// Conflicts: budget of foreign writes landing inside a deployment pass
	Conflicts int    `json:"conflicts"`
	Stale     int    `json:"staleLists"`
	Clash     string `json:"clash"` // "", archived, different-spec, foreign
	Pause     int    `json:"pauses"`
	// LongName: the deployment's name is 63 characters long (the longest that works at all: it is
	// stamped as a label value on its ObjectSets)
	LongName bool `json:"longName"`
	// OSDisturb: the revisions themselves are disturbed - a fault may hit any request of an
	// ObjectSet's own pass (fault budget), and a third party may delete an ObjectSet (once), which
	// then stays terminating behind its finalizer until its controller is done with it
	OSDisturb bool `json:"objectSetsDisturbed"`
}

func (sc scenario) name() string {
	return fmt.Sprintf("deployment edits=%d faults=%d stale=%d clash=%s pauses=%d longName=%v objectSetsDisturbed=%v", sc.Edits, sc.Faults, sc.Stale, sc.Clash, sc.Pause, sc.LongName, sc.OSDisturb)
}

func currentTemplate(w *world.World) string {
	od := w.S.Objs[osw.ODKey(odName)]
	for n, t := range templates {
		probe := osw.NewOD(odName, t, nil)
		c, _, _ := kmodel.ToContent(probe, world.Scheme)
		if osw.TemplateOf(c) == osw.TemplateOf(od.Content) {
			return n
		}
	}
	return "?"
}

// odName is the name of the ObjectDeployment of the system being explored (set by run / replay
// for the duration of one system; systems of one process run one after the other).
var odName = "d"

func (sc scenario) setName() {
	odName = "d"
	if sc.LongName {
		odName = "d" + strings.Repeat("x", 62)
	}
}

func system(sc scenario) *world.System {
	sc.setName()
	return &world.System{
		Name: sc.name(),
		Init: func() *world.World {
			w := osw.NewWorld()
			w.MustCreate(osw.NewOD(odName, templates["T1"], nil))
			w.MustCreate(world.NewObjectSet("x", nil, nil))
			if sc.Clash != "" {
				// find the name the first pass will use, then occupy it
				probe := w.Clone()
				p := probe.Reconcile(world.CtrlObjectDeployment, osw.NN(odName), nil)
				name := ""
				for _, r := range p.Reqs {
					if r.Verb == "create" && r.Key.Kind == "ObjectSet" {
						name = r.Key.Name
					}
				}
				if name == "" {
					panic("c07: probe pass created nothing")
				}
				od := w.S.Objs[osw.ODKey(odName)].Content
				odID := world.IdentOf(osw.ODKey(odName), od)
				tmpl := templates["T1"]
				owner := odID
				lifecycle := corev1alpha1.ObjectSetLifecycleStateActive
				switch sc.Clash {
				case "archived":
					lifecycle = corev1alpha1.ObjectSetLifecycleStateArchived
				case "different-spec":
					tmpl = templates["T2"]
				case "foreign":
					owner = world.IdentOf(osw.OSKey("x"), w.S.Objs[osw.OSKey("x")].Content)
				}
				t := true
				os := &corev1alpha1.ObjectSet{
					ObjectMeta: metav1.ObjectMeta{Name: name, Namespace: world.NS, Annotations: map[string]string{"verif/seeded": "true"},
						OwnerReferences: []metav1.OwnerReference{{APIVersion: "package-operator.run/v1alpha1", Kind: owner.Kind, Name: owner.Name, UID: "placeholder", Controller: &t}}},
					Spec: corev1alpha1.ObjectSetSpec{LifecycleState: lifecycle, ObjectSetTemplateSpec: tmpl},
				}
				os.OwnerReferences[0].UID = typesUID(owner.UID)
				w.MustCreate(os)
				_ = w.SetStatus(osw.OSKey(name), map[string]any{"revision": int64(1)})
			}
			w.Budget["edit"] = sc.Edits
			w.Budget["fault"] = sc.Faults
			w.Budget["conflict"] = sc.Conflicts
			w.Budget["stale"] = sc.Stale
			w.Budget["user-pause"] = sc.Pause
			if sc.OSDisturb {
				w.Budget["os-delete"] = 1
			}
			return w
		},
		Events: func(w *world.World) []world.Event {
			var evs []world.Event
			for _, e := range osw.ReconcileEvents(w) {
				if e.Name == "reconcile:os:x" {
					continue
				}
				e := e
				inner := e.Apply
				switch {
				case e.Name == "reconcile:od:d":
					e.Apply = func(w *world.World) *world.Pass {
						p := inner(w)
						markFresh(w, p)
						return p
					}
				case strings.HasPrefix(e.Name, "reconcile:os:"):
					n := strings.TrimPrefix(e.Name, "reconcile:os:")
					e.Apply = func(w *world.World) *world.Pass {
						// once the ObjectSet controller has seen it, the shared cache has it too
						delete(w.Budget, "fresh:"+n)
						return inner(w)
					}
				}
				evs = append(evs, e)
			}
			if w.Budget["edit"] > 0 {
				cur := currentTemplate(w)
				for _, n := range []string{"T1", "T2", "E"} {
					if n == cur {
						continue
					}
					n := n
					evs = append(evs, world.Event{Name: "user:edit-template:" + n, Apply: func(w *world.World) *world.Pass {
						w.Budget["edit"]--
						osw.SetODTemplate(w, odName, templates[n])
						// the staleness window modelled (and handled by the code) is a retry of the same
						// create; a template edit inside the window is outside C07's quantifier (DESIGN.md N16)
						for k := range w.Budget {
							if strings.HasPrefix(k, "fresh:") {
								delete(w.Budget, k)
							}
						}
						return nil
					}})
				}
			}
			evs = append(evs, osw.FaultEvents(w, world.CtrlObjectDeployment, odName, []world.FaultKind{world.ErrBefore, world.LostResponse, world.Crash})...)
			if sc.OSDisturb {
				for _, k := range osw.ObjectSetsOf(w.S, odName) {
					k := k
					evs = append(evs, osw.FaultEvents(w, world.CtrlObjectSet, k.Name, []world.FaultKind{world.ErrBefore})...)
					if w.Budget["os-delete"] > 0 && !kmodel.Terminating(w.S.Objs[k].Content) {
						evs = append(evs, world.Event{Name: "third-party:delete-objectset:" + k.Name, Apply: func(w *world.World) *world.Pass {
							w.Budget["os-delete"]--
							_ = w.S.Delete(k, kmodel.DeleteOpts{})
							return nil
						}})
					}
				}
			}
			evs = append(evs, osw.ConflictEvents(w, world.CtrlObjectDeployment, odName)...)
			if w.Budget["stale"] > 0 {
				// the one staleness the code handles: the List does not yet show an ObjectSet that a
				// preceding deployment pass created and that nobody else has observed since
				for _, k := range osw.ObjectSetsOf(w.S, odName) {
					if w.Budget["fresh:"+k.Name] == 0 {
						continue
					}
					k := k
					evs = append(evs, world.Event{Name: "reconcile-stale:od:d (List misses " + k.Name + ")", Apply: func(w *world.World) *world.Pass {
						w.Budget["stale"]--
						p := w.Reconcile(world.CtrlObjectDeployment, osw.NN(odName), &world.Plan{HideInList: []kmodel.Key{k}})
						markFresh(w, p)
						return p
					}})
				}
			}
			if w.Budget["user-pause"] > 0 {
				od := w.S.Objs[osw.ODKey(odName)]
				p := podPaused(od.Content)
				evs = append(evs, world.Event{Name: fmt.Sprintf("user:set-paused:%v", !p), Apply: func(w *world.World) *world.Pass {
					w.Budget["user-pause"]--
					osw.SetODPaused(w, odName, !p)
					return nil
				}})
			}
			evs = append(evs, osw.GCEvent(w)...)
			return evs
		},
		Check:     Check,
		Invariant: Invariant,
	}
}

func scenarios(quick bool) []scenario {
	out := []scenario{
		{Edits: 2, Faults: 1},
		{Edits: 2, Stale: 1, Pause: 1},
		{Edits: 1, Clash: "archived"},
		{Edits: 1, Clash: "different-spec"},
		{Edits: 1, Clash: "foreign", Faults: 1},
		{Edits: 2, Conflicts: 1},
		{Edits: 1, Pause: 2},
		{Edits: 2, LongName: true},
		{Edits: 1, Faults: 1, OSDisturb: true},
	}
	if !quick {
		out = append(out, scenario{Edits: 3, Faults: 1, Stale: 1}, scenario{Edits: 3, Pause: 2}, scenario{Edits: 2, Faults: 2}, scenario{Edits: 2, Conflicts: 2, Stale: 1}, scenario{Edits: 2, Clash: "archived", Faults: 1, Stale: 1})
	}
	return out
}

func run(o checks.Opts) *report.Report {
	rep := report.New("C07", "bfs")
	rep.Rule = "explicit-state BFS: ObjectDeployment d with templates T1{a,b}, T2{a,c}, E(no phases); events = user edits between templates (incl. reverting), reconcile(ObjectDeployment) and reconcile(each ObjectSet) in any order, every fault kind (error before effect, lost response, crash) at every request of the deployment's pass, another actor's write landing before each write of the pass (update conflict), a deployment pass whose List misses the most recently created ObjectSet, pause/unpause, pre-seeded name clashes (archived / different spec / foreign controller), one system whose deployment name is 63 characters long, one in which a fault may hit any request of an ObjectSet's own pass and a third party may delete an ObjectSet (which stays terminating behind its finalizer); monitor on every deployment pass + state invariant on revision numbers"
	scs := scenarios(o.Quick())
	rep.Bounds["systems"] = len(scs)
	for i, sc := range scs {
		if o.Shards > 1 && i%o.Shards != o.Shard {
			continue
		}
		sys := system(sc)
		sys.MaxStates = 250000
		if !o.Quick() {
			sys.MaxStates = 1000000
		}
		osw.RunBFS(rep, sys, map[string]any{"scenario": sc})
		rep.Samples = append(rep.Samples, map[string]any{"scenario": sc, "example_path": []string{"reconcile:od:d", "reconcile:os:d-<hash>", "user:edit-template:T2", "reconcile:od:d", "user:edit-template:T1", "reconcile:od:d"}})
	}
	return rep
}

func replay(v report.Violation) string {
	var sc scenario
	if err := checks.Decode(v.Params["scenario"], &sc); err != nil {
		return err.Error()
	}
	return osw.ReplayBFS(system(sc), v)
}

// twinScenarios: revisions of a ClusterObjectDeployment in lockstep with an ObjectDeployment.
func twinScenarios(quick bool) []twin.Scenario {
	out := []twin.Scenario{
		{Kind: "deployment", Edits: 2, Limit: -1},
		{Kind: "deployment", Edits: 2, Limit: 0, Pauses: 1},
	}
	if !quick {
		out = append(out, twin.Scenario{Kind: "deployment", Classes: []string{"ready"}, Edits: 2, Limit: -1}, twin.Scenario{Kind: "deployment", Edits: 2, Limit: 1, Pauses: 2})
	}
	return out
}

func init() {
	checks.Register(&checks.Check{
		ID:    "C07",
		Level: "model_checking",
		Assumptions: []string{
			"cache staleness limited to: the deployment's List misses the most recently created ObjectSet (the window the code handles)",
			"'matched' is judged by content (phases, probes); creation for a content-matched template is only flagged while no hash collision has occurred",
		},
		Subs: []*checks.Sub{{Name: "bfs", Shards: func(t string) int {
			if t == "thorough" {
				return 14
			}
			return 9
		}, Run: run, Replay: replay, Parallel: true},
			{Name: "histories", Shards: func(string) int { return 8 }, Run: runHistories, Replay: replayHistory},
			twin.Sub("C07", twinScenarios)},
	})
}
