package c07

import (
	"fmt"
	"strings"

	"package-operator.run/internal/packages/zzverif/checks"
	"package-operator.run/internal/packages/zzverif/osw"
	"package-operator.run/internal/packages/zzverif/report"
	"package-operator.run/internal/packages/zzverif/world"
)

// ---- long template-edit histories on one long-lived operator process ----
//
// Every sequence of up to 6 template edits among T1{a,b}, T2{a,c}, T3{a,d} (each differing from
// its predecessor, so rollbacks to earlier templates - and with a small revisionHistoryLimit the
// re-use of a pruned revision's name - occur) for every revisionHistoryLimit in {nil,0,1,2}. After
// each edit the system is run fairly to quiescence (all controllers in canonical order, workloads
// becoming ready, garbage collector); the C07 pass monitor is evaluated on every ObjectDeployment
// pass and the revision invariant on every state.

type histScenario struct {
	Seq   []string `json:"templates"`
	Limit int      `json:"limit"` // -1 = nil
	// Hold: object b carries a foreign finalizer from the first rollout on, so the first
	// revision's teardown never finishes and it stays terminating after it was pruned
	Hold bool `json:"hold"`
}

var histTemplates = map[string][]string{"T1": {"a", "b"}, "T2": {"a", "c"}, "T3": {"a", "d"}}

func runHistory(sc histScenario) (findings []world.Finding, passes int, trace []string) {
	w := osw.NewWorld()
	w.LongLived()
	var lim *int32
	if sc.Limit >= 0 {
		l := int32(sc.Limit)
		lim = &l
	}
	x := int64(1)
	w.MustCreate(osw.NewOD("d", osw.Template(osw.OnePhase(histTemplates[sc.Seq[0]]...), x), lim))
	settle := func(step string) {
		for r := 0; r < 40; r++ {
			canon := w.Canon()
			for _, ps := range osw.RoundPasses(w) {
				before := w.Clone()
				p := w.Reconcile(ps.Ctrl, osw.NN(ps.Name), nil)
				passes++
				ev := world.Event{Name: "reconcile:" + strings.ToLower(ps.Ctrl) + ":" + ps.Name}
				fs := Check(before, ev, p, w)
				fs = append(fs, Invariant(w)...)
				if p.Panic != "" {
					fs = append(fs, world.Finding{Monitor: "no-panic", Identity: "panic", Message: p.Panic})
				}
				if len(fs) > 0 && len(findings) == 0 {
					trace = append([]string{"after " + step + ", round " + fmt.Sprint(r)}, p.Trace()...)
				}
				findings = append(findings, fs...)
			}
			for _, k := range w.S.SortedKeys() {
				if k.Group == world.TestGroup {
					if o := w.S.Objs[k]; osw.StatusClass(o.Content) != "ready" {
						_ = w.SetStatus(k, osw.StatusFor(o.Content, "ready"))
					}
				}
			}
			w.GC()
			if w.Canon() == canon {
				return
			}
		}
		findings = append(findings, world.Finding{Monitor: "history", Identity: "no-quiescence", Message: "the system did not become quiescent within 40 rounds after " + step})
	}
	settle("creation with " + sc.Seq[0])
	if sc.Hold {
		osw.AddFinalizer(w, world.KeyOf("Widget", world.NS, "b"), osw.HoldFinalizer)
	}
	for i, t := range sc.Seq[1:] {
		x++
		_ = x
		osw.SetODTemplate(w, "d", osw.Template(osw.OnePhase(histTemplates[t]...), 1))
		settle(fmt.Sprintf("edit #%d to %s", i+1, t))
		if len(findings) > 0 {
			return
		}
	}
	return
}

func histScenarios(quick bool) []histScenario {
	maxLen := 6
	if !quick {
		maxLen = 8
	}
	var out []histScenario
	names := []string{"T1", "T2", "T3"}
	var rec func(seq []string)
	rec = func(seq []string) {
		if len(seq) >= 3 {
			for _, l := range []int{-1, 0, 1, 2} {
				out = append(out, histScenario{Seq: append([]string{}, seq...), Limit: l})
			}
			if len(seq) <= 5 {
				for _, l := range []int{0, 1} {
					out = append(out, histScenario{Seq: append([]string{}, seq...), Limit: l, Hold: true})
				}
			}
		}
		if len(seq) == maxLen {
			return
		}
		for _, n := range names {
			if n != seq[len(seq)-1] {
				rec(append(seq, n))
			}
		}
	}
	rec([]string{"T1"})
	return out
}

func runHistories(o checks.Opts) *report.Report {
	rep := report.New("C07", "histories")
	rep.Rule = "every sequence of 2..5 (thorough: ..7) template edits among T1{a,b}, T2{a,c}, T3{a,d} (rollbacks included) x revisionHistoryLimit nil/0/1/2 (and, for limit 0/1, a variant in which object b is held by a foreign finalizer so that the pruned first revision stays terminating), on ONE long-lived operator process: after each edit all controllers run fairly to quiescence (workloads becoming ready, garbage collector, old revisions archived and pruned); the C07 monitor on every ObjectDeployment pass and the revision invariant (unique, greater than all previous) on every state; distinct = (limit, number of ObjectSets at the end)"
	scs := histScenarios(o.Quick())
	rep.Bounds["histories"] = len(scs)
	for i, sc := range scs {
		if o.Shards > 1 && i%o.Shards != o.Shard {
			continue
		}
		f, passes, trace := runHistory(sc)
		rep.Executions++
		rep.ImplTraces += int64(passes)
		rep.Transitions += int64(passes)
		rep.Outcomes[fmt.Sprintf("limit=%d edits=%d findings=%d", sc.Limit, len(sc.Seq)-1, len(f))]++
		seen := map[string]bool{}
		for _, x := range f {
			if seen[x.Identity] {
				continue
			}
			seen[x.Identity] = true
			rep.AddViolation(report.Violation{Identity: x.Identity, Message: x.Message + fmt.Sprintf("\nhistory: %+v", sc), Params: map[string]any{"history": sc}, Trace: trace})
		}
		if len(rep.Samples) < 1 {
			rep.Samples = append(rep.Samples, map[string]any{"history": sc, "passes": passes})
		}
	}
	rep.States = rep.Transitions
	return rep
}

func replayHistory(v report.Violation) string {
	var sc histScenario
	if err := checks.Decode(v.Params["history"], &sc); err != nil {
		return err.Error()
	}
	f, _, trace := runHistory(sc)
	for _, l := range trace {
		fmt.Println(l)
	}
	var s []string
	for _, x := range f {
		s = append(s, x.Message)
	}
	return strings.Join(s, "\n")
}
