// Package c08 checks property C08 (rollouts never archive or delete what is still serving):
// (a) the archival / pruning decision through its public seam - one real ObjectDeployment pass
// over every pre-populated revision chain up to a bound; (b) the whole system during handovers.
package c08

import (
	"fmt"
	"sort"
	"strings"

	metav1 "k8s.io/apimachinery/pkg/apis/meta/v1"

	corev1alpha1 "package-operator.run/apis/core/v1alpha1"
	"package-operator.run/internal/packages/zzverif/checks"
	"package-operator.run/internal/packages/zzverif/checks/twin"
	"package-operator.run/internal/packages/zzverif/kmodel"
	"package-operator.run/internal/packages/zzverif/osw"
	"package-operator.run/internal/packages/zzverif/report"
	"package-operator.run/internal/packages/zzverif/world"
)

// ---- oracle (DESIGN.md Appendix A.2), evaluated on a store as of one request ----

func condTrue(c map[string]any, typ string) bool {
	st, _, _, ok := world.Condition(c, typ)
	return ok && st == "True"
}

// judgeODPass checks every archive/delete request of an ObjectDeployment pass.
func judgeODPass(before *kmodel.Store, pass *world.Pass) []world.Finding {
	var out []world.Finding
	bad := func(id, f string, a ...any) {
		out = append(out, world.Finding{Monitor: "archival", Identity: id, Message: fmt.Sprintf(f, a...)})
	}
	v := osw.View{Before: before, Pass: pass}
	od := pass.Key.Name
	revs := osw.ObjectSetsOf(before, od) // ascending by revision
	if len(revs) == 0 {
		return nil
	}
	idx := map[kmodel.Key]int{}
	for i, k := range revs {
		idx[k] = i
	}
	var limit int64 = 10
	if o := before.Objs[osw.ODKey(od)]; o != nil {
		if l, ok := world.Nested(o.Content, "spec", "revisionHistoryLimit"); ok {
			limit, _ = l.(int64)
		}
	}
	allowedDeletes := len(revs) - 1 - int(limit)
	for i, r := range pass.Reqs {
		if r.Key.Kind != "ObjectSet" || !r.IsWrite() || r.Err != nil {
			continue
		}
		pos, known := idx[r.Key]
		if !known {
			continue
		}
		if r.Verb == "delete" {
			if pos == len(revs)-1 {
				bad("deleted-current-revision", "request #%d %s deletes the newest revision", i, r)
			} else if pos >= allowedDeletes {
				bad("pruned-within-history-limit", "request #%d %s deletes revision #%d of %d previous revisions with revisionHistoryLimit %d (only the %d oldest may go)", i, r, pos+1, len(revs)-1, limit, max0(allowedDeletes))
			}
			continue
		}
		if r.Verb != "update" || r.Pre == nil || r.Post == nil || osw.Lifecycle(r.Post) != "Archived" || osw.Lifecycle(r.Pre) == "Archived" {
			continue
		}
		if !condTrue(r.Pre, "Paused") {
			bad("archived-before-pause-confirmed", "request #%d %s archives revision %s whose Paused condition is not True", i, r, r.Key.Name)
		}
		if pos == len(revs)-1 {
			bad("archived-newest-revision", "request #%d %s archives the newest revision", i, r)
			continue
		}
		newerAvailable := false
		for j := pos + 1; j < len(revs); j++ {
			if c := v.ContentAt(revs[j], i); c != nil && condTrue(c, "Available") {
				newerAvailable = true
			}
		}
		if newerAvailable {
			continue
		}
		// case 2/3: itself unavailable and controls nothing the next newer revision contains
		selfAvail := condTrue(r.Pre, "Available")
		next := v.ContentAt(revs[pos+1], i)
		id := world.IdentOf(r.Key, r.Pre)
		var common []string
		for _, p := range osw.SpecPhases(next, r.Key.Namespace) {
			for _, ok := range p.Objects {
				if c := v.ContentAt(ok, i); c != nil && world.ControlledBy(c, false, id) {
					common = append(common, ok.Name)
				}
			}
		}
		if selfAvail || len(common) > 0 {
			bad("archived-while-serving", "request #%d %s archives revision %s although no newer revision is Available and (it is Available=%v, it still controls %v which the next revision %s contains)", i, r, r.Key.Name, selfAvail, common, revs[pos+1].Name)
		}
	}
	return out
}

func max0(i int) int {
	if i < 0 {
		return 0
	}
	return i
}

// ---- (a) decision enumeration ----

type RevCfg struct {
	Lifecycle string `json:"lifecycle"`
	PausedOK  bool   `json:"pausedCondition"`
	Available bool   `json:"available"`
	Objects   string `json:"objects"` // a | b | ab
	Control   string `json:"control"` // reported | unreported | none
	// Terminating: the revision was deleted earlier (pruned) and its teardown has not finished
	Terminating bool `json:"terminating,omitempty"`
	// PausedByParent: the revision carries the paused-by-parent mark (used by C09)
	PausedByParent bool `json:"pausedByParent,omitempty"`
	// PausedCond, when set, is the status of the Paused condition (True / False / Unknown) and
	// overrides PausedOK; Unknown is what an ObjectSet reports while its delegated phases have
	// not confirmed the pause
	PausedCond string `json:"pausedCondition3,omitempty"`
}

type ChainCase struct {
	Revs    []RevCfg `json:"revisions"`
	Limit   int      `json:"limit"` // -1 = nil
	Matches bool     `json:"newestMatchesTemplate"`
	// ODPaused: the ObjectDeployment itself is paused (used by C09)
	ODPaused bool `json:"deploymentPaused,omitempty"`
}

var (
	lifecycles = []string{"Active", "Paused", "Archived"}
	objSets    = []string{"a", "b", "ab"}
	controls   = []string{"reported", "unreported", "none"}
)

func allRevCfgs(objs []string, ctrls []string) []RevCfg {
	var out []RevCfg
	for _, l := range lifecycles {
		for _, p := range []bool{false, true} {
			for _, a := range []bool{false, true} {
				for _, o := range objs {
					for _, c := range ctrls {
						out = append(out, RevCfg{Lifecycle: l, PausedOK: p, Available: a, Objects: o, Control: c})
					}
				}
			}
		}
	}
	return out
}

func BuildChain(cc ChainCase) *world.World {
	w := osw.NewWorld()
	var lim *int32
	if cc.Limit >= 0 {
		l := int32(cc.Limit)
		lim = &l
	}
	n := len(cc.Revs)
	tmplObjs := func(s string) []string { return strings.Split(s, "") }
	// the deployment's template equals the newest revision's content iff Matches
	tnames := tmplObjs(cc.Revs[n-1].Objects)
	tx := int64(n)
	if !cc.Matches {
		tx = 99
	}
	tmpl := world.TemplateSpec(osw.PhaseSpecs(osw.OnePhase(tnames...), tx), nil)
	od := osw.NewOD("d", tmpl, lim)
	od.Spec.Paused = cc.ODPaused
	w.MustCreate(od)
	// learn the template hash from a probe pass
	probe := w.Clone()
	probe.Reconcile(world.CtrlObjectDeployment, osw.NN("d"), nil)
	hv, _ := world.Nested(probe.S.Objs[osw.ODKey("d")].Content, "status", "templateHash")
	hash, _ := hv.(string)
	odID := world.IdentOf(osw.ODKey("d"), w.S.Objs[osw.ODKey("d")].Content)
	t := true
	var names []string
	for i, rc := range cc.Revs {
		name := fmt.Sprintf("d-r%d", i+1)
		names = append(names, name)
		ps := osw.PhaseSpecs(osw.OnePhase(tmplObjs(rc.Objects)...), int64(i+1))
		os := world.NewObjectSet(name, ps, nil, names[:i]...)
		os.Labels = map[string]string{"app": "d"}
		os.Annotations = map[string]string{"package-operator.run/hash": fmt.Sprintf("old-%d", i)}
		if i == n-1 && cc.Matches {
			os.Annotations["package-operator.run/hash"] = hash
		}
		os.Spec.LifecycleState = corev1alpha1.ObjectSetLifecycleState(rc.Lifecycle)
		if rc.PausedByParent {
			os.Annotations["package-operator.run/paused-by-parent"] = "true"
		}
		os.OwnerReferences = []metav1.OwnerReference{{APIVersion: "package-operator.run/v1alpha1", Kind: "ObjectDeployment", Name: "d", UID: typesUID(odID.UID), Controller: &t}}
		os.Finalizers = []string{"package-operator.run/cached"}
		w.MustCreate(os)
	}
	// managed objects: controlled by the newest revision that contains them and controls
	ctrlOf := map[string]int{}
	for i, rc := range cc.Revs {
		if rc.Control == "none" {
			continue
		}
		for _, o := range tmplObjs(rc.Objects) {
			ctrlOf[o] = i
		}
	}
	for _, o := range []string{"a", "b"} {
		i, ok := ctrlOf[o]
		obj := world.Obj("Widget", world.NS, o, map[string]any{"x": int64(1)})
		if ok {
			k := osw.OSKey(names[i])
			id := world.IdentOf(k, w.S.Objs[k].Content)
			obj.Object["metadata"].(map[string]any)["ownerReferences"] = []any{map[string]any{"apiVersion": "package-operator.run/v1alpha1", "kind": "ObjectSet", "name": id.Name, "uid": id.UID, "controller": true, "blockOwnerDeletion": true}}
			obj.SetAnnotations(map[string]string{world.RevisionAnnotation: fmt.Sprint(i + 1)})
			obj.SetLabels(map[string]string{"package-operator.run/cache": "True"})
		}
		w.MustCreate(obj)
	}
	for i, rc := range cc.Revs {
		k := osw.OSKey(names[i])
		st := map[string]any{"revision": int64(i + 1)}
		var conds []any
		gen := world.Generation(w.S.Objs[k].Content)
		av := "False"
		if rc.Available {
			av = "True"
		}
		conds = append(conds, map[string]any{"type": "Available", "status": av, "reason": "x", "message": "", "observedGeneration": gen, "lastTransitionTime": "2026-01-01T00:00:00Z"})
		if rc.PausedCond != "" {
			conds = append(conds, map[string]any{"type": "Paused", "status": rc.PausedCond, "reason": "x", "message": "", "observedGeneration": gen, "lastTransitionTime": "2026-01-01T00:00:00Z"})
		} else if rc.PausedOK {
			conds = append(conds, map[string]any{"type": "Paused", "status": "True", "reason": "Paused", "message": "", "observedGeneration": gen, "lastTransitionTime": "2026-01-01T00:00:00Z"})
		}
		if rc.Lifecycle == "Archived" {
			conds = append(conds, map[string]any{"type": "Archived", "status": "True", "reason": "Archived", "message": "", "observedGeneration": gen, "lastTransitionTime": "2026-01-01T00:00:00Z"})
		}
		st["conditions"] = conds
		if rc.Control == "reported" {
			var l []any
			for _, o := range tmplObjs(rc.Objects) {
				if ctrlOf[o] == i {
					l = append(l, map[string]any{"kind": "Widget", "group": world.TestGroup, "name": o, "namespace": world.NS})
				}
			}
			if len(l) > 0 {
				st["controllerOf"] = l
			}
		}
		if err := w.SetStatus(k, st); err != nil {
			panic(err)
		}
	}
	for i, rc := range cc.Revs {
		if rc.Terminating {
			_ = w.S.Delete(osw.OSKey(names[i]), kmodel.DeleteOpts{}) // finalizer present: stays, terminating
		}
	}
	return w
}

func judgeChain(cc ChainCase) ([]world.Finding, string, []string) {
	w := BuildChain(cc)
	before := w.S.Clone()
	pass := w.Reconcile(world.CtrlObjectDeployment, osw.NN("d"), nil)
	if pass.Panic != "" {
		return []world.Finding{{Monitor: "no-panic", Identity: "panic", Message: pass.Panic}}, "panic", pass.Trace()
	}
	f := judgeODPass(before, pass)
	var acts []string
	for _, r := range pass.Reqs {
		if r.IsWrite() && r.Key.Kind == "ObjectSet" && r.Err == nil {
			switch {
			case r.Verb == "delete":
				acts = append(acts, "delete")
			case r.Verb == "create":
				acts = append(acts, "create")
			case r.Post != nil && r.Pre != nil && osw.Lifecycle(r.Post) != osw.Lifecycle(r.Pre):
				acts = append(acts, "->"+osw.Lifecycle(r.Post))
			}
		}
	}
	sort.Strings(acts)
	return f, strings.Join(acts, ","), pass.Trace()
}

func enumerate(quick bool) []ChainCase {
	var out []ChainCase
	full := allRevCfgs(objSets, controls)
	limits := []int{-1, 0, 1, 2}
	for _, r1 := range full {
		for _, r2 := range full {
			for _, l := range limits {
				for _, m := range []bool{true, false} {
					if !m && l > 0 {
						continue
					}
					out = append(out, ChainCase{Revs: []RevCfg{r1, r2}, Limit: l, Matches: m})
				}
			}
		}
	}
	// three revisions
	var a3, b3, c3 []RevCfg
	if quick {
		two := []string{"reported", "none"}
		a3, b3, c3 = allRevCfgs([]string{"a"}, two), allRevCfgs([]string{"ab"}, two), allRevCfgs([]string{"b"}, two)
	} else {
		a3, b3, c3 = full, full, allRevCfgs([]string{"b", "ab"}, controls)
	}
	l3 := []int{-1, 1}
	if !quick {
		l3 = []int{-1, 0, 1}
	}
	for _, r1 := range a3 {
		for _, r2 := range b3 {
			for _, r3 := range c3 {
				for _, l := range l3 {
					out = append(out, ChainCase{Revs: []RevCfg{r1, r2, r3}, Limit: l, Matches: true})
				}
			}
		}
	}
	// three-valued Paused condition on the older revision of a 2-chain and on both older ones of a 3-chain
	for _, lc := range []string{"Active", "Paused"} {
		for _, pc := range []string{"True", "False", "Unknown"} {
			for _, av := range []bool{false, true} {
				for _, ctl := range []string{"none", "reported"} {
					for _, na := range []bool{false, true} {
						old := RevCfg{Lifecycle: lc, PausedCond: pc, Available: av, Objects: "a", Control: ctl}
						out = append(out, ChainCase{Revs: []RevCfg{old, {Lifecycle: "Active", Available: na, Objects: "ab", Control: "reported"}}, Limit: -1, Matches: true})
						out = append(out, ChainCase{Revs: []RevCfg{old, old, {Lifecycle: "Active", Available: na, Objects: "ab", Control: "reported"}}, Limit: 1, Matches: true})
					}
				}
			}
		}
	}
	// pruning chains: 3 and 4 revisions whose older members are paused or archived, available or
	// not, and possibly still terminating from an earlier pruning; every revisionHistoryLimit
	for _, n := range []int{3, 4} {
		var opts []RevCfg
		for _, l := range []string{"Paused", "Archived"} {
			for _, a := range []bool{false, true} {
				for _, t := range []bool{false, true} {
					opts = append(opts, RevCfg{Lifecycle: l, PausedOK: true, Available: a, Objects: "a", Control: "none", Terminating: t})
				}
			}
		}
		idx := make([]int, n-1)
		for {
			for _, na := range []bool{false, true} {
				for _, l := range []int{-1, 0, 1, 2} {
					cc := ChainCase{Limit: l, Matches: true}
					for _, i := range idx {
						cc.Revs = append(cc.Revs, opts[i])
					}
					cc.Revs = append(cc.Revs, RevCfg{Lifecycle: "Active", Available: na, Objects: "a", Control: "reported"})
					out = append(out, cc)
				}
			}
			j := 0
			for ; j < len(idx); j++ {
				idx[j]++
				if idx[j] < len(opts) {
					break
				}
				idx[j] = 0
			}
			if j == len(idx) {
				break
			}
		}
	}
	return out
}

func runTable(o checks.Opts) *report.Report {
	rep := report.New("C08", "decision")
	rep.Rule = "one real ObjectDeployment pass over every pre-populated chain of 2 revisions (each: lifecycle Active/Paused/Archived x Paused condition x Available x objects {a},{b},{a,b} x control reported/unreported/none; revisionHistoryLimit nil/0/1/2; newest matching the template or not) and of 3 revisions (quick: two-valued control, fixed object sets; thorough: full alphabets), chains whose older revisions report Paused = True / False / Unknown, and pruning chains of 3 and 4 revisions (older members paused/archived x Available x still terminating from an earlier pruning; limit nil/0/1/2); managed objects in the store consistent with the control relation; every archive/delete request judged against Appendix A.2; distinct = set of lifecycle actions taken"
	cases := enumerate(o.Quick())
	rep.Bounds["cases"] = len(cases)
	for i, cc := range cases {
		if o.Shards > 1 && i%o.Shards != o.Shard {
			continue
		}
		f, out, trace := judgeChain(cc)
		rep.Executions++
		rep.ImplTraces++
		rep.Transitions++
		rep.Outcomes[fmt.Sprintf("n=%d %s", len(cc.Revs), out)]++
		seen := map[string]bool{}
		for _, x := range f {
			if seen[x.Identity] {
				continue
			}
			seen[x.Identity] = true
			rep.AddViolation(report.Violation{Identity: x.Identity, Message: x.Message + fmt.Sprintf("\ncase: %+v", cc), Params: map[string]any{"case": cc}, Trace: trace})
		}
		if o.Shard == 0 && len(rep.Samples) < 2 && i%5003 == 0 {
			rep.Samples = append(rep.Samples, map[string]any{"case": cc, "actions": out})
		}
	}
	rep.States = rep.Executions
	return rep
}

func replayTable(v report.Violation) string {
	var cc ChainCase
	if err := checks.Decode(v.Params["case"], &cc); err != nil {
		return err.Error()
	}
	f, _, trace := judgeChain(cc)
	for _, l := range trace {
		fmt.Println(l)
	}
	var s []string
	for _, x := range f {
		s = append(s, x.Message)
	}
	return strings.Join(s, "\n")
}

// ---- (b) whole system ----

type scenario struct {
	Edits   int      `json:"edits"`
	Limit   int      `json:"limit"`
	Classes []string `json:"classes"`
	// Flaky: objects whose status may regress (others only ever become ready)
	Flaky     []string `json:"flaky"`
	Conflicts int      `json:"conflicts"`
	// CP: collisionProtection of every object of every template (default Prevent)
	CP string `json:"collisionProtection"`
	// Pauses: budget of the user pausing / unpausing the deployment (every toggle bumps the
	// generation of each live revision, whose conditions then lag behind for a while)
	Pauses int `json:"pauses"`
	// Races: budget of "the revision's own controller completes a pass (after its objects became
	// ready) between the deployment pass's read and its write #i to that revision", for every
	// such write: the decision the write carries out was taken on a state that no longer holds
	Races int `json:"races"`
}

func (sc scenario) name() string {
	return fmt.Sprintf("deployment edits=%d limit=%d statuses=%d flaky=%v cp=%s pauses=%d", sc.Edits, sc.Limit, len(sc.Classes), sc.Flaky, sc.CP, sc.Pauses)
}

func (sc scenario) template(i int) corev1alpha1.ObjectSetTemplateSpec {
	t := osw.Template(osw.OnePhase(tmpls[i]...), int64(i+1))
	if sc.CP != "" {
		for pi := range t.Phases {
			for oi := range t.Phases[pi].Objects {
				t.Phases[pi].Objects[oi].CollisionProtection = corev1alpha1.CollisionProtection(sc.CP)
			}
		}
	}
	return t
}

var tmpls = [][]string{{"a", "b"}, {"a", "c"}, {"a", "b"}}

func system(sc scenario) *world.System {
	return &world.System{
		Name: sc.name(),
		Init: func() *world.World {
			w := osw.NewWorld()
			var lim *int32
			if sc.Limit >= 0 {
				l := int32(sc.Limit)
				lim = &l
			}
			w.MustCreate(osw.NewOD("d", sc.template(0), lim))
			w.Budget["edit"] = sc.Edits
			w.Budget["conflict"] = sc.Conflicts
			w.Budget["user-pause"] = sc.Pauses
			w.Budget["race"] = sc.Races
			return w
		},
		Events: func(w *world.World) []world.Event {
			evs := osw.ReconcileEvents(w)
			if od := w.S.Objs[osw.ODKey("d")]; od != nil && w.Budget["user-pause"] > 0 {
				pv, _ := world.Nested(od.Content, "spec", "paused")
				p, _ := pv.(bool)
				name := "user:pause-od"
				if p {
					name = "user:unpause-od"
				}
				evs = append(evs, world.Event{Name: name, Apply: func(w *world.World) *world.Pass {
					w.Budget["user-pause"]--
					osw.SetODPaused(w, "d", !p)
					return nil
				}})
			}
			if w.Budget["race"] > 0 {
				probe := w.Clone()
				for i, r := range probe.Reconcile(world.CtrlObjectDeployment, osw.NN("d"), nil).Reqs {
					if !r.IsWrite() || r.Key.Kind != "ObjectSet" || r.Pre == nil {
						continue
					}
					i, k := i, r.Key
					evs = append(evs, world.Event{Name: fmt.Sprintf("race:od:d@%d:revision-%s-reconciled-ready", i, k.Name), Apply: func(w *world.World) *world.Pass {
						w.Budget["race"]--
						return w.Reconcile(world.CtrlObjectDeployment, osw.NN("d"), &world.Plan{InterfereAt: i, Interfere: func(w *world.World) {
							if os := w.S.Objs[k]; os != nil {
								for _, p := range osw.SpecPhases(os.Content, world.NS) {
									for _, ok := range p.Objects {
										if o := w.S.Objs[ok]; o != nil && !kmodel.Terminating(o.Content) {
											_ = w.SetStatus(ok, osw.StatusFor(o.Content, "ready"))
										}
									}
								}
								w.Reconcile(world.CtrlObjectSet, osw.NN(k.Name), nil)
							}
						}})
					}})
				}
			}
			for _, e := range osw.WorkloadEvents(w, sc.Classes) {
				if sc.Flaky != nil && !strings.HasSuffix(e.Name, "=ready") {
					ok := false
					for _, f := range sc.Flaky {
						if strings.Contains(e.Name, "/"+f+"=") {
							ok = true
						}
					}
					if !ok {
						continue
					}
				}
				evs = append(evs, e)
			}
			evs = append(evs, osw.GCEvent(w)...)
			evs = append(evs, osw.ConflictEvents(w, world.CtrlObjectDeployment, "d")...)
			if e := w.Budget["edit"]; e > 0 {
				i := sc.Edits - e + 1
				evs = append(evs, world.Event{Name: fmt.Sprintf("user:edit-template:%s", strings.Join(tmpls[i], "")), Apply: func(w *world.World) *world.Pass {
					w.Budget["edit"]--
					osw.SetODTemplate(w, "d", sc.template(i))
					return nil
				}})
			}
			return evs
		},
		Check: func(before *world.World, _ world.Event, pass *world.Pass, after *world.World) []world.Finding {
			if pass == nil {
				return nil
			}
			var out []world.Finding
			if pass.Ctrl == world.CtrlObjectDeployment {
				out = append(out, judgeODPass(before.S, pass)...)
			}
			// an object present in the incoming (newest) revision is never deleted during handover
			revs := osw.ObjectSetsOf(before.S, "d")
			if len(revs) == 0 {
				return out
			}
			newest := before.S.Objs[revs[len(revs)-1]].Content
			if kmodel.Terminating(newest) || osw.Lifecycle(newest) == "Archived" {
				return out
			}
			inNewest := map[kmodel.Key]bool{}
			for _, p := range osw.SpecPhases(newest, world.NS) {
				for _, k := range p.Objects {
					inNewest[k] = true
				}
			}
			for i, r := range pass.Reqs {
				if r.Verb == "delete" && r.IsWrite() && r.Err == nil && inNewest[r.Key] {
					out = append(out, world.Finding{Monitor: "handover-in-place", Identity: "shared-object-deleted", Message: fmt.Sprintf("request #%d %s deletes an object that the newest revision %s contains", i, r, revs[len(revs)-1].Name)})
				}
			}
			return out
		},
	}
}

func scenarios(quick bool) []scenario {
	two := []string{"ready", "notready"}
	out := []scenario{{Edits: 1, Limit: 0, Classes: two, Flaky: []string{"a"}}, {Edits: 1, Limit: -1, Classes: two, Flaky: []string{"c"}}, {Edits: 1, Limit: 0, Classes: []string{"ready"}, Flaky: []string{}, Conflicts: 1},
		{Edits: 1, Limit: 0, Classes: two, Flaky: []string{"c"}, CP: "None"},
		{Edits: 1, Limit: 0, Classes: []string{"ready"}, Flaky: []string{}, Pauses: 2},
		{Edits: 1, Limit: 0, Classes: []string{"ready"}, Flaky: []string{}, Races: 1}}
	if !quick {
		out = append(out, scenario{Edits: 1, Limit: 0, Classes: two, Flaky: []string{"a", "b"}, Races: 1})
		out = append(out, scenario{Edits: 2, Limit: 1, Classes: two, Flaky: []string{"a"}, CP: "None"}, scenario{Edits: 2, Limit: 0, Classes: []string{"ready"}, Flaky: []string{}, CP: "IfNoController"})
		out = append(out, scenario{Edits: 2, Limit: 0, Classes: []string{"ready"}, Flaky: []string{}}, scenario{Edits: 1, Limit: -1, Classes: two}, scenario{Edits: 2, Limit: 0, Classes: two, Flaky: []string{"a"}}, scenario{Edits: 2, Limit: 1, Classes: two, Flaky: []string{"b", "c"}})
	}
	return out
}

func runSystem(o checks.Opts) *report.Report {
	rep := report.New("C08", "system")
	rep.Rule = "explicit-state BFS: ObjectDeployment rolling T1{a,b} -> T2{a,c} -> T1{a,b} with the real ObjectDeployment and ObjectSet controllers in any order, workload status changes, garbage collector, another actor's write landing before each write of a deployment pass (update conflict), the user pausing and unpausing the deployment (budgeted), the revision's own controller completing a pass on ready objects between the deployment pass's read and its write to that revision (budgeted, every such write); the archival oracle on every deployment pass and 'no delete of an object the newest revision contains' on every request"
	scs := scenarios(o.Quick())
	rep.Bounds["systems"] = len(scs)
	for i, sc := range scs {
		if o.Shards > 1 && i%o.Shards != o.Shard {
			continue
		}
		sys := system(sc)
		sys.MaxStates = 150000
		if !o.Quick() {
			sys.MaxStates = 300000
		}
		osw.RunBFS(rep, sys, map[string]any{"scenario": sc})
		rep.Samples = append(rep.Samples, map[string]any{"scenario": sc})
	}
	return rep
}

func replaySystem(v report.Violation) string {
	var sc scenario
	if err := checks.Decode(v.Params["scenario"], &sc); err != nil {
		return err.Error()
	}
	return osw.ReplayBFS(system(sc), v)
}

// twinScenarios: rollouts of a ClusterObjectDeployment in lockstep with an ObjectDeployment.
func twinScenarios(quick bool) []twin.Scenario {
	out := []twin.Scenario{
		{Kind: "deployment", Classes: []string{"ready"}, Edits: 1, Limit: 0},
		{Kind: "deployment", Classes: []string{"ready"}, Edits: 1, Limit: 1, Pauses: 1},
	}
	if !quick {
		out = append(out, twin.Scenario{Kind: "deployment", Classes: []string{"ready", "notready"}, Edits: 1, Limit: 0}, twin.Scenario{Kind: "deployment", Classes: []string{"ready"}, Edits: 2, Limit: 1})
	}
	return out
}

func init() {
	checks.Register(&checks.Check{
		ID:    "C08",
		Level: "model_checking",
		Assumptions: []string{
			"'controls' is the control relation in the store (ownerReferences), 'Available'/'paused confirmed' are the status conditions as stored at the instant of the request",
			"an empty controllerOf serialises as absent (omitempty), i.e. as 'not reported'",
		},
		Subs: []*checks.Sub{
			{Name: "decision", Shards: func(string) int { return 16 }, Run: runTable, Replay: replayTable},
			{Name: "system", Shards: func(t string) int {
				if t == "thorough" {
					return 11
				}
				return 6
			}, Run: runSystem, Replay: replaySystem, Parallel: true},
			twin.Sub("C08", twinScenarios)},
	})
}
