package c08

import "k8s.io/apimachinery/pkg/types"

func typesUID(s string) types.UID { return types.UID(s) }
