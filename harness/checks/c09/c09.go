// Package c09 checks property C09 (paused means hands-off) with monitors on every pass of the
// real ObjectSet, ObjectSetPhase and ObjectDeployment controllers while pause/unpause is
// toggled at every point of rollout, handover and drift.
package c09

import (
	"fmt"
	"sort"
	"strings"

	metav1 "k8s.io/apimachinery/pkg/apis/meta/v1"

	corev1alpha1 "package-operator.run/apis/core/v1alpha1"
	"package-operator.run/internal/packages/zzverif/checks"
	"package-operator.run/internal/packages/zzverif/checks/twin"
	"package-operator.run/internal/packages/zzverif/kmodel"
	"package-operator.run/internal/packages/zzverif/osw"
	"package-operator.run/internal/packages/zzverif/report"
	"package-operator.run/internal/packages/zzverif/world"
)

const pausedByParent = "package-operator.run/paused-by-parent"

func firstRead(pass *world.Pass, k kmodel.Key) map[string]any {
	for _, r := range pass.Reqs {
		if r.Verb == "get" && r.Key == k && r.Err == nil {
			return r.Resp
		}
	}
	return nil
}

// Check is the C09 transition monitor.
func Check(before *world.World, _ world.Event, pass *world.Pass, after *world.World) []world.Finding {
	if pass == nil {
		return nil
	}
	var out []world.Finding
	bad := func(id, f string, a ...any) {
		out = append(out, world.Finding{Monitor: "paused-hands-off", Identity: id, Message: fmt.Sprintf(f, a...)})
	}
	v := osw.View{Before: before.S, Pass: pass}
	switch pass.Ctrl {
	case world.CtrlObjectSet, world.CtrlPhase:
		var ownKey kmodel.Key
		if pass.Ctrl == world.CtrlObjectSet {
			ownKey = osw.OSKey(pass.Key.Name)
		} else {
			ownKey = world.PKOKey("ObjectSetPhase", pass.Key.Namespace, pass.Key.Name)
		}
		read := firstRead(pass, ownKey)
		if read == nil || kmodel.Terminating(read) {
			return nil
		}
		var listed []kmodel.Key
		var delegated []string
		paused := false
		if pass.Ctrl == world.CtrlObjectSet {
			if osw.Lifecycle(read) != "Paused" {
				return nil
			}
			paused = true
			for _, p := range osw.SpecPhasesIn(before.S, read, ownKey.Namespace) {
				if p.Class != "" {
					delegated = append(delegated, p.Name)
					continue
				}
				listed = append(listed, p.Objects...)
			}
		} else {
			pv, _ := world.Nested(read, "spec", "paused")
			paused, _ = pv.(bool)
			if !paused {
				return nil
			}
			listed = osw.PhaseObjects(read, ownKey.Namespace)
		}
		isListed := map[kmodel.Key]bool{}
		for _, k := range listed {
			isListed[k] = true
		}
		for i, r := range pass.Reqs {
			if r.IsWrite() && isListed[r.Key] {
				bad("write-while-paused", "%s %s is paused but its controller sent request #%d %s", ownKey.Kind, ownKey.Name, i, r)
			}
		}
		// pausing propagates: once a pass of the paused ObjectSet has completed, every
		// ObjectSetPhase realising one of its delegated phases is paused too - otherwise the phase
		// controller keeps writing objects listed in the paused ObjectSet
		if pass.Ctrl == world.CtrlObjectSet && pass.Err == nil && !pass.Crashed {
			id := world.IdentOf(ownKey, read)
			// does an earlier phase fail its probes in what this pass saw? (the rollout loop stops there)
			specPhases := osw.SpecPhasesIn(before.S, read, ownKey.Namespace)
			earlierFails := func(name string) bool {
				for _, p := range specPhases {
					if p.Name == name {
						return false
					}
					if p.Class != "" {
						resp, seen := v.LastResponse(osw.PhaseKey(ownKey.Name, p.Name), len(pass.Reqs))
						st, _, og, ok := world.Condition(resp, "Available")
						if !seen || resp == nil || !ok || st != "True" || og != world.Generation(resp) {
							return true
						}
						continue
					}
					for _, k := range p.Objects {
						resp, seen := v.LastResponse(k, len(pass.Reqs))
						if !seen || resp == nil || !osw.RefProbe(resp) {
							return true
						}
					}
				}
				return false
			}
			for _, dn := range delegated {
				pk := osw.PhaseKey(ownKey.Name, dn)
				po := after.S.Objs[pk]
				if po == nil || !world.ControlledBy(po.Content, false, id) || kmodel.Terminating(po.Content) {
					continue
				}
				pv, _ := world.Nested(po.Content, "spec", "paused")
				if b, _ := pv.(bool); !b {
					ident := "delegated-phase-left-unpaused"
					if earlierFails(dn) {
						ident = "delegated-phase-left-unpaused-behind-failing-phase"
					}
					bad(ident, "ObjectSet %s is paused and its controller completed a pass, but ObjectSetPhase %s of delegated phase %q is still not paused (an earlier phase fails its probes in this pass: %v)", ownKey.Name, pk.Name, dn, earlierFails(dn))
				}
			}
		}
		// still probing and reporting: with every listed object there and visible to the cache, a
		// paused pass has no reason to fail (a crashed pass is the injected restart itself)
		if pass.Err != nil && !pass.Crashed && len(delegated) == 0 {
			all := true
			for _, k := range listed {
				if o := before.S.Objs[k]; o == nil || !world.CacheVisible(o.Content) {
					all = false
				}
			}
			if all {
				bad("paused-pass-fails", "%s %s is paused and all its objects exist, but its pass fails instead of probing and reporting: %v", ownKey.Kind, ownKey.Name, pass.Err)
			}
		}
		if pass.Err != nil || pass.Crashed || len(pass.Reqs) == 0 {
			return out
		}
		last := pass.Reqs[len(pass.Reqs)-1]
		if !(last.Key == ownKey && last.Sub == "status" && last.Err == nil && last.Post != nil) {
			bad("paused-no-status", "%s %s is paused; its pass ended without persisting status (last request %s)", ownKey.Kind, ownKey.Name, last)
			return out
		}
		post := last.Post
		pst, _, _, pok := world.Condition(post, "Paused")
		if !pok || !(pst == "True" || (pst == "Unknown" && len(delegated) > 0)) {
			bad("paused-not-reported", "%s %s is paused but the persisted Paused condition is %q (present=%v)", ownKey.Kind, ownKey.Name, pst, pok)
		}
		// reference availability over what the cache shows
		want := "True"
		why := ""
		for _, k := range listed {
			resp, seen := v.LastResponse(k, len(pass.Reqs))
			if !seen || resp == nil || !world.CacheVisible(resp) {
				want, why = "False", fmt.Sprintf("%s is not visible in the cache", k)
				break
			}
			if !osw.RefProbe(resp) {
				want, why = "False", fmt.Sprintf("%s fails its probes", k)
				break
			}
		}
		if pass.Ctrl == world.CtrlObjectSet && len(delegated) > 0 {
			want = "" // mixed local/delegated: availability also depends on the phase objects; not judged here
		}
		ast, _, og, aok := world.Condition(post, "Available")
		if !aok {
			bad("paused-no-available", "%s %s is paused; its pass persisted no Available condition", ownKey.Kind, ownKey.Name)
		} else if want != "" && (ast != want || og != world.Generation(post)) {
			bad("paused-available-wrong", "%s %s is paused; persisted Available=%s (observedGeneration %d, generation %d) but probing the cached objects gives %s (%s)", ownKey.Kind, ownKey.Name, ast, og, world.Generation(post), want, why)
		}
	case world.CtrlObjectDeployment:
		odKey := osw.ODKey(pass.Key.Name)
		read := firstRead(pass, odKey)
		if read == nil {
			return nil
		}
		pv, _ := world.Nested(read, "spec", "paused")
		odPaused, _ := pv.(bool)
		marked := map[string]bool{}
		for _, k := range osw.ObjectSetsOf(before.S, pass.Key.Name) {
			c := before.S.Objs[k].Content
			if kmodel.Annotations(c)[pausedByParent] == "true" && osw.Lifecycle(c) == "Paused" {
				marked[k.Name] = true
			}
		}
		released := map[string]bool{}
		for i, r := range pass.Reqs {
			if !r.IsWrite() || r.Key.Kind != "ObjectSet" || r.Err != nil {
				continue
			}
			if odPaused {
				if r.Verb == "create" {
					bad("create-while-paused", "ObjectDeployment %s is paused but request #%d %s creates a revision", pass.Key.Name, i, r)
				}
				if r.Verb == "update" && r.Post != nil && osw.Lifecycle(r.Post) == "Archived" && osw.Lifecycle(r.Pre) != "Archived" {
					bad("archive-while-paused", "ObjectDeployment %s is paused but request #%d %s archives a revision", pass.Key.Name, i, r)
				}
				if r.Verb == "delete" {
					bad("delete-while-paused", "ObjectDeployment %s is paused but request #%d %s deletes a revision", pass.Key.Name, i, r)
				}
			} else if r.Verb == "update" && r.Pre != nil && r.Post != nil && osw.Lifecycle(r.Pre) == "Paused" && osw.Lifecycle(r.Post) == "Active" {
				released[r.Key.Name] = true
				if !marked[r.Key.Name] {
					bad("released-unmarked-revision", "ObjectDeployment %s unpaused revision %s which the parent had not paused", pass.Key.Name, r.Key.Name)
				}
			}
		}
		// the deployment acts only once every revision has reported its number (C07); until then
		// "pauses every non-archived revision" cannot be demanded of this pass
		allReported := true
		for _, k := range osw.ObjectSetsOf(before.S, pass.Key.Name) {
			if osw.StatusRevision(before.S.Objs[k].Content) == 0 {
				allReported = false
			}
		}
		if pass.Err == nil && !pass.Crashed && allReported {
			if odPaused {
				for _, k := range osw.ObjectSetsOf(after.S, pass.Key.Name) {
					c := after.S.Objs[k].Content
					if lc := osw.Lifecycle(c); lc != "Paused" && lc != "Archived" && !kmodel.Terminating(c) {
						bad("revision-not-paused", "ObjectDeployment %s is paused; after its pass revision %s is %s", pass.Key.Name, k.Name, lc)
					}
				}
			} else {
				var missing []string
				for n := range marked {
					if !released[n] {
						if o := after.S.Objs[osw.OSKey(n)]; o != nil && osw.Lifecycle(o.Content) == "Paused" && kmodel.Annotations(o.Content)[pausedByParent] == "true" {
							missing = append(missing, n)
						}
					}
				}
				sort.Strings(missing)
				if len(missing) > 0 {
					bad("marked-revision-not-released", "ObjectDeployment %s is unpaused; its pass left revisions %v paused-by-parent", pass.Key.Name, missing)
				}
			}
		}
	}
	return out
}

type scenario struct {
	Kind    string   `json:"kind"` // objectset | deployment
	N       int      `json:"phases"`
	Mask    uint     `json:"delegated"`
	Classes []string `json:"classes"`
	Pauses  int      `json:"pauses"`
	Third   int      `json:"thirdParty"`
	Edits   int      `json:"edits"`
	// Restarts: budget of operator crashes before request i of a pass (the next pass starts with an empty dynamic cache)
	Restarts int `json:"restarts"`
	// SlicedPaused: the ObjectSet keeps its objects in ObjectSlices and is created with
	// lifecycleState Paused (paused before it ever adopted its slices)
	SlicedPaused bool `json:"slicedPaused"`
}

func (sc scenario) name() string {
	return fmt.Sprintf("%s phases=%d delegated=%03b statuses=%d pauses=%d third=%d edits=%d restarts=%d slicedPaused=%v", sc.Kind, sc.N, sc.Mask, len(sc.Classes), sc.Pauses, sc.Third, sc.Edits, sc.Restarts, sc.SlicedPaused)
}

func thirdPartyEvents(w *world.World, keys []kmodel.Key) []world.Event {
	if w.Budget["third-party"] <= 0 {
		return nil
	}
	var evs []world.Event
	for _, k := range keys {
		k := k
		if w.S.Objs[k] == nil {
			continue
		}
		tp := func(name string, f func(w *world.World)) {
			evs = append(evs, world.Event{Name: "third-party:" + name + ":" + k.Name, Apply: func(w *world.World) *world.Pass {
				w.Budget["third-party"]--
				f(w)
				return nil
			}})
		}
		tp("delete", func(w *world.World) { _ = w.S.Delete(k, kmodel.DeleteOpts{}) })
		tp("modify", func(w *world.World) {
			_ = w.Edit(k, func(c map[string]any) { c["spec"].(map[string]any)["x"] = int64(9) })
		})
		tp("reown", func(w *world.World) {
			x := w.S.Objs[osw.OSKey("x")]
			if x == nil {
				return
			}
			id := world.IdentOf(osw.OSKey("x"), x.Content)
			_ = w.Edit(k, func(c map[string]any) {
				c["metadata"].(map[string]any)["ownerReferences"] = []any{map[string]any{"apiVersion": "package-operator.run/v1alpha1", "kind": "ObjectSet", "name": id.Name, "uid": id.UID, "controller": true}}
			})
		})
	}
	return evs
}

func system(sc scenario) *world.System {
	t1 := osw.Template(osw.OnePhase("a", "b"), 1)
	t2 := osw.Template(osw.OnePhase("a", "c"), 1)
	return &world.System{
		Name: sc.name(),
		Init: func() *world.World {
			w := osw.NewWorld()
			w.MustCreate(world.NewObjectSet("x", nil, nil))
			if sc.Kind == "objectset" {
				ps := osw.PhaseSpecs(osw.B1(sc.N, sc.Mask), 1)
				if sc.SlicedPaused {
					for i := range ps {
						sn := "r1-slice-" + ps[i].Name
						w.MustCreate(&corev1alpha1.ObjectSlice{ObjectMeta: metav1.ObjectMeta{Name: sn, Namespace: world.NS}, Objects: ps[i].Objects})
						ps[i].Slices, ps[i].Objects = []string{sn}, nil
					}
				}
				os := world.NewObjectSet("r1", ps, world.StdProbes())
				if sc.SlicedPaused {
					os.Spec.LifecycleState = corev1alpha1.ObjectSetLifecycleStatePaused
				}
				w.MustCreate(os)
			} else {
				w.MustCreate(osw.NewOD("d", t1, nil))
			}
			w.Budget["user-pause"] = sc.Pauses
			w.Budget["third-party"] = sc.Third
			w.Budget["edit"] = sc.Edits
			w.Budget["restart"] = sc.Restarts
			return w
		},
		Events: func(w *world.World) []world.Event {
			var evs []world.Event
			for _, e := range osw.ReconcileEvents(w) {
				if e.Name == "reconcile:os:x" {
					continue
				}
				evs = append(evs, e)
			}
			evs = append(evs, osw.WorkloadEvents(w, sc.Classes)...)
			evs = append(evs, osw.CrashEvents(w)...)
			if sc.Kind == "objectset" {
				evs = append(evs, osw.PauseEvents(w, "r1")...)
				var keys []kmodel.Key
				for _, p := range osw.B1(sc.N, sc.Mask) {
					for _, o := range p.Objects {
						keys = append(keys, o.Key())
					}
				}
				if len(keys) > 2 {
					keys = keys[:2]
				}
				evs = append(evs, thirdPartyEvents(w, keys)...)
			} else {
				od := w.S.Objs[osw.ODKey("d")]
				if od != nil && w.Budget["user-pause"] > 0 {
					pv, _ := world.Nested(od.Content, "spec", "paused")
					p, _ := pv.(bool)
					name := "user:pause-od"
					if p {
						name = "user:unpause-od"
					}
					evs = append(evs, world.Event{Name: name, Apply: func(w *world.World) *world.Pass {
						w.Budget["user-pause"]--
						osw.SetODPaused(w, "d", !p)
						return nil
					}})
				}
				if od != nil && w.Budget["edit"] > 0 {
					evs = append(evs, world.Event{Name: "user:edit-template:T2", Apply: func(w *world.World) *world.Pass {
						w.Budget["edit"]--
						osw.SetODTemplate(w, "d", t2)
						return nil
					}})
				}
				evs = append(evs, osw.GCEvent(w)...)
			}
			return evs
		},
		Check: Check,
	}
}

var two = []string{"ready", "notready"}

func scenarios(quick bool) []scenario {
	out := []scenario{
		{Kind: "objectset", N: 2, Mask: 0, Classes: two, Pauses: 2, Third: 1},
		{Kind: "objectset", N: 2, Mask: 0b01, Classes: two, Pauses: 1, Third: 1},
		{Kind: "objectset", N: 1, Mask: 0b1, Classes: two, Pauses: 2, Third: 2},
		{Kind: "objectset", N: 2, Mask: 0b10, Classes: two, Pauses: 1, Third: 0},
		{Kind: "deployment", Classes: []string{"ready"}, Pauses: 2, Edits: 1},
		{Kind: "objectset", N: 2, Mask: 0, Classes: []string{"ready"}, Pauses: 1, Restarts: 1},
		{Kind: "objectset", N: 2, Mask: 0b10, Classes: []string{"ready"}, Pauses: 1, Restarts: 1},
		{Kind: "objectset", N: 2, Mask: 0, Classes: two, Pauses: 2, SlicedPaused: true},
	}
	if !quick {
		out = append(out,
			scenario{Kind: "objectset", N: 2, Mask: 0b11, Classes: two, Pauses: 2, Third: 1},
			scenario{Kind: "objectset", N: 2, Mask: 0, Classes: []string{"ready", "notready", "stale"}, Pauses: 3, Third: 2},
			scenario{Kind: "objectset", N: 3, Mask: 0b010, Classes: two, Pauses: 2, Third: 1},
			scenario{Kind: "deployment", Classes: two, Pauses: 3, Edits: 1},
			scenario{Kind: "objectset", N: 2, Mask: 0b01, Classes: two, Pauses: 2, Third: 1, Restarts: 1},
		)
	}
	return out
}

func run(o checks.Opts) *report.Report {
	rep := report.New("C09", "bfs")
	rep.Rule = "explicit-state BFS: reconcile(ObjectSets, ObjectSetPhases, ObjectDeployment), workload status changes, user pause/unpause of the ObjectSet or the ObjectDeployment at any point, (budgeted) an operator crash before request i of a pass so that the next pass starts with an empty dynamic cache, template edit T1{a,b}->T2{a,c}, third party deleting / modifying / re-owning managed objects, garbage collector; monitor on every pass of a paused owner and on every ObjectDeployment pass"
	scs := scenarios(o.Quick())
	rep.Bounds["systems"] = len(scs)
	for i, sc := range scs {
		if o.Shards > 1 && i%o.Shards != o.Shard {
			continue
		}
		sys := system(sc)
		sys.MaxStates = 200000
		if !o.Quick() {
			sys.MaxStates = 800000
		}
		osw.RunBFS(rep, sys, map[string]any{"scenario": sc})
		rep.Samples = append(rep.Samples, map[string]any{"scenario": sc, "example_path": strings.Split("reconcile:os:r1 user:pause:r1 third-party:delete:a reconcile:os:r1 user:unpause:r1 reconcile:os:r1", " ")})
	}
	return rep
}

func replay(v report.Violation) string {
	var sc scenario
	if err := checks.Decode(v.Params["scenario"], &sc); err != nil {
		return err.Error()
	}
	return osw.ReplayBFS(system(sc), v)
}

// twinScenarios: pausing the cluster-scoped kinds in lockstep with the namespaced ones.
func twinScenarios(quick bool) []twin.Scenario {
	out := []twin.Scenario{
		{Kind: "deployment", Classes: []string{"ready"}, Edits: 1, Pauses: 2, Limit: -1},
		{Kind: "chain", N: 2, Mask: 0b10, Classes: []string{"ready"}, Users: 2},
	}
	if !quick {
		out = append(out, twin.Scenario{Kind: "deployment", Classes: []string{"ready", "notready"}, Edits: 1, Pauses: 3, Limit: -1}, twin.Scenario{Kind: "chain", N: 2, Mask: 0b01, Classes: []string{"ready", "notready"}, Users: 2, Third: 1})
	}
	return out
}

func init() {
	checks.Register(&checks.Check{
		ID:    "C09",
		Level: "model_checking",
		Assumptions: []string{
			"'exactly the revisions the parent had paused' = those carrying the paused-by-parent marker (DESIGN.md C09 interpretation note)",
			"the Package -> ObjectDeployment pause propagation is checked in sub 'package' once the package harness exists; here ObjectDeployment, ObjectSet and phase level",
		},
		Subs: []*checks.Sub{{Name: "bfs", Shards: func(t string) int {
			if t == "thorough" {
				return 12
			}
			return 8
		}, Run: run, Replay: replay, Parallel: true},
			{Name: "decision", Shards: func(string) int { return 4 }, Run: runDecision, Replay: replayDecision},
			{Name: "package", Shards: func(string) int { return 3 }, Run: runPackage, Replay: replayPackage, Parallel: true},
			twin.Sub("C09", twinScenarios)},
	})
}
