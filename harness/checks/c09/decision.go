package c09

import (
	"fmt"
	"sort"
	"strings"

	"package-operator.run/internal/packages/zzverif/checks"
	"package-operator.run/internal/packages/zzverif/checks/c08"
	"package-operator.run/internal/packages/zzverif/kmodel"
	"package-operator.run/internal/packages/zzverif/osw"
	"package-operator.run/internal/packages/zzverif/report"
	"package-operator.run/internal/packages/zzverif/world"
)

// ---- pause propagation of the ObjectDeployment as a decision over pre-populated revision chains ----
//
// One real ObjectDeployment pass over every chain of 2-4 revisions whose members are Active,
// Paused (by the parent or by somebody else) or Archived in every position - including an
// archived revision between active ones - with the deployment paused or not.

func marked(c map[string]any) bool { return kmodel.Annotations(c)[pausedByParent] == "true" }

func judgePausePass(cc c08.ChainCase, before *kmodel.Store, pass *world.Pass, after *kmodel.Store) []world.Finding {
	var out []world.Finding
	bad := func(id, f string, a ...any) {
		out = append(out, world.Finding{Monitor: "pause-propagation", Identity: id, Message: fmt.Sprintf(f, a...)})
	}
	revs := osw.ObjectSetsOf(before, "d")
	completed := pass.Err == nil && !pass.Crashed
	for i, r := range pass.Reqs {
		if r.Key.Kind != "ObjectSet" || !r.IsWrite() || r.Err != nil {
			continue
		}
		if cc.ODPaused {
			switch {
			case r.Verb == "create":
				bad("revision-created-while-paused", "request #%d %s creates a revision although the deployment is paused", i, r)
			case r.Verb == "delete":
				bad("revision-deleted-while-paused", "request #%d %s deletes a revision although the deployment is paused", i, r)
			case r.Pre != nil && r.Post != nil && osw.Lifecycle(r.Post) == "Archived" && osw.Lifecycle(r.Pre) != "Archived":
				bad("revision-archived-while-paused", "request #%d %s archives a revision although the deployment is paused", i, r)
			}
			continue
		}
		// deployment not paused: only revisions the parent had paused may be released
		if r.Pre != nil && r.Post != nil && osw.Lifecycle(r.Pre) == "Paused" && osw.Lifecycle(r.Post) == "Active" && !marked(r.Pre) {
			bad("released-revision-not-paused-by-parent", "request #%d %s sets a revision Active that the parent had not paused", i, r)
		}
	}
	if !completed {
		return out
	}
	for _, k := range revs {
		pre := before.Objs[k].Content
		if osw.Lifecycle(pre) == "Archived" || kmodel.Terminating(pre) {
			continue
		}
		post := after.Objs[k]
		if post == nil {
			continue
		}
		if cc.ODPaused {
			if osw.Lifecycle(post.Content) != "Paused" {
				bad("revision-not-paused", "the deployment is paused but after its completed pass the non-archived revision %s (revision %d) has lifecycle %s", k.Name, osw.StatusRevision(pre), osw.Lifecycle(post.Content))
			}
			continue
		}
		if marked(pre) && osw.Lifecycle(pre) == "Paused" {
			released := false
			for _, r := range pass.Reqs {
				if r.Key == k && r.IsWrite() && r.Err == nil && r.Post != nil && !marked(r.Post) {
					released = true
				}
			}
			if !released {
				bad("revision-not-released", "the deployment is not paused but its completed pass did not release revision %s, which the parent had paused", k.Name)
			}
		}
	}
	return out
}

func pauseCases(quick bool) []c08.ChainCase {
	type st struct {
		lc     string
		marked bool
	}
	// ("Active", marked): somebody set a revision the parent had paused back to Active by hand, the mark stayed
	states := []st{{"Active", false}, {"Paused", true}, {"Paused", false}, {"Archived", false}, {"Active", true}}
	var out []c08.ChainCase
	maxN := 3
	if !quick {
		maxN = 4
	}
	for n := 2; n <= maxN; n++ {
		idx := make([]int, n)
		for {
			for _, odPaused := range []bool{true, false} {
				for _, newestAvail := range []bool{false, true} {
					for _, matches := range []bool{true, false} {
						cc := c08.ChainCase{Limit: -1, Matches: matches, ODPaused: odPaused}
						for pos, i := range idx {
							s := states[i]
							avail := pos == 0 || (pos == n-1 && newestAvail) // the oldest is serving, middle ones failed
							objs := "a"
							if pos == n-1 {
								objs = "ab"
							}
							cc.Revs = append(cc.Revs, c08.RevCfg{Lifecycle: s.lc, PausedOK: s.lc == "Paused", Available: avail && s.lc != "Archived", Objects: objs, Control: "none", PausedByParent: s.marked})
						}
						out = append(out, cc)
					}
				}
			}
			j := 0
			for ; j < n; j++ {
				idx[j]++
				if idx[j] < len(states) {
					break
				}
				idx[j] = 0
			}
			if j == n {
				break
			}
		}
	}
	return out
}

func judgePauseCase(cc c08.ChainCase) ([]world.Finding, string, []string) {
	w := c08.BuildChain(cc)
	before := w.S.Clone()
	pass := w.Reconcile(world.CtrlObjectDeployment, osw.NN("d"), nil)
	if pass.Panic != "" {
		return []world.Finding{{Monitor: "no-panic", Identity: "panic", Message: pass.Panic}}, "panic", pass.Trace()
	}
	var acts []string
	for _, r := range pass.Reqs {
		if r.IsWrite() && r.Key.Kind == "ObjectSet" && r.Err == nil && r.Pre != nil && r.Post != nil && osw.Lifecycle(r.Pre) != osw.Lifecycle(r.Post) {
			acts = append(acts, osw.Lifecycle(r.Pre)+"->"+osw.Lifecycle(r.Post))
		}
	}
	sort.Strings(acts)
	return judgePausePass(cc, before, pass, w.S), fmt.Sprintf("paused=%v %s", cc.ODPaused, strings.Join(acts, ",")), pass.Trace()
}

func runDecision(o checks.Opts) *report.Report {
	rep := report.New("C09", "decision")
	rep.Rule = "one real ObjectDeployment pass over every pre-populated chain of 2-3 (thorough: 2-4) revisions, each Active / Paused by the parent / Paused by somebody else / Archived / set back to Active by hand with the parent's mark still on it, in every position (so also an archived revision between active ones), the newest available or not and matching the template or not, with the deployment paused and not paused: paused => after a completed pass every non-archived revision is Paused and no revision is created, archived or deleted; not paused => exactly the revisions carrying the paused-by-parent mark are released and no other revision is set Active; distinct = (paused, lifecycle changes)"
	cases := pauseCases(o.Quick())
	rep.Bounds["cases"] = len(cases)
	for i, cc := range cases {
		if o.Shards > 1 && i%o.Shards != o.Shard {
			continue
		}
		f, out, trace := judgePauseCase(cc)
		rep.Executions++
		rep.ImplTraces++
		rep.Transitions++
		rep.Outcomes[out]++
		seen := map[string]bool{}
		for _, x := range f {
			if seen[x.Identity] {
				continue
			}
			seen[x.Identity] = true
			rep.AddViolation(report.Violation{Identity: x.Identity, Message: x.Message + fmt.Sprintf("\ncase: %+v", cc), Params: map[string]any{"case": cc}, Trace: trace})
		}
		if o.Shard == 0 && len(rep.Samples) < 2 && i%101 == 0 {
			rep.Samples = append(rep.Samples, map[string]any{"case": cc, "actions": out})
		}
	}
	rep.States = rep.Executions
	return rep
}

func replayDecision(v report.Violation) string {
	var cc c08.ChainCase
	if err := checks.Decode(v.Params["case"], &cc); err != nil {
		return err.Error()
	}
	f, _, trace := judgePauseCase(cc)
	for _, l := range trace {
		fmt.Println(l)
	}
	var s []string
	for _, x := range f {
		s = append(s, x.Message)
	}
	return strings.Join(s, "\n")
}
