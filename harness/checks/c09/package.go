package c09

import (
	"strings"

	"package-operator.run/internal/packages/zzverif/checks"
	"package-operator.run/internal/packages/zzverif/checks/c16"
	"package-operator.run/internal/packages/zzverif/osw"
	"package-operator.run/internal/packages/zzverif/report"
	"package-operator.run/internal/packages/zzverif/world"
)

// ---- "pausing a Package pauses its ObjectDeployment" over the real Package controller ----
//
// The Package-level systems of C16 (Package created paused or not, paused / unpaused by the
// user, edited, its ObjectDeployment deleted by a third party) with the pause clauses of that
// monitor: a paused Package is not pulled or re-rendered, its ObjectDeployment's template is
// not changed, and after a completed pass an existing ObjectDeployment is paused.

func pauseSystems(quick bool) []*world.System {
	var out []*world.System
	for _, sys := range c16.PauseSystems(quick) {
		inner := sys.Check
		sys.Check = func(before *world.World, ev world.Event, pass *world.Pass, after *world.World) []world.Finding {
			var keep []world.Finding
			for _, f := range inner(before, ev, pass, after) {
				if strings.HasPrefix(f.Identity, "paused-") {
					keep = append(keep, f)
				}
			}
			return keep
		}
		out = append(out, sys)
	}
	return out
}

func runPackage(o checks.Opts) *report.Report {
	rep := report.New("C09", "package")
	rep.Rule = "explicit-state BFS over the real Package controller with a scripted registry: a Package created paused or not, paused / unpaused by the user, its image edited, its ObjectDeployment deleted by a third party, reconciled at any time; on every Package pass while spec.paused: no registry pull, no change of the ObjectDeployment's template, and after a completed pass an existing ObjectDeployment has spec.paused=true"
	syss := pauseSystems(o.Quick())
	rep.Bounds["systems"] = len(syss)
	for i, sys := range syss {
		if o.Shards > 1 && i%o.Shards != o.Shard {
			continue
		}
		sys.MaxStates = 200000
		osw.RunBFS(rep, sys, map[string]any{"system": i})
	}
	return rep
}

func replayPackage(v report.Violation) string {
	i, _ := v.Params["system"].(float64)
	syss := pauseSystems(false)
	if int(i) >= len(syss) {
		return "unknown system"
	}
	return osw.ReplayBFS(syss[int(i)], v)
}
