// Package c10 checks property C10 (reconciliation converges from any crash, fault or drift to
// the clean-run outcome) by fault enumeration: for every API call of every reconcile pass of a
// scenario's reference run, each fault kind (error before effect, effect with lost response,
// process crash losing the dynamic cache) is injected, the run continues under a fair schedule
// to quiescence and the projected end state is compared with the undisturbed one; likewise
// for third-party drift injected at every step.
package c10

import (
	"fmt"
	"sort"
	"strings"

	metav1 "k8s.io/apimachinery/pkg/apis/meta/v1"

	corev1alpha1 "package-operator.run/apis/core/v1alpha1"
	"package-operator.run/internal/apis/manifests"
	"package-operator.run/internal/packages/zzverif/checks"
	"package-operator.run/internal/packages/zzverif/kmodel"
	"package-operator.run/internal/packages/zzverif/osw"
	"package-operator.run/internal/packages/zzverif/pkgw"
	"package-operator.run/internal/packages/zzverif/report"
	"package-operator.run/internal/packages/zzverif/world"
)

const horizon = 50

// injection is one disturbance of the reference run.
type injection struct {
	Round int             `json:"round"`
	Pass  int             `json:"pass"`
	Req   int             `json:"request"`
	Fault world.FaultKind `json:"fault"`
	Drift string          `json:"drift,omitempty"` // applied before round `Round` instead of a fault
	// second fault (thorough): relative to the faulted run
	Next *injection `json:"next,omitempty"`
}

func (in *injection) String() string {
	if in == nil {
		return "none"
	}
	s := ""
	if in.Drift != "" {
		s = fmt.Sprintf("drift %s before round %d", in.Drift, in.Round)
	} else {
		s = fmt.Sprintf("%s at round %d pass %d request %d", in.Fault, in.Round, in.Pass, in.Req)
	}
	if in.Next != nil {
		s += " + " + in.Next.String()
	}
	return s
}

type passInfo struct {
	Spec osw.PassSpec
	Reqs int
}

type runResult struct {
	Quiescent bool
	Rounds    int
	Proj      string
	Shape     [][]passInfo // per round
	Trace     []string
	Panic     string
	// Unwatched: at the end of the run, managed objects whose controller (ObjectSet,
	// ObjectSetPhase, ObjectTemplate) is not registered in the dynamic cache as a watcher of the
	// object's kind: a later third-party edit of such an object would wake nobody up
	Unwatched []string
}

// scenario
type scenario struct {
	Name string
	Init func() *world.World
	// DriftTargets: keys a third party may disturb
	DriftTargets func(w *world.World) []kmodel.Key
	// LooseHistory: several hand-made revisions stay active at once (nothing archives them), so
	// which intermediate revision ever controlled an object - its plain owner entries - and whether
	// an intermediate revision recorded Succeeded are records of the history, not of the outcome.
	LooseHistory bool
	// PhaseDrift: additionally delete ObjectSetPhase objects as drift
	PhaseDrift bool
	// Later, when set, is a change of the desired state the user makes at the start of round
	// LaterRound in every run (so that disturbances before it are repaired first and the
	// change then meets the repaired state)
	Later      func(w *world.World)
	LaterRound int
	// NoDriftFrom: no drift is injected from this round on (e.g. because the user pauses the
	// ObjectSet then, and a paused ObjectSet legitimately leaves drift alone); 0 = no limit
	NoDriftFrom int
	// ExtraDrifts: further drift kinds injected in this scenario only
	ExtraDrifts []string
	// OnlyExtraDrifts: the general drift kinds are not injected (the managed objects belong to a
	// paused revision, which legitimately leaves drift on them alone)
	OnlyExtraDrifts bool
	// ExpectController: what "the clean-run outcome" is, where the scenario makes it plain:
	// managed object name -> revision rank that controls it at the end of the undisturbed run
	// (the newest revision listing it). A differential alone would accept a clean run that is
	// itself stuck.
	ExpectController map[string]int
}

func ready(w *world.World) {
	for _, k := range w.S.SortedKeys() {
		if k.Group == world.TestGroup {
			o := w.S.Objs[k]
			if !kmodel.Terminating(o.Content) && osw.StatusClass(o.Content) != "ready" {
				_ = w.SetStatus(k, osw.StatusFor(o.Content, "ready"))
			}
		}
	}
}

// ownership edits (stripping or replacing owner references) are not drift in C10's sense: an object
// without the owner's reference is a foreign object and C01 forbids taking it back unasked.
var driftKinds = []string{"delete", "modify-spec", "drop-cache-label", "lower-revision"}

func applyDrift(w *world.World, sc scenario, d string) bool {
	kind, idx, _ := strings.Cut(d, "#")
	targets := sc.DriftTargets(w)
	if kind == "activate-revision" {
		// a third party sets a revision's lifecycleState back to Active (whatever else is on it stays)
		targets = nil
		for _, k := range w.S.SortedKeys() {
			if k.Kind == "ObjectSet" && k.Group == "package-operator.run" {
				targets = append(targets, k)
			}
		}
	}
	if kind == "delete-phase-object" {
		// the t-th ObjectSetPhase that exists at that moment (a managed object of the ObjectSet)
		targets = nil
		for _, k := range w.S.SortedKeys() {
			if k.Kind == "ObjectSetPhase" && k.Group == "package-operator.run" {
				targets = append(targets, k)
			}
		}
		kind = "delete"
	}
	var n int
	fmt.Sscan(idx, &n)
	if n >= len(targets) {
		return false
	}
	k := targets[n]
	if w.S.Objs[k] == nil {
		return false
	}
	switch kind {
	case "delete":
		_ = w.S.Delete(k, kmodel.DeleteOpts{})
	case "modify-spec":
		_ = w.Edit(k, func(c map[string]any) {
			if sp, ok := c["spec"].(map[string]any); ok {
				sp["x"] = int64(99)
			}
		})
	case "strip-owners":
		_ = w.Edit(k, func(c map[string]any) { delete(c["metadata"].(map[string]any), "ownerReferences") })
	case "drop-cache-label":
		_ = w.Edit(k, func(c map[string]any) {
			if l, ok := c["metadata"].(map[string]any)["labels"].(map[string]any); ok {
				delete(l, "package-operator.run/cache")
			}
		})
	case "add-label":
		_ = w.Edit(k, func(c map[string]any) {
			m := c["metadata"].(map[string]any)
			l, _ := m["labels"].(map[string]any)
			if l == nil {
				l = map[string]any{}
				m["labels"] = l
			}
			l["third-party"] = "yes"
		})
	case "append-list":
		// a third party appends an entry to a list the manifest spells out
		sp, _ := w.S.Objs[k].Content["spec"].(map[string]any)
		if _, ok := sp["list"].([]any); !ok {
			return false
		}
		_ = w.Edit(k, func(c map[string]any) {
			sp := c["spec"].(map[string]any)
			sp["list"] = append(sp["list"].([]any), "appended-by-third-party")
		})
	case "fill-empty":
		// a third party sets fields the manifest declares empty
		sp, _ := w.S.Objs[k].Content["spec"].(map[string]any)
		if _, ok := sp["empty"]; !ok {
			return false
		}
		_ = w.Edit(k, func(c map[string]any) {
			sp := c["spec"].(map[string]any)
			sp["empty"] = "filled-by-third-party"
			sp["emptyList"] = []any{"x"}
		})
	case "activate-revision":
		if osw.Lifecycle(w.S.Objs[k].Content) != "Paused" {
			return false
		}
		_ = w.Edit(k, func(c map[string]any) { c["spec"].(map[string]any)["lifecycleState"] = "Active" })
	case "lower-revision":
		_ = w.Edit(k, func(c map[string]any) {
			if a, ok := c["metadata"].(map[string]any)["annotations"].(map[string]any); ok {
				if _, has := a[world.RevisionAnnotation]; has {
					a[world.RevisionAnnotation] = "0"
				}
			}
		})
	}
	return true
}

// execute runs the scenario under the fair schedule with the given injection.
func execute(sc scenario, in *injection, keepTrace bool) runResult {
	w := sc.Init()
	w.LongLived() // one operator process across the passes; a crash restarts it (empty memory)
	res := runResult{}
	pending := in
	for r := 0; r < horizon; r++ {
		disturbed := false
		for pending != nil && pending.Drift != "" && pending.Round == r {
			applyDrift(w, sc, pending.Drift)
			pending = pending.Next
			disturbed = true
		}
		if sc.Later != nil && r == sc.LaterRound {
			sc.Later(w)
			disturbed = true
		}
		before := w.Canon()
		var shape []passInfo
		for pi, ps := range osw.RoundPasses(w) {
			var plan *world.Plan
			if pending != nil && pending.Drift == "" && pending.Round == r && pending.Pass == pi {
				plan = &world.Plan{FaultAt: pending.Req, Fault: pending.Fault}
				pending = pending.Next
				disturbed = true
			}
			p := w.Reconcile(ps.Ctrl, osw.NN(ps.Name), plan)
			if p.Panic != "" && res.Panic == "" {
				res.Panic = p.Panic
			}
			shape = append(shape, passInfo{ps, len(p.Reqs)})
			if keepTrace {
				res.Trace = append(res.Trace, fmt.Sprintf("-- round %d pass %d", r, pi))
				res.Trace = append(res.Trace, p.Trace()...)
			}
		}
		// an injection addressed to a pass that did not take place in its round (the object it was
		// aimed at is gone by then) cannot happen any more
		for pending != nil && pending.Drift == "" && pending.Round <= r {
			pending = pending.Next
		}
		res.Shape = append(res.Shape, shape)
		ready(w)
		w.GC()
		res.Rounds = r + 1
		// quiescent = a complete undisturbed round changed nothing
		if pending == nil && !disturbed && w.Canon() == before && (sc.Later == nil || r > sc.LaterRound) {
			res.Quiescent = true
			break
		}
	}
	res.Proj = project(w, sc.LooseHistory)
	res.Unwatched = unwatched(w)
	// at quiescence a further round must not send any state-changing request
	if res.Quiescent {
		for _, ps := range osw.RoundPasses(w) {
			p := w.Reconcile(ps.Ctrl, osw.NN(ps.Name), nil)
			for _, rq := range p.Reqs {
				if rq.Changed() {
					res.Quiescent = false
					res.Proj += fmt.Sprintf("NOT QUIESCENT: %s still changes state\n", rq)
				}
			}
		}
	}
	return res
}

// project renders the end state as the statement lists it.
func project(w *world.World, loose bool) string {
	// ObjectSet names -> revision rank
	type osr struct {
		name string
		rev  int64
	}
	var sets []osr
	for _, k := range w.S.SortedKeys() {
		if k.Kind == "ObjectSet" && k.Group == "package-operator.run" {
			sets = append(sets, osr{k.Name, osw.StatusRevision(w.S.Objs[k].Content)})
		}
	}
	sort.SliceStable(sets, func(i, j int) bool { return sets[i].rev < sets[j].rev })
	rename := func(s string) string {
		// longest names first so that prefixes do not clash
		byLen := append([]osr{}, sets...)
		sort.SliceStable(byLen, func(i, j int) bool { return len(byLen[i].name) > len(byLen[j].name) })
		for _, o := range byLen {
			rank := 0
			for i, x := range sets {
				if x.name == o.name {
					rank = i + 1
				}
			}
			s = strings.ReplaceAll(s, o.name, fmt.Sprintf("<os#%d>", rank))
		}
		return s
	}
	var sb strings.Builder
	for _, k := range w.S.SortedKeys() {
		c := w.S.Objs[k].Content
		switch {
		case k.Group == world.TestGroup:
			var owners []string
			for _, o := range world.Owners(c, false) {
				if loose && !o.Controller {
					continue
				}
				owners = append(owners, fmt.Sprintf("%s/%s ctrl=%v", o.Kind, o.Name, o.Controller))
			}
			sort.Strings(owners)
			sp, _ := c["spec"].(map[string]any)
			l := kmodel.Labels(c)
			fmt.Fprintf(&sb, "%s spec=%s rev=%s owners=%v labels=%v terminating=%v\n", k, kmodel.Digest(sp), kmodel.Annotations(c)[world.RevisionAnnotation], owners, sortedMap(l), kmodel.Terminating(c))
		case k.Group == "package-operator.run" && (k.Kind == "ObjectSet" || k.Kind == "ObjectDeployment" || k.Kind == "Package" || k.Kind == "ObjectTemplate" || k.Kind == "ObjectSetPhase"):
			st, _ := c["status"].(map[string]any)
			l, _ := st["conditions"].([]any)
			archived := osw.Lifecycle(c) == "Archived"
			var conds []string
			for _, e := range l {
				m, _ := e.(map[string]any)
				if (archived || loose) && m["type"] == "Succeeded" {
					continue // a record of history; legitimately differs after delays (DESIGN.md C10)
				}
				if m["type"] == "Progressing" || k.Kind == "Package" && m["type"] == "Unpacked" {
					conds = append(conds, fmt.Sprintf("%v=%v", m["type"], m["status"]))
					continue
				}
				conds = append(conds, fmt.Sprintf("%v=%v/%v", m["type"], m["status"], m["reason"]))
			}
			sort.Strings(conds)
			fmt.Fprintf(&sb, "%s lifecycle=%s terminating=%v conditions=%v controllerOf=%v\n", k, osw.Lifecycle(c), kmodel.Terminating(c), conds, osw.ControllerOfList(c))
		}
	}
	return rename(sb.String())
}

// unwatched lists the live managed objects whose controller is a live package-operator object
// that the dynamic cache does not list as a watcher of the object's kind.
func unwatched(w *world.World) []string {
	var out []string
	for _, k := range w.S.SortedKeys() {
		if k.Group != world.TestGroup {
			continue
		}
		c := w.S.Objs[k].Content
		if kmodel.Terminating(c) {
			continue
		}
		for _, o := range world.Owners(c, false) {
			if !o.Controller || o.Group != "package-operator.run" {
				continue
			}
			ok := w.S.Objs[world.PKOKey(o.Kind, k.Namespace, o.Name)]
			if ok == nil || kmodel.Terminating(ok.Content) || string(kmodel.UID(ok.Content)) != string(o.UID) {
				continue
			}
			if o.Kind == "ObjectSet" && osw.Lifecycle(ok.Content) != "Active" && osw.Lifecycle(ok.Content) != "" {
				continue // paused / archived owners are not expected to repair anything
			}
			found := false
			for gvk, l := range w.Refs {
				if gvk.Kind != k.Kind || gvk.Group != k.Group {
					continue
				}
				for _, r := range l {
					if string(r.UID) == string(o.UID) {
						found = true
					}
				}
			}
			if !found {
				out = append(out, fmt.Sprintf("%s (controller %s/%s)", k, o.Kind, o.Name))
			}
		}
	}
	return out
}

func sortedKeys(m map[string]int) []string {
	var out []string
	for k := range m {
		out = append(out, k)
	}
	sort.Strings(out)
	return out
}

func sortedMap(m map[string]string) []string {
	var out []string
	for k, v := range m {
		out = append(out, k+"="+v)
	}
	sort.Strings(out)
	return out
}

// ---- scenarios ----

func testObjects(w *world.World) []kmodel.Key {
	var out []kmodel.Key
	for _, k := range w.S.SortedKeys() {
		if k.Group == world.TestGroup {
			out = append(out, k)
		}
	}
	return out
}

func settle(w *world.World) {
	for r := 0; r < horizon; r++ {
		before := w.Canon()
		for _, ps := range osw.RoundPasses(w) {
			w.Reconcile(ps.Ctrl, osw.NN(ps.Name), nil)
		}
		ready(w)
		w.GC()
		if w.Canon() == before {
			return
		}
	}
	panic("c10: pre-stage did not settle")
}

func scenarios() []scenario {
	pkgImages := map[string]map[string]string{
		"v1": pkgFiles([]string{"a", "b"}), "v2": pkgFiles([]string{"a", "c"}),
	}
	return []scenario{
		{Name: "S1 single ObjectSet, two local phases", Init: func() *world.World {
			w := osw.NewWorld()
			w.MustCreate(world.NewObjectSet("r1", osw.PhaseSpecs(osw.B1(2, 0), 1), world.StdProbes()))
			return w
		}, DriftTargets: testObjects},
		{Name: "S1d single ObjectSet, second phase delegated", Init: func() *world.World {
			w := osw.NewWorld()
			w.MustCreate(world.NewObjectSet("r1", osw.PhaseSpecs(osw.B1(2, 0b10), 1), world.StdProbes()))
			return w
		}, DriftTargets: testObjects, PhaseDrift: true},
		{Name: "S2 ObjectDeployment T1{a,b} -> T2{a,c}", Init: func() *world.World {
			w := osw.NewWorld()
			w.MustCreate(osw.NewOD("d", osw.Template(osw.OnePhase("a", "b"), 1), nil))
			settle(w)
			osw.SetODTemplate(w, "d", osw.Template(osw.OnePhase("a", "c"), 2))
			return w
		}, DriftTargets: testObjects},
		{Name: "S8 ObjectDeployment T1{a} -> T2{a,c} (complete takeover: the old revision controls nothing when archived)", Init: func() *world.World {
			w := osw.NewWorld()
			w.MustCreate(osw.NewOD("d", osw.Template(osw.OnePhase("a"), 1), nil))
			settle(w)
			osw.SetODTemplate(w, "d", osw.Template(osw.OnePhase("a", "c"), 2))
			return w
		}, DriftTargets: testObjects},
		{Name: "S3 ObjectDeployment T1 -> T2 with a delegated phase", Init: func() *world.World {
			w := osw.NewWorld()
			t1 := osw.OnePhase("a", "b")
			t1[0].Delegated = true
			t2 := osw.OnePhase("a", "c")
			t2[0].Delegated = true
			w.MustCreate(osw.NewOD("d", osw.Template(t1, 1), nil))
			settle(w)
			osw.SetODTemplate(w, "d", osw.Template(t2, 2))
			return w
		}, DriftTargets: testObjects, PhaseDrift: true},
		{Name: "S9 ObjectDeployment T1 with a delegated phase, disturbed, then edited to T2 six rounds later", Init: func() *world.World {
			w := osw.NewWorld()
			t1 := osw.OnePhase("a", "b")
			t1[0].Delegated = true
			w.MustCreate(osw.NewOD("d", osw.Template(t1, 1), nil))
			settle(w)
			return w
		}, DriftTargets: testObjects, PhaseDrift: true, LaterRound: 6, Later: func(w *world.World) {
			t2 := osw.OnePhase("a", "c")
			t2[0].Delegated = true
			osw.SetODTemplate(w, "d", osw.Template(t2, 2))
		}},
		{Name: "S10 single ObjectSet (Widget and Gadget objects), paused by the user in round 3", Init: func() *world.World {
			w := osw.NewWorld()
			w.MustCreate(world.NewObjectSet("r1", osw.PhaseSpecs(osw.B1(2, 0), 1), world.StdProbes()))
			return w
		}, DriftTargets: testObjects, LaterRound: 3, NoDriftFrom: 2, Later: func(w *world.World) { osw.SetLifecycle(w, "r1", "Paused") }},
		{Name: "S11 single ObjectSet with a delegated phase, paused by the user in round 4", Init: func() *world.World {
			w := osw.NewWorld()
			w.MustCreate(world.NewObjectSet("r1", osw.PhaseSpecs(osw.B1(2, 0b10), 1), world.StdProbes()))
			return w
		}, DriftTargets: testObjects, LaterRound: 4, NoDriftFrom: 2, Later: func(w *world.World) { osw.SetLifecycle(w, "r1", "Paused") }},
		{Name: "S4 teardown of a rolled-out ObjectSet", Init: func() *world.World {
			w := osw.NewWorld()
			w.MustCreate(world.NewObjectSet("r1", osw.PhaseSpecs(osw.B1(2, 0), 1), world.StdProbes()))
			settle(w)
			_ = w.S.Delete(osw.OSKey("r1"), kmodel.DeleteOpts{})
			return w
		}, DriftTargets: testObjects},
		{Name: "S7 hand-made chain r1{a,b} <- r2{a,b,c} <- r3{a,c,d}", Init: func() *world.World {
			w := osw.NewWorld()
			w.MustCreate(world.NewObjectSet("r1", osw.PhaseSpecs(osw.OnePhase("a", "b"), 1), nil))
			w.MustCreate(world.NewObjectSet("r2", osw.PhaseSpecs(osw.OnePhase("a", "b", "c"), 2), nil, "r1"))
			w.MustCreate(world.NewObjectSet("r3", osw.PhaseSpecs(osw.OnePhase("a", "c", "d"), 3), nil, "r1", "r2"))
			return w
		}, DriftTargets: testObjects, LooseHistory: true, ExpectController: map[string]int{"a": 3, "b": 2, "c": 3, "d": 3}},
		{Name: "S12 hand-made chain r1{a,b} <- r2{a,b,c}, collisionProtection None on every object", Init: func() *world.World {
			w := osw.NewWorld()
			none := func(ps []world.PhaseSpec) []world.PhaseSpec {
				for pi := range ps {
					for oi := range ps[pi].Objects {
						ps[pi].Objects[oi].CollisionProtection = corev1alpha1.CollisionProtectionNone
					}
				}
				return ps
			}
			w.MustCreate(world.NewObjectSet("r1", none(osw.PhaseSpecs(osw.OnePhase("a", "b"), 1)), nil))
			w.MustCreate(world.NewObjectSet("r2", none(osw.PhaseSpecs(osw.OnePhase("a", "b", "c"), 2)), nil, "r1"))
			return w
		}, DriftTargets: testObjects, LooseHistory: true},
		{Name: "S13 single ObjectSet whose objects spell out a list and fields with empty values", Init: func() *world.World {
			w := osw.NewWorld()
			ps := osw.PhaseSpecs(osw.B1(2, 0), 1)
			for pi := range ps {
				for oi := range ps[pi].Objects {
					sp := ps[pi].Objects[oi].Object.Object["spec"].(map[string]any)
					sp["list"] = []any{"first", "second"}
					sp["empty"] = ""
					sp["emptyList"] = []any{}
				}
			}
			w.MustCreate(world.NewObjectSet("r1", ps, world.StdProbes()))
			return w
		}, DriftTargets: testObjects, ExtraDrifts: []string{"append-list", "fill-empty"}},
		{Name: "S14 paused ObjectDeployment T1{a,b}: a third party sets its paused revision back to Active", Init: func() *world.World {
			w := osw.NewWorld()
			w.MustCreate(osw.NewOD("d", osw.Template(osw.OnePhase("a", "b"), 1), nil))
			settle(w)
			osw.SetODPaused(w, "d", true)
			return w
		}, DriftTargets: testObjects, ExtraDrifts: []string{"activate-revision"}, OnlyExtraDrifts: true},
		{Name: "S5 ObjectTemplate with one source", Init: func() *world.World {
			w := osw.NewWorld()
			src := world.Obj("Gadget", world.NS, "s1", nil)
			src.Object["data"] = map[string]any{"x": "1"}
			w.MustCreate(src)
			w.MustCreate(&corev1alpha1.ObjectTemplate{ObjectMeta: metav1.ObjectMeta{Name: "t", Namespace: world.NS},
				Spec: corev1alpha1.ObjectTemplateSpec{Template: "apiVersion: verif.example/v1\nkind: Widget\nmetadata:\n  name: out\nspec:\n  x: \"{{ .config.v }}\"\n",
					Sources: []corev1alpha1.ObjectTemplateSource{{APIVersion: "verif.example/v1", Kind: "Gadget", Name: "s1", Items: []corev1alpha1.ObjectTemplateSourceItem{{Key: ".data.x", Destination: ".v"}}}}}})
			return w
		}, DriftTargets: func(w *world.World) []kmodel.Key { return []kmodel.Key{world.KeyOf("Widget", world.NS, "out")} }},
		{Name: "S6 Package v1{a,b} -> v2{a,c} with sliced phases", Init: func() *world.World {
			w := osw.NewWorld()
			w.Pkg = &world.PackageEnv{Images: pkgImages, Env: manifests.PackageEnvironment{Kubernetes: manifests.PackageEnvironmentKubernetes{Version: "v1.27.0"}}}
			w.MustCreate(&corev1alpha1.Package{ObjectMeta: metav1.ObjectMeta{Name: "p", Namespace: world.NS, Annotations: map[string]string{"packages.package-operator.run/chunking-strategy": "EachObject"}},
				Spec: corev1alpha1.PackageSpec{Image: "v1"}})
			settle(w)
			_ = w.Edit(world.PKOKey("Package", world.NS, "p"), func(c map[string]any) { c["spec"].(map[string]any)["image"] = "v2" })
			return w
		}, DriftTargets: testObjects},
	}
}

func pkgFiles(names []string) map[string]string {
	files := map[string]string{"manifest.yaml": pkgw.Manifest{Name: "app", Phases: []string{"p1", "p2"}, Probes: true}.YAML()}
	for i, n := range names {
		ph := "p1"
		if i > 0 {
			ph = "p2"
		}
		files[n+".yaml"] = pkgw.WidgetYAML("Widget", n, ph, "1", nil)
	}
	return files
}

func identityOf(sc scenario, in *injection, msg string) string {
	what := "fault"
	if in != nil && in.Drift != "" {
		what = "drift " + strings.SplitN(in.Drift, "#", 2)[0]
	} else if in != nil {
		what = in.Fault.String()
	}
	kind := "different-end-state"
	if strings.Contains(msg, "nobody watches") {
		kind = "unwatched-managed-object"
	}
	if strings.Contains(msg, "did not become quiescent") {
		kind = "no-quiescence"
	} else if strings.Contains(msg, "panic") {
		kind = "panic"
	}
	return fmt.Sprintf("%s after %s in %s", kind, what, strings.SplitN(sc.Name, " ", 2)[0])
}

func run(o checks.Opts) *report.Report {
	rep := report.New("C10", "faults")
	rep.Rule = "per scenario: reference run under the fair schedule (rounds of all reconciles in canonical order, workloads becoming ready, garbage collector) to quiescence gives the projected end state E*; then for EVERY request of EVERY pass of the reference run x {error before effect, effect with lost response, crash + restart with empty dynamic cache, another actor's write to the call's target landing just before the call} and for every third-party drift {delete, modify spec, strip owners, drop cache label, lower revision} x managed object x round (for scenarios with delegated phases also deletion of each ObjectSetPhase object; scenario S9 changes the desired state six rounds in, so that earlier disturbances are repaired first and the change meets the repaired state): inject, continue fairly to quiescence (horizon 50 rounds), require projection == E* and a further round with zero state-changing requests; thorough adds pairs of faults; distinct = (scenario, rounds needed)"
	scs := scenarios()
	rep.Bounds["scenarios"] = len(scs)
	n := 0
	for _, sc := range scs {
		ref := execute(sc, nil, false)
		if ref.Quiescent {
			for _, name := range sortedKeys(sc.ExpectController) {
				want := fmt.Sprintf("ObjectSet/<os#%d> ctrl=true", sc.ExpectController[name])
				found := false
				for _, l := range strings.Split(ref.Proj, "\n") {
					if strings.Contains(l, "/"+name+" spec=") && strings.Contains(l, want) {
						found = true
					}
				}
				if !found {
					rep.AddViolation(report.Violation{Identity: "clean-run-outcome-wrong " + strings.SplitN(sc.Name, " ", 2)[0], Message: fmt.Sprintf("the undisturbed run of %s became quiescent, but object %s is not controlled by revision #%d (the newest revision listing it):\n%s", sc.Name, name, sc.ExpectController[name], ref.Proj)})
					break
				}
			}
		}
		if ref.Quiescent && len(ref.Unwatched) > 0 {
			rep.AddViolation(report.Violation{Identity: "reference-run-unwatched " + sc.Name, Message: fmt.Sprintf("after the undisturbed run of %s nobody watches %v", sc.Name, ref.Unwatched)})
		}
		if !ref.Quiescent {
			rep.AddViolation(report.Violation{Identity: "reference-run-not-quiescent " + sc.Name, Message: "the undisturbed run of " + sc.Name + " did not become quiescent within the horizon:\n" + ref.Proj})
			continue
		}
		if o.Shard == 0 {
			rep.Samples = append(rep.Samples, map[string]any{"scenario": sc.Name, "reference_rounds": ref.Rounds, "end_state": strings.Split(strings.TrimSpace(ref.Proj), "\n")})
		}
		var injs []*injection
		for r, shape := range ref.Shape {
			for pi, p := range shape {
				for i := 0; i < p.Reqs; i++ {
					for _, fk := range []world.FaultKind{world.ErrBefore, world.LostResponse, world.Crash, world.ForeignWrite} {
						injs = append(injs, &injection{Round: r, Pass: pi, Req: i, Fault: fk})
					}
				}
			}
			probe := sc.Init()
			nt := len(sc.DriftTargets(probe))
			if nt == 0 {
				nt = 3
			}
			if sc.NoDriftFrom > 0 && r >= sc.NoDriftFrom {
				continue
			}
			for t := 0; t < nt+1; t++ {
				kinds := append(append([]string{}, driftKinds...), sc.ExtraDrifts...)
				if sc.OnlyExtraDrifts {
					kinds = sc.ExtraDrifts
				}
				for _, dk := range kinds {
					injs = append(injs, &injection{Round: r, Drift: fmt.Sprintf("%s#%d", dk, t)})
				}
			}
			if sc.PhaseDrift {
				for t := 0; t < 2; t++ {
					injs = append(injs, &injection{Round: r, Drift: fmt.Sprintf("delete-phase-object#%d", t)})
				}
			}
		}
		if !o.Quick() && sc.NoDriftFrom == 0 {
			// (not in the scenarios that pause the ObjectSet in a fixed round: two faults in a row can
			// hold the rollout up until the pause arrives, and a paused ObjectSet legitimately stays
			// where it is - the pause then meets an unrepaired state, which is not what they are about)
			// pairs: a second fault two rounds after each first fault (sampled positions: every 3rd)
			base := len(injs)
			for i := 0; i < base; i += 3 {
				f := injs[i]
				if f.Drift != "" {
					continue
				}
				for _, fk := range []world.FaultKind{world.ErrBefore, world.LostResponse, world.Crash} {
					for req := 0; req < 6; req += 2 {
						cp := *f
						cp.Next = &injection{Round: f.Round + 1, Pass: 0, Req: req, Fault: fk}
						injs = append(injs, &cp)
					}
				}
			}
		}
		rep.Bounds["injections "+strings.SplitN(sc.Name, " ", 2)[0]] = len(injs)
		for _, in := range injs {
			n++
			if o.Shards > 1 && n%o.Shards != o.Shard {
				continue
			}
			res := execute(sc, in, false)
			rep.Executions++
			rep.ImplTraces++
			rep.Transitions += int64(res.Rounds)
			rep.Outcomes[fmt.Sprintf("%s rounds=%d", strings.SplitN(sc.Name, " ", 2)[0], res.Rounds)]++
			msg := ""
			switch {
			case res.Panic != "":
				msg = "panic after " + in.String() + ":\n" + res.Panic
			case !res.Quiescent:
				msg = fmt.Sprintf("after %s the system did not become quiescent within %d rounds (controllers keep changing state)\n%s", in, horizon, res.Proj)
			case res.Proj != ref.Proj:
				msg = fmt.Sprintf("after %s the end state differs from the undisturbed run:\n--- undisturbed\n%s--- disturbed\n%s", in, ref.Proj, res.Proj)
			case len(res.Unwatched) > 0:
				msg = fmt.Sprintf("after %s the system is quiescent but nobody watches %v: a later third-party edit of these objects would never be repaired", in, res.Unwatched)
			}
			if msg != "" {
				rep.AddViolation(report.Violation{Identity: identityOf(sc, in, msg), Message: msg + "\nscenario: " + sc.Name, Params: map[string]any{"scenario": sc.Name, "injection": in}})
			}
		}
	}
	rep.States = rep.Executions
	return rep
}

func replay(v report.Violation) string {
	name, _ := v.Params["scenario"].(string)
	var in injection
	if err := checks.Decode(v.Params["injection"], &in); err != nil {
		return err.Error()
	}
	for _, sc := range scenarios() {
		if sc.Name == name {
			ref := execute(sc, nil, false)
			res := execute(sc, &in, true)
			for _, l := range res.Trace {
				fmt.Println(l)
			}
			if !res.Quiescent {
				return "not quiescent:\n" + res.Proj
			}
			if res.Proj != ref.Proj {
				return "end state differs:\n--- undisturbed\n" + ref.Proj + "--- disturbed\n" + res.Proj
			}
			if len(res.Unwatched) > 0 {
				return fmt.Sprintf("quiescent, but nobody watches %v", res.Unwatched)
			}
			return ""
		}
	}
	return "unknown scenario"
}

func init() {
	checks.Register(&checks.Check{
		ID:    "C10",
		Level: "fault_enumeration",
		Assumptions: []string{
			"'fair schedule' = rounds in which every controller reconciles every existing object once, in canonical order; workloads become ready and the garbage collector runs between rounds",
			"projection per DESIGN.md C10: managed objects' spec / owners by name / revision / labels, lifecycle and condition type/status/reason of PKO objects with ObjectSet names replaced by their revision rank; generations, counters, UIDs, timestamps and Succeeded of archived revisions are not compared",
		},
		Subs: []*checks.Sub{{Name: "faults", Shards: func(string) int { return 16 }, Run: run, Replay: replay}},
	})
}
