// Package c11 checks property C11 (preflight before any write; namespaced owners stay inside
// their namespace) by enumerating phase contents that mix valid objects with every kind of
// violating object at every position, for namespaced and cluster-scoped owners, in rollout and
// in teardown, running the real controllers and judging every request.
package c11

import (
	"encoding/json"
	"fmt"
	"strings"

	metav1 "k8s.io/apimachinery/pkg/apis/meta/v1"
	"k8s.io/apimachinery/pkg/apis/meta/v1/unstructured"
	"k8s.io/apimachinery/pkg/types"

	corev1alpha1 "package-operator.run/apis/core/v1alpha1"
	"package-operator.run/internal/packages/zzverif/checks"
	"package-operator.run/internal/packages/zzverif/kmodel"
	"package-operator.run/internal/packages/zzverif/report"
	"package-operator.run/internal/packages/zzverif/world"
)

// slot kinds
var slotKinds = []string{"V", "U", "O", "F", "C0", "C1", "C2", "R", "E500"}

// errorSlots: the dry run is answered with a status error that is neither Invalid nor Forbidden
// (admission could not be consulted); not accepted is not accepted, but the pass may fail with an
// error instead of reporting PreflightError.
var errorSlots = map[string]string{"E500": "internal", "E503": "unavailable", "E429": "toomany"}

// Owner types.
var ownerTypes = []string{"ObjectSet", "ClusterObjectSet", "ObjectSetPhase", "ClusterObjectSetPhase"}

func ownerNamespaced(t string) bool { return !strings.HasPrefix(t, "Cluster") }

// Case is one enumerated input.
type Case struct {
	Owner    string     `json:"owner"`
	Phases   [][]string `json:"phases"`              // slot kinds per phase
	Dup      string     `json:"duplicate,omitempty"` // "", same-phase, cross-phase, via-defaulting
	Teardown bool       `json:"teardown"`
	// Sliced: the last object of every phase (a duplicate entry included) lives in an ObjectSlice
	// of its own instead of inline (ObjectSet owners); HideSlice: 1+index of the phase whose slice
	// a lagging cache does not show to the first pass (0 = none)
	// ClassLast: the last phase of an ObjectSet is delegated (has a class)
	ClassLast bool `json:"classLast,omitempty"`
	Sliced    bool `json:"sliced,omitempty"`
	HideSlice int  `json:"hideSlice,omitempty"`
}

func (c Case) String() string { b, _ := json.Marshal(c); return string(b) }

// slotObject builds the object of a slot; idx makes names unique.
func slotObject(kind string, idx int, nsOwner bool) *unstructured.Unstructured {
	name := fmt.Sprintf("%s%d", strings.ToLower(kind), idx)
	defNS := ""
	if !nsOwner {
		defNS = world.NS // cluster-scoped owners cannot default a namespace
	}
	switch kind {
	case "V":
		return world.Obj("Widget", defNS, name, map[string]any{"x": int64(1)})
	case "U":
		o := world.Obj("Nope", defNS, name, nil)
		return o
	case "O":
		o := world.Obj("Widget", defNS, name, nil)
		o.SetOwnerReferences([]metav1.OwnerReference{{APIVersion: "v1", Kind: "ConfigMap", Name: "someone", UID: "uid-someone"}})
		return o
	case "F":
		return world.Obj("Widget", "other", name, nil)
	case "C0":
		return world.Obj("ClusterWidget", "", name, nil)
	case "C1":
		return world.Obj("ClusterWidget", world.NS, name, nil)
	case "C2":
		return world.Obj("ClusterWidget", "other", name, nil)
	case "R":
		o := world.Obj("Widget", defNS, name, nil)
		o.SetAnnotations(map[string]string{kmodel.RejectAnnotation: "true"})
		return o
	case "E500", "E503", "E429":
		o := world.Obj("Widget", defNS, name, nil)
		o.SetAnnotations(map[string]string{kmodel.RejectAnnotation: errorSlots[kind]})
		return o
	}
	panic("bad slot " + kind)
}

// violates is the reference: does an object of this slot kind fail preflight for this owner?
func violates(kind string, nsOwner bool) bool {
	switch kind {
	case "V":
		return false
	case "U", "O", "R", "E500", "E503", "E429":
		return true
	case "F", "C0", "C1", "C2":
		// namespace rule: only binds namespaced owners
		return nsOwner
	}
	return true
}

// anyErrorSlot: does the case contain an error-status slot anywhere (phase owners hold all objects
// in one phase)?
func anyErrorSlot(c Case) bool {
	for _, p := range c.Phases {
		for _, k := range p {
			if errorSlots[k] != "" {
				return true
			}
		}
	}
	return false
}

// resolvedKey is the store key a request for the slot object ends up at.
func resolvedKey(o *unstructured.Unstructured, ownerNS string) kmodel.Key {
	gvk := o.GroupVersionKind()
	k := kmodel.Key{Group: gvk.Group, Kind: gvk.Kind, Name: o.GetName()}
	if gvk.Kind == "Widget" || gvk.Kind == "Gadget" || gvk.Kind == "Nope" {
		k.Namespace = o.GetNamespace()
		if k.Namespace == "" {
			k.Namespace = ownerNS
		}
	}
	return k
}

type built struct {
	w        *world.World
	ctrl     string
	nn       types.NamespacedName
	ownKey   kmodel.Key
	phaseOf  map[kmodel.Key]int
	badPhase int // first phase containing a violating object (-1 none)
	// errAccepted: the first bad phase contains an object whose dry run answers with an error
	// status; a failing pass is then as good as a reported PreflightError
	errAccepted bool
	objs        [][]*unstructured.Unstructured
	slices      []kmodel.Key
}

func build(c Case) *built {
	w := world.New()
	w.LongLived() // the passes of one case run in one operator process
	nsOwner := ownerNamespaced(c.Owner)
	ownerNS := ""
	if nsOwner {
		ownerNS = world.NS
	}
	b := &built{w: w, phaseOf: map[kmodel.Key]int{}, badPhase: -1, nn: types.NamespacedName{Namespace: ownerNS, Name: "own"}}
	idx := 0
	var phases []world.PhaseSpec
	for pi, ph := range c.Phases {
		var objs []corev1alpha1.ObjectSetObject
		var us []*unstructured.Unstructured
		for _, k := range ph {
			idx++
			o := slotObject(k, idx, nsOwner)
			us = append(us, o)
			objs = append(objs, world.O(o))
			b.phaseOf[resolvedKey(o, ownerNS)] = pi
			if violates(k, nsOwner) && b.badPhase < 0 {
				b.badPhase = pi
			}
			if errorSlots[k] != "" && b.badPhase == pi {
				b.errAccepted = true
			}
		}
		b.objs = append(b.objs, us)
		phases = append(phases, world.PhaseSpec{Name: fmt.Sprintf("p%d", pi+1), Objects: objs})
	}
	switch c.Dup {
	case "same-phase":
		d := b.objs[0][0].DeepCopy()
		phases[0].Objects = append(phases[0].Objects, world.O(d))
	case "cross-phase":
		d := b.objs[0][0].DeepCopy()
		phases[len(phases)-1].Objects = append(phases[len(phases)-1].Objects, world.O(d))
	case "other-version":
		// the same object through another served version of its API
		d := b.objs[0][0].DeepCopy()
		d.SetAPIVersion(world.TestGroup + "/v2")
		phases[len(phases)-1].Objects = append(phases[len(phases)-1].Objects, world.O(d))
	case "via-defaulting":
		d := b.objs[0][0].DeepCopy()
		if d.GetNamespace() == "" {
			d.SetNamespace(ownerNS)
		} else {
			d.SetNamespace("")
		}
		phases[len(phases)-1].Objects = append(phases[len(phases)-1].Objects, world.O(d))
	}
	if c.ClassLast && (c.Owner == "ObjectSet" || c.Owner == "ClusterObjectSet") {
		phases[len(phases)-1].Class = world.PhaseClass
	}
	if c.Sliced && c.Owner == "ObjectSet" {
		for pi := range phases {
			n := len(phases[pi].Objects)
			if n == 0 {
				continue
			}
			name := fmt.Sprintf("own-slice-%d", pi)
			w.MustCreate(&corev1alpha1.ObjectSlice{ObjectMeta: metav1.ObjectMeta{Name: name, Namespace: world.NS}, Objects: phases[pi].Objects[n-1:]})
			phases[pi].Objects, phases[pi].Slices = phases[pi].Objects[:n-1], []string{name}
			b.slices = append(b.slices, world.PKOKey("ObjectSlice", world.NS, name))
		}
	}
	switch c.Owner {
	case "ObjectSet":
		w.MustCreate(world.NewObjectSet("own", phases, nil))
		b.ctrl, b.ownKey = world.CtrlObjectSet, world.PKOKey("ObjectSet", world.NS, "own")
	case "ClusterObjectSet":
		os := &corev1alpha1.ClusterObjectSet{ObjectMeta: metav1.ObjectMeta{Name: "own"}, Spec: corev1alpha1.ClusterObjectSetSpec{
			LifecycleState: corev1alpha1.ObjectSetLifecycleStateActive, ObjectSetTemplateSpec: world.TemplateSpec(phases, nil)}}
		w.MustCreate(os)
		b.ctrl, b.ownKey = world.CtrlClusterObjectSet, world.PKOKey("ClusterObjectSet", "", "own")
	case "ObjectSetPhase":
		var all []corev1alpha1.ObjectSetObject
		for _, p := range phases {
			all = append(all, p.Objects...)
		}
		for k := range b.phaseOf {
			b.phaseOf[k] = 0
		}
		if b.badPhase > 0 {
			b.badPhase = 0
		}
		b.errAccepted = anyErrorSlot(c)
		w.MustCreate(&corev1alpha1.ObjectSetPhase{
			ObjectMeta: metav1.ObjectMeta{Name: "own", Namespace: world.NS, Labels: map[string]string{corev1alpha1.ObjectSetPhaseClassLabel: world.PhaseClass}},
			Spec:       corev1alpha1.ObjectSetPhaseSpec{Revision: 1, Objects: all}})
		b.ctrl, b.ownKey = world.CtrlPhase, world.PKOKey("ObjectSetPhase", world.NS, "own")
	case "ClusterObjectSetPhase":
		var all []corev1alpha1.ObjectSetObject
		for _, p := range phases {
			all = append(all, p.Objects...)
		}
		for k := range b.phaseOf {
			b.phaseOf[k] = 0
		}
		if b.badPhase > 0 {
			b.badPhase = 0
		}
		b.errAccepted = anyErrorSlot(c)
		w.MustCreate(&corev1alpha1.ClusterObjectSetPhase{
			ObjectMeta: metav1.ObjectMeta{Name: "own", Labels: map[string]string{corev1alpha1.ObjectSetPhaseClassLabel: world.PhaseClass}},
			Spec:       corev1alpha1.ClusterObjectSetPhaseSpec{Revision: 1, Objects: all}})
		b.ctrl, b.ownKey = world.CtrlClusterPhase, world.PKOKey("ClusterObjectSetPhase", "", "own")
	}
	return b
}

type finding struct{ id, msg string }

// judgeScope is oracle (2): a namespaced owner's effective requests stay in its namespace and hit
// namespaced kinds only (judged by the store key the request resolved to).
func judgeScope(c Case, b *built, pass *world.Pass) []finding {
	var out []finding
	if !ownerNamespaced(c.Owner) {
		return nil
	}
	for _, r := range pass.Reqs {
		if !r.IsWrite() || r.Key == b.ownKey {
			continue
		}
		info := b.w.S.Kinds[r.Key.GK()]
		if !info.Namespaced {
			out = append(out, finding{"namespaced-owner-writes-cluster-scoped " + r.Verb, fmt.Sprintf("namespaced %s sent %s (cluster-scoped kind; effect: changed=%v)", c.Owner, r, r.Changed())})
		} else if r.Key.Namespace != world.NS {
			out = append(out, finding{"namespaced-owner-writes-foreign-namespace " + r.Verb, fmt.Sprintf("namespaced %s sent %s (other namespace)", c.Owner, r)})
		}
	}
	return out
}

func judgeRollout(c Case) ([]finding, string, []string) {
	b := build(c)
	var out []finding
	var trace []string
	outcome := ""
	// two passes: the second one must behave the same (violations are retried, not remembered)
	for passNo := 0; passNo < 3; passNo++ {
		var plan *world.Plan
		blind := false
		if passNo == 0 && c.HideSlice > 0 && c.HideSlice <= len(b.slices) {
			// a lagging cache: the pass cannot read one of the slices, so it cannot know the phase's
			// objects - it may fail, but it must not write on the strength of the part it does see
			plan = &world.Plan{HideInList: []kmodel.Key{b.slices[c.HideSlice-1]}}
			blind = true
		}
		pass := b.w.Reconcile(b.ctrl, b.nn, plan)
		trace = append(trace, pass.Trace()...)
		if pass.Panic != "" {
			return []finding{{"panic", "panic: " + pass.Panic}}, "panic", trace
		}
		out = append(out, judgeScope(c, b, pass)...)
		own := b.w.S.Objs[b.ownKey].Content
		avail, reason, _, _ := world.Condition(own, "Available")
		// "an ObjectSet listing the same object twice writes none of its objects": the clause binds
		// ObjectSets and ClusterObjectSets. For a cluster-scoped owner nothing is defaulted, so the
		// via-defaulting pair are two different objects there (one of them invalid).
		dup := c.Dup != "" && (c.Owner == "ObjectSet" || c.Owner == "ClusterObjectSet")
		if c.Dup == "via-defaulting" && c.Owner != "ObjectSet" {
			dup = false
		}
		for _, r := range pass.Reqs {
			if !r.IsWrite() || r.Key == b.ownKey || (r.Key.Kind == "ObjectSlice" && r.Key.Group == "package-operator.run") {
				// (taking ownership of its own ObjectSlices is bookkeeping on package-operator's API
				// objects, not a write to one of the listed objects)
				continue
			}
			if dup {
				out = append(out, finding{"write-despite-duplicate " + c.Dup, fmt.Sprintf("the same object is listed twice (%s) but the pass sent %s", c.Dup, r)})
				continue
			}
			ph, known := b.phaseOf[r.Key]
			if !dup && c.Dup != "" {
				continue // statement silent for this owner/duplicate form
			}
			if b.badPhase >= 0 && known && ph >= b.badPhase {
				out = append(out, finding{"write-before-preflight-passed", fmt.Sprintf("phase %d contains an object failing preflight but the pass sent %s (object of phase %d)", b.badPhase+1, r, ph+1)})
			}
		}
		if b.badPhase >= 0 || dup {
			outcome = "preflight-error"
			if (avail != "False" || reason != "PreflightError") && !(b.errAccepted && pass.Err != nil) && !(blind && pass.Err != nil) {
				out = append(out, finding{"preflight-violation-not-reported", fmt.Sprintf("preflight violation expected (first bad phase %d, dup=%q) but persisted Available=%q/%q, pass error=%v", b.badPhase+1, c.Dup, avail, reason, pass.Err)})
			}
			// "... and are retried": nothing else wakes a blocked owner up (it owns nothing yet and
			// its own generation does not move), so every such pass - the first and every later one -
			// has to come back by itself: an error, or a requeue
			if reason == "PreflightError" && pass.Err == nil && pass.Result.RequeueAfter <= 0 && !pass.Result.Requeue {
				out = append(out, finding{"preflight-violation-not-retried", fmt.Sprintf("pass %d reports Available=False/PreflightError and returns neither an error nor a requeue: the violation is never re-examined", passNo+1)})
			}
		} else if c.Dup != "" {
			outcome = "duplicate-undecided-for-owner"
		} else {
			outcome = "rolled-out"
			if reason == "PreflightError" {
				out = append(out, finding{"valid-objects-refused", fmt.Sprintf("all objects are valid but Available=%q/%q: %v", avail, reason, conditionMessage(own))})
			}
			if passNo == 1 {
				for k := range b.phaseOf {
					if b.w.S.Objs[k] == nil {
						out = append(out, finding{"valid-object-not-created", fmt.Sprintf("valid object %s was not created (pass error %v)", k, pass.Err)})
					}
				}
			}
		}
	}
	return out, outcome, trace
}

func conditionMessage(c map[string]any) string {
	st, _ := c["status"].(map[string]any)
	l, _ := st["conditions"].([]any)
	var s []string
	for _, e := range l {
		m, _ := e.(map[string]any)
		s = append(s, fmt.Sprintf("%v=%v(%v): %v", m["type"], m["status"], m["reason"], m["message"]))
	}
	return strings.Join(s, "; ")
}

// judgeTeardown: the listed objects pre-exist and are controlled by the owner; the owner is
// deleted; every teardown pass is judged by oracle (2).
func judgeTeardown(c Case) ([]finding, string, []string) {
	b := build(c)
	var out []finding
	var trace []string
	// first pass adds the finalizer (and may roll out valid phases)
	pass := b.w.Reconcile(b.ctrl, b.nn, nil)
	trace = append(trace, pass.Trace()...)
	own := b.w.S.Objs[b.ownKey]
	self := world.IdentOf(b.ownKey, own.Content)
	// a third party makes every listed object exist, controlled by the owner
	for _, ph := range b.objs {
		for _, o := range ph {
			oc := o.DeepCopy()
			if oc.GetKind() == "Nope" {
				continue
			}
			k := resolvedKey(oc, b.nn.Namespace)
			if k.Namespace == "" && (oc.GetKind() == "Widget") {
				continue
			}
			oc.SetNamespace(k.Namespace)
			oc.SetAnnotations(map[string]string{world.RevisionAnnotation: "1"})
			oc.SetLabels(map[string]string{"package-operator.run/cache": "True"})
			oc.Object["metadata"].(map[string]any)["ownerReferences"] = []any{map[string]any{
				"apiVersion": "package-operator.run/v1alpha1", "kind": self.Kind, "name": self.Name, "uid": self.UID, "controller": true, "blockOwnerDeletion": true}}
			if ex := b.w.S.Objs[k]; ex != nil {
				continue
			}
			b.w.MustCreate(oc)
		}
	}
	if err := b.w.S.Delete(b.ownKey, kmodel.DeleteOpts{}); err != nil {
		return []finding{{"harness", "delete owner: " + err.Error()}}, "", trace
	}
	outcome := "teardown"
	base := b.w.Clone()
	nFirst := 0
	for i := 0; i < 4 && b.w.S.Objs[b.ownKey] != nil; i++ {
		pass := b.w.Reconcile(b.ctrl, b.nn, nil)
		if i == 0 {
			nFirst = len(pass.Reqs)
		}
		trace = append(trace, pass.Trace()...)
		if pass.Panic != "" {
			return []finding{{"panic", "panic: " + pass.Panic}}, "panic", trace
		}
		out = append(out, judgeScope(c, b, pass)...)
	}
	// the same teardown with one request of its first pass answered 500 / 409 without effect (the
	// preflight dry run among them), for every request: whatever the fault, nothing outside the
	// owner's namespace is written
	if ownerNamespaced(c.Owner) {
		foreign := false
		for _, p := range c.Phases {
			for _, k := range p {
				if k == "F" || k == "C0" || k == "C1" || k == "C2" {
					foreign = true
				}
			}
		}
		for at := 0; foreign && at < nFirst; at++ {
			for _, fk := range []world.FaultKind{world.ErrBefore, world.ConflictBefore} {
				w2 := base.Clone()
				for i := 0; i < 3 && w2.S.Objs[b.ownKey] != nil; i++ {
					var plan *world.Plan
					if i == 0 {
						plan = &world.Plan{FaultAt: at, Fault: fk}
					}
					pass := w2.Reconcile(b.ctrl, b.nn, plan)
					if pass.Panic != "" {
						return []finding{{"panic", "panic: " + pass.Panic}}, "panic", append(trace, pass.Trace()...)
					}
					if f := judgeScope(c, b, pass); len(f) > 0 {
						for j := range f {
							f[j].msg += fmt.Sprintf(" (teardown with %s at request #%d of the first pass)", fk, at)
						}
						out = append(out, f...)
						trace = append(trace, pass.Trace()...)
					}
				}
			}
		}
	}
	if b.w.S.Objs[b.ownKey] == nil {
		outcome = "teardown-done"
	}
	return out, outcome, trace
}

func enumerate(quick bool) []Case {
	var cases []Case
	for _, owner := range ownerTypes {
		// every slot kind at every position: phases [2 slots][1 slot]
		for _, a := range slotKinds {
			for _, b := range slotKinds {
				for _, c := range slotKinds {
					for _, td := range []bool{false, true} {
						cases = append(cases, Case{Owner: owner, Phases: [][]string{{a, b}, {c}}, Teardown: td})
					}
				}
			}
		}
		// single-phase, single-object and phase-order variants
		for _, a := range slotKinds {
			for _, td := range []bool{false, true} {
				cases = append(cases, Case{Owner: owner, Phases: [][]string{{a}}, Teardown: td})
				cases = append(cases, Case{Owner: owner, Phases: [][]string{{"V"}, {"V"}, {a}}, Teardown: td})
			}
		}
		// other error statuses from the dry run, first / middle / last in a phase
		for _, e := range []string{"E503", "E429"} {
			cases = append(cases, Case{Owner: owner, Phases: [][]string{{e, "V"}, {"V"}}}, Case{Owner: owner, Phases: [][]string{{"V", e}, {"V"}}}, Case{Owner: owner, Phases: [][]string{{"V", "V"}, {e}}})
		}
		// the same with the phases' last objects in ObjectSlices, every slice readable or one of
		// them not yet visible to the first pass
		if owner == "ObjectSet" {
			for _, a := range slotKinds {
				for _, b := range slotKinds {
					for _, c := range slotKinds {
						for hide := 0; hide <= 2; hide++ {
							cases = append(cases, Case{Owner: owner, Phases: [][]string{{a, b}, {c}}, Sliced: true, HideSlice: hide})
						}
					}
				}
			}
			for _, d := range []string{"same-phase", "cross-phase", "via-defaulting", "other-version"} {
				for hide := 0; hide <= 2; hide++ {
					cases = append(cases, Case{Owner: owner, Phases: [][]string{{"V", "V"}, {"V"}}, Dup: d, Sliced: true, HideSlice: hide})
				}
			}
		}
		// duplicates between a local phase and a delegated one (nothing may be written, the
		// ObjectSetPhase object included)
		if owner == "ObjectSet" || owner == "ClusterObjectSet" {
			for _, d := range []string{"cross-phase", "via-defaulting", "other-version"} {
				cases = append(cases, Case{Owner: owner, Phases: [][]string{{"V"}, {"V"}}, Dup: d, ClassLast: true})
				cases = append(cases, Case{Owner: owner, Phases: [][]string{{"V", "V"}, {"V"}}, Dup: d, ClassLast: true})
			}
		}
		// duplicates
		for _, d := range []string{"same-phase", "cross-phase", "via-defaulting", "other-version"} {
			cases = append(cases, Case{Owner: owner, Phases: [][]string{{"V"}, {"V"}}, Dup: d})
			cases = append(cases, Case{Owner: owner, Phases: [][]string{{"V", "V"}, {"V"}}, Dup: d})
		}
		if !quick {
			for _, a := range slotKinds {
				for _, b := range slotKinds {
					for _, c := range slotKinds {
						for _, d := range slotKinds {
							cases = append(cases, Case{Owner: owner, Phases: [][]string{{a}, {b, c}, {d}}})
						}
					}
				}
			}
		}
	}
	return cases
}

func run(o checks.Opts) *report.Report {
	rep := report.New("C11", "enumeration")
	rep.Rule = "phase contents from slot kinds {valid, unknown API, preset ownerReferences, foreign namespace, cluster-scoped kind without/with own/with other namespace, dry-run rejected (422), dry run answered with 500 (plus 503 / 429 variants)} at every position of [2 objects][1 object] (+ single-object, three-phase and duplicate variants - same phase, across phases, via namespace defaulting, through another served API version; thorough adds [1][2][1]), owners {ObjectSet, ClusterObjectSet, same-cluster ObjectSetPhase, ClusterObjectSetPhase}, rollout (two passes) and teardown (objects pre-existing and controlled, owner deleted, up to 4 passes); distinct = (owner, outcome, which phase first fails preflight)"
	cases := enumerate(o.Quick())
	rep.Bounds["cases"] = len(cases)
	for i, c := range cases {
		if o.Shards > 1 && i%o.Shards != o.Shard {
			continue
		}
		var f []finding
		var out string
		var trace []string
		if c.Teardown {
			f, out, trace = judgeTeardown(c)
		} else {
			f, out, trace = judgeRollout(c)
		}
		rep.Executions++
		rep.ImplTraces++
		rep.Transitions += int64(len(trace))
		rep.Outcomes[fmt.Sprintf("%s %s dup=%s", c.Owner, out, c.Dup)]++
		rep.Monitors[out]++
		seen := map[string]bool{}
		for _, x := range f {
			id := x.id + " owner=" + c.Owner
			if seen[id] {
				continue
			}
			seen[id] = true
			rep.AddViolation(report.Violation{Identity: id, Message: x.msg + "\ncase: " + c.String(), Params: map[string]any{"case": c}, Trace: trace})
		}
		if o.Shard == 0 && len(rep.Samples) < 3 && i%211 == 0 {
			rep.Samples = append(rep.Samples, map[string]any{"case": c, "outcome": out})
		}
	}
	rep.States = rep.Executions
	return rep
}

func replay(v report.Violation) string {
	b, _ := json.Marshal(v.Params["case"])
	var c Case
	if err := json.Unmarshal(b, &c); err != nil {
		return "bad replay file"
	}
	var f []finding
	var trace []string
	if c.Teardown {
		f, _, trace = judgeTeardown(c)
	} else {
		f, _, trace = judgeRollout(c)
	}
	for _, l := range trace {
		fmt.Println(l)
	}
	var s []string
	for _, x := range f {
		s = append(s, x.id+": "+x.msg)
	}
	return strings.Join(s, "\n")
}

func init() {
	checks.Register(&checks.Check{
		ID:    "C11",
		Level: "exploration",
		Assumptions: []string{
			"kmodel scope handling: cluster-scoped kinds ignore metadata.namespace (apiserver rest/meta.go), creating a namespaced kind without namespace is refused",
			"'rejected by dry run' is scripted through the annotation verif/reject",
		},
		Subs: []*checks.Sub{
			{Name: "enumeration", Shards: func(string) int { return 8 }, Run: run, Replay: replay},
			{Name: "object-template", Shards: func(string) int { return 4 }, Run: runTemplates, Replay: replayTemplates, Parallel: true},
		},
	})
}
