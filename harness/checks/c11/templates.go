package c11

import (
	"strings"

	"package-operator.run/internal/packages/zzverif/checks"
	"package-operator.run/internal/packages/zzverif/checks/c18"
	"package-operator.run/internal/packages/zzverif/osw"
	"package-operator.run/internal/packages/zzverif/report"
	"package-operator.run/internal/packages/zzverif/world"
)

// ---- "ObjectTemplates never create, modify or delete cluster-scoped objects or objects in
// another namespace" over the real ObjectTemplate controller ----
//
// The namespaced-template systems of C18 whose sources or targets are cluster-scoped or live in
// another namespace (source given with / without a namespace), with the scope clauses of that
// monitor: every effective write of a namespaced ObjectTemplate's pass stays on namespaced kinds
// in its own namespace, and an out-of-scope source or target leaves the target unwritten.

func templateSystems(quick bool) []*world.System {
	var out []*world.System
	for _, sys := range c18.ScopeSystems(quick) {
		inner := sys.Check
		sys.Check = func(before *world.World, ev world.Event, pass *world.Pass, after *world.World) []world.Finding {
			var keep []world.Finding
			for _, f := range inner(before, ev, pass, after) {
				if strings.HasPrefix(f.Identity, "template-writes-out-of-namespace") || f.Identity == "invalid-template-wrote-target" {
					keep = append(keep, f)
				}
			}
			return keep
		}
		out = append(out, sys)
	}
	return out
}

func runTemplates(o checks.Opts) *report.Report {
	rep := report.New("C11", "object-template")
	rep.Rule = "explicit-state BFS over the real (namespaced) ObjectTemplate controller: sources of a cluster-scoped kind given without / with a namespace, sources in another namespace, templates rendering a target in another namespace or of a cluster-scoped kind, source creation / edit / deletion, reconciles at any time; every effective write of a template pass hits a namespaced kind in the template's own namespace, and an out-of-scope source or target leaves the target unwritten"
	syss := templateSystems(o.Quick())
	rep.Bounds["systems"] = len(syss)
	for i, sys := range syss {
		if o.Shards > 1 && i%o.Shards != o.Shard {
			continue
		}
		sys.MaxStates = 200000
		osw.RunBFS(rep, sys, map[string]any{"system": i})
	}
	return rep
}

func replayTemplates(v report.Violation) string {
	i, _ := v.Params["system"].(float64)
	syss := templateSystems(false)
	if int(i) >= len(syss) {
		return "unknown system"
	}
	return osw.ReplayBFS(syss[int(i)], v)
}
