// Package c12 checks property C12 (dynamic cache) on the real dynamiccache.Cache:
// (a) every operation sequence up to a length bound with informer start-up failures as
// deviations, against a reference model; (b) every interleaving (preemption bounded) of
// concurrent callers, judged by linearizability w.r.t. the same model; plus a free-running
// race-detector pass.
package c12

import (
	"context"
	"errors"
	"fmt"
	"sort"
	"strings"
	"sync"
	"time"

	"k8s.io/apimachinery/pkg/apis/meta/v1/unstructured"
	"k8s.io/apimachinery/pkg/runtime"
	"k8s.io/apimachinery/pkg/runtime/schema"
	"k8s.io/apimachinery/pkg/types"
	toolscache "k8s.io/client-go/tools/cache"
	"k8s.io/client-go/util/workqueue"
	"sigs.k8s.io/controller-runtime/pkg/client"
	"sigs.k8s.io/controller-runtime/pkg/event"
	"sigs.k8s.io/controller-runtime/pkg/handler"
	"sigs.k8s.io/controller-runtime/pkg/reconcile"

	"package-operator.run/internal/dynamiccache"
	"package-operator.run/internal/packages/zzverif/checks"
	"package-operator.run/internal/packages/zzverif/explore"
	"package-operator.run/internal/packages/zzverif/report"
	"package-operator.run/internal/packages/zzverif/vsched"
	"package-operator.run/internal/packages/zzverif/world"
)

var kinds = []schema.GroupVersionKind{
	{Group: world.TestGroup, Version: "v1", Kind: "Widget"},
	{Group: world.TestGroup, Version: "v1", Kind: "Gadget"},
}

func owner(i int) client.Object {
	u := &unstructured.Unstructured{}
	u.SetGroupVersionKind(schema.GroupVersionKind{Group: "", Version: "v1", Kind: "ConfigMap"})
	u.SetNamespace("ns")
	u.SetName(fmt.Sprintf("o%d", i+1))
	u.SetUID(types.UID(fmt.Sprintf("uid-o%d", i+1)))
	return u
}

func kindObj(k int) *unstructured.Unstructured {
	u := &unstructured.Unstructured{}
	u.SetGroupVersionKind(kinds[k])
	return u
}

// ---- scripted informer map ----

type fakeInformer struct {
	toolscache.SharedIndexInformer
	id       int
	kind     int
	handlers []toolscache.ResourceEventHandler
	stopped  bool
}

func (f *fakeInformer) AddEventHandler(h toolscache.ResourceEventHandler) (toolscache.ResourceEventHandlerRegistration, error) {
	f.handlers = append(f.handlers, h)
	return nil, nil
}
func (f *fakeInformer) HasSynced() bool { return true }

type nullReader struct{}

func (nullReader) Get(context.Context, client.ObjectKey, client.Object, ...client.GetOption) error {
	return nil
}
func (nullReader) List(context.Context, client.ObjectList, ...client.ListOption) error { return nil }

type scriptedMap struct {
	ctx     *explore.Ctx // nil in free-running mode
	mu      sync.Mutex
	live    map[int]*fakeInformer
	all     []*fakeInformer
	getCall int
	starts  int
	faults  bool
	yield   bool
	log     []string
}

var errStart = errors.New("scripted informer start-up failure")

func kindIndex(gvk schema.GroupVersionKind) int {
	for i, k := range kinds {
		if k == gvk {
			return i
		}
	}
	panic("unknown gvk " + gvk.String())
}

func (m *scriptedMap) Get(_ context.Context, gvk schema.GroupVersionKind, _ runtime.Object) (toolscache.SharedIndexInformer, client.Reader, error) {
	k := kindIndex(gvk)
	if m.yield {
		// the real InformerMap.Get takes its own lock first: a synchronisation (scheduling) point
		vsched.Yield("informer-map-get")
	}
	m.mu.Lock()
	m.getCall++
	inf, ok := m.live[k]
	m.mu.Unlock()
	if ok {
		return inf, nullReader{}, nil
	}
	// a new informer has to be started: this may fail in two ways
	mode := 0
	if m.faults && m.ctx != nil {
		mode = m.ctx.Choose(3, 1, fmt.Sprintf("informer-start %s: ok|fail-before-start|fail-sync-timeout", gvk.Kind))
	}
	if mode == 1 {
		m.log = append(m.log, fmt.Sprintf("start %s failed before an informer existed", gvk.Kind))
		return nil, nil, fmt.Errorf("mapping %s: %w", gvk.Kind, errStart)
	}
	if m.yield {
		vsched.Yield("informer-sync")
	}
	m.mu.Lock()
	m.starts++
	inf = &fakeInformer{id: len(m.all), kind: k}
	m.all = append(m.all, inf)
	m.live[k] = inf
	m.mu.Unlock()
	if mode == 2 {
		m.log = append(m.log, fmt.Sprintf("informer #%d for %s started but sync timed out", inf.id, gvk.Kind))
		return nil, nil, fmt.Errorf("sync %s: %w", gvk.Kind, errStart)
	}
	return inf, nullReader{}, nil
}

func (m *scriptedMap) Delete(_ context.Context, gvk schema.GroupVersionKind) error {
	k := kindIndex(gvk)
	if m.yield {
		vsched.Yield("informer-map-delete")
	}
	m.mu.Lock()
	defer m.mu.Unlock()
	if inf, ok := m.live[k]; ok {
		inf.stopped = true
		delete(m.live, k)
	}
	return nil
}

// ---- harness around the real cache ----

type counter struct{ creates int }

func (c *counter) handler() handler.EventHandler {
	return handler.Funcs{
		CreateFunc: func(context.Context, event.CreateEvent, workqueue.TypedRateLimitingInterface[reconcile.Request]) {
			c.creates++
		},
	}
}

type sut struct {
	cache    *dynamiccache.Cache
	im       *scriptedMap
	handlers [2]*counter
}

func newSUT(ctx *explore.Ctx, faults, yield bool) *sut {
	im := &scriptedMap{ctx: ctx, live: map[int]*fakeInformer{}, faults: faults, yield: yield}
	c := dynamiccache.NewCacheForVerif(world.Scheme, im, nil)
	s := &sut{cache: c, im: im}
	for i := range s.handlers {
		s.handlers[i] = &counter{}
		if err := c.Source(s.handlers[i].handler()).Start(context.Background(), nil); err != nil {
			panic(err)
		}
	}
	_ = c.Start(context.Background()) // blocks new registrations, as the manager does
	return s
}

// delivers fires an Add event on the informer and reports how many controller handlers got it.
func (s *sut) delivers(inf *fakeInformer) int {
	before := s.handlers[0].creates + s.handlers[1].creates
	obj := kindObj(inf.kind)
	obj.SetName("probe")
	for _, h := range inf.handlers {
		h.OnAdd(obj, false)
	}
	return s.handlers[0].creates + s.handlers[1].creates - before
}

type op struct {
	Kind  string // watch free get list
	Owner int
	K     int
}

func (o op) String() string {
	switch o.Kind {
	case "watch":
		return fmt.Sprintf("Watch(o%d,%s)", o.Owner+1, kinds[o.K].Kind)
	case "free":
		return fmt.Sprintf("Free(o%d)", o.Owner+1)
	case "owners":
		return fmt.Sprintf("OwnersForGKV(%s)", kinds[o.K].Kind)
	}
	return fmt.Sprintf("%s(%s)", strings.Title(o.Kind), kinds[o.K].Kind) //nolint:staticcheck
}

var alphabet = func() []op {
	var a []op
	for o := 0; o < 2; o++ {
		for k := 0; k < 2; k++ {
			a = append(a, op{"watch", o, k})
		}
	}
	for o := 0; o < 2; o++ {
		a = append(a, op{"free", o, 0})
	}
	for k := 0; k < 2; k++ {
		a = append(a, op{"get", 0, k}, op{"list", 0, k})
	}
	return a
}()

// result classes of an op
func (s *sut) do(o op) (string, error) {
	ctx := context.Background()
	switch o.Kind {
	case "watch":
		err := s.cache.Watch(ctx, owner(o.Owner), kindObj(o.K))
		return errClass(err), err
	case "free":
		err := s.cache.Free(ctx, owner(o.Owner))
		return errClass(err), err
	case "get":
		err := s.cache.Get(ctx, client.ObjectKey{Namespace: "ns", Name: "x"}, kindObj(o.K))
		return errClass(err), err
	case "list":
		l := &unstructured.UnstructuredList{}
		gvk := kinds[o.K]
		gvk.Kind += "List"
		l.SetGroupVersionKind(gvk)
		err := s.cache.List(ctx, l)
		return errClass(err), err
	case "owners":
		return ownersString(s.cache.OwnersForGKV(kinds[o.K])), nil
	}
	panic("bad op")
}

func errClass(err error) string {
	var ns *dynamiccache.CacheNotStartedError
	switch {
	case err == nil:
		return "ok"
	case errors.As(err, &ns):
		return "not-started"
	case errors.Is(err, errStart):
		return "start-failed"
	}
	return "error:" + err.Error()
}

func ownersString(l []dynamiccache.OwnerReference) string {
	var s []string
	for _, r := range l {
		s = append(s, r.Name)
	}
	sort.Strings(s)
	return "[" + strings.Join(s, ",") + "]"
}

// model: kind -> owner -> true; maybe: membership undecided after a failed Watch
type model struct {
	refs  [2]map[int]bool
	maybe [2]map[int]bool
}

func newModel() *model {
	m := &model{}
	for k := range m.refs {
		m.refs[k] = map[int]bool{}
		m.maybe[k] = map[int]bool{}
	}
	return m
}

func (m *model) owners(k int) string {
	var s []string
	for o := range m.refs[k] {
		s = append(s, fmt.Sprintf("o%d", o+1))
	}
	sort.Strings(s)
	return "[" + strings.Join(s, ",") + "]"
}

// seqBody runs one operation sequence chosen by the explorer.
func seqBody(length int, faults bool) explore.Body {
	return func(ctx *explore.Ctx) (string, string) {
		s := newSUT(ctx, faults, false)
		m := newModel()
		var viol []string
		var hist []string
		bad := func(f string, a ...any) {
			viol = append(viol, fmt.Sprintf("after %s: ", strings.Join(hist, "; "))+fmt.Sprintf(f, a...))
		}
		for step := 0; step < length; step++ {
			o := alphabet[ctx.Choose(len(alphabet), 0, "op")]
			getsBefore, startsBefore := s.im.getCall, s.im.starts
			liveBefore := map[int]*fakeInformer{}
			for k, v := range s.im.live {
				liveBefore[k] = v
			}
			hcBefore := map[*fakeInformer]int{}
			for _, inf := range s.im.all {
				hcBefore[inf] = len(inf.handlers)
			}
			cls, _ := s.do(o)
			hist = append(hist, o.String()+"="+cls)
			switch o.Kind {
			case "watch":
				switch cls {
				case "ok":
					already := m.refs[o.K][o.Owner] && !m.maybe[o.K][o.Owner]
					m.refs[o.K][o.Owner] = true
					delete(m.maybe[o.K], o.Owner)
					inf := s.im.live[o.K]
					if inf == nil {
						bad("Watch succeeded but no informer runs for %s", kinds[o.K].Kind)
					} else {
						if len(inf.handlers) != 2 || s.delivers(inf) != 2 {
							bad("Watch succeeded but informer #%d for %s delivers events to %d of 2 registered controller handlers (handlers attached: %d)", inf.id, kinds[o.K].Kind, s.deliversSafe(inf), len(inf.handlers))
						}
						if already {
							if liveBefore[o.K] != inf {
								bad("repeated Watch by the same owner replaced the informer of %s", kinds[o.K].Kind)
							}
							if s.im.starts != startsBefore {
								bad("repeated Watch by the same owner started another informer")
							}
						}
					}
				case "start-failed":
					// statement is silent on whether the owner is registered now: accept both
					m.maybe[o.K][o.Owner] = true
				default:
					bad("Watch returned %s", cls)
				}
			case "free":
				if cls != "ok" {
					bad("Free returned %s", cls)
				}
				for k := range m.refs {
					had := len(m.refs[k]) > 0 || len(m.maybe[k]) > 0
					delete(m.refs[k], o.Owner)
					delete(m.maybe[k], o.Owner)
					empty := len(m.refs[k]) == 0 && len(m.maybe[k]) == 0
					if had && empty && len(m.refs[k]) == 0 {
						if s.im.live[k] != nil {
							bad("Free(o%d) left the informer of %s running although nobody watches it", o.Owner+1, kinds[k].Kind)
						}
					}
					if len(m.refs[k]) > 0 && liveBefore[k] != nil && s.im.live[k] != liveBefore[k] {
						bad("Free(o%d) stopped or replaced the informer of %s that %s still watches", o.Owner+1, kinds[k].Kind, m.owners(k))
					}
				}
			case "get", "list":
				definitelyUnwatched := len(m.refs[o.K]) == 0 && len(m.maybe[o.K]) == 0
				definitelyWatched := len(m.refs[o.K]) > 0
				if definitelyUnwatched {
					if cls != "not-started" {
						bad("%s on a kind nobody watches returned %s instead of CacheNotStartedError", o, cls)
					}
					if s.im.getCall != getsBefore || s.im.starts != startsBefore {
						bad("%s on a kind nobody watches reached the informer map (implicitly starting an informer)", o)
					}
				}
				if definitelyWatched && cls == "not-started" {
					bad("%s on a watched kind returned CacheNotStartedError", o)
				}
				if cls == "ok" {
					inf := s.im.live[o.K]
					if inf == nil {
						bad("%s succeeded without a running informer", o)
					} else if len(inf.handlers) != 2 || s.delivers(inf) != 2 {
						bad("%s succeeded on informer #%d for %s which delivers events to %d of 2 registered controller handlers (handlers attached: %d)", o, inf.id, kinds[o.K].Kind, s.deliversSafe(inf), len(inf.handlers))
					}
				}
			}
			// handler registration is never duplicated on an informer
			for _, inf := range s.im.all {
				if len(inf.handlers) > 2 {
					bad("informer #%d has %d handler registrations for 2 controller handlers (duplicate event delivery)", inf.id, len(inf.handlers))
				}
				_ = hcBefore
			}
			// OwnersForGKV must equal the model (undecided memberships are adopted)
			for k := range kinds {
				got := map[string]bool{}
				for _, r := range s.cache.OwnersForGKV(kinds[k]) {
					got[r.Name] = true
				}
				for o2 := 0; o2 < 2; o2++ {
					n := fmt.Sprintf("o%d", o2+1)
					if m.maybe[k][o2] {
						continue
					}
					if m.refs[k][o2] != got[n] {
						bad("OwnersForGKV(%s) lists %v but the model says %s", kinds[k].Kind, keys(got), m.owners(k))
					}
				}
				// informers run exactly for watched kinds (decided cases only)
				if len(m.maybe[k]) == 0 {
					if (len(m.refs[k]) > 0) != (s.im.live[k] != nil) {
						bad("informer for %s running=%v but watchers=%s", kinds[k].Kind, s.im.live[k] != nil, m.owners(k))
					}
				}
			}
			if len(viol) > 0 {
				break
			}
		}
		out := fmt.Sprintf("starts=%d live=%d fails=%d", s.im.starts, len(s.im.live), len(s.im.log))
		if len(viol) > 0 {
			return strings.Join(viol, "\n"), out
		}
		return "", out
	}
}

func (s *sut) deliversSafe(inf *fakeInformer) int { return len(inf.handlers) }

func keys(m map[string]bool) []string {
	var k []string
	for x := range m {
		k = append(k, x)
	}
	sort.Strings(k)
	return k
}

func identity(msg string) string {
	first := strings.SplitN(msg, "\n", 2)[0]
	switch {
	case strings.Contains(first, "start-failed") && strings.Contains(first, "registered controller handlers"):
		return "informer-without-handlers-after-failed-start"
	case strings.Contains(first, "registered controller handlers"):
		return "informer-without-handlers"
	case strings.Contains(first, "still watches"):
		return "free-stops-shared-informer"
	case strings.Contains(first, "nobody watches it"):
		return "informer-leak"
	case strings.Contains(first, "start-failed") && strings.Contains(first, "running="):
		return "informer-state-after-failed-start"
	case strings.Contains(first, "not linearizable"):
		return "not-linearizable"
	case strings.Contains(first, "deadlock"):
		return "deadlock"
	}
	return "other"
}

func runSeq(o checks.Opts) *report.Report {
	rep := report.New("C12", "seq")
	length, bound := 5, 2
	if !o.Quick() {
		length, bound = 6, 2
	}
	rep.Bounds["length"] = length
	rep.Bounds["start_failures"] = bound
	rep.Bounds["alphabet"] = len(alphabet)
	rep.Rule = "all sequences of exactly `length` operations over Watch/Free/Get/List x 2 owners x 2 kinds on the real Cache (oracle after every operation, so all shorter sequences are covered), each informer start answering ok / fail-before-start / fail-after-start with at most `start_failures` failures; distinct = (informers started, live, failures)"
	e := &explore.Explorer{Bound: bound, Shard: o.Shard, Shards: o.Shards, ShardLvl: 2}
	st := e.Explore(seqBody(length, true))
	if len(st.Divergences) > 0 {
		rep.Fault = st.Divergences[0]
		return rep
	}
	rep.Executions, rep.ImplTraces, rep.States, rep.Transitions = st.Executions, st.Executions, st.Executions, st.Points
	for k, v := range st.Outcomes {
		rep.Outcomes[k] = v
	}
	seen := map[string]bool{}
	for _, v := range st.Violations {
		id := identity(v.Message)
		if seen[id] {
			rep.NViolations++
			continue
		}
		seen[id] = true
		rep.AddViolation(report.Violation{Identity: id, Message: v.Message, Choices: v.Choices, Labels: v.Labels, Params: map[string]any{"length": length}})
	}
	rep.NViolations += st.NViolations - int64(len(st.Violations))
	if o.Shard == 0 {
		rep.Samples = append(rep.Samples, "Watch(o1,Widget); Watch(o2,Widget); Free(o1); Get(Widget)", "Watch(o1,Widget)[informer start fails]; Watch(o1,Widget); Get(Widget)")
	}
	return rep
}

func replaySeq(v report.Violation) string {
	length := 4
	if l, ok := v.Params["length"].(float64); ok {
		length = int(l)
	}
	c, msg, _ := explore.RunOnce(seqBody(length, true), v.Choices, v.Labels)
	if c.Divergence != "" {
		return "DIVERGENCE (harness fault): " + c.Divergence
	}
	return msg
}

// ---- concurrent part ----

type conScenario struct {
	Name    string `json:"name"`
	Threads [][]op `json:"threads"`
}

var conScenarios = []conScenario{
	{"watch-watch-free", [][]op{{{"watch", 0, 0}, {"free", 0, 0}}, {{"watch", 1, 0}}, {{"get", 0, 0}}}},
	{"free-vs-watch", [][]op{{{"free", 0, 0}}, {{"watch", 1, 0}, {"get", 0, 0}}, {{"owners", 0, 0}}}},
	{"two-kinds", [][]op{{{"watch", 0, 0}, {"watch", 0, 1}}, {{"free", 0, 0}}, {{"list", 0, 1}, {"owners", 0, 1}}}},
	{"read-vs-free", [][]op{{{"get", 0, 0}}, {{"free", 0, 0}}, {{"list", 0, 0}}}},
	{"read-vs-free-vs-watch", [][]op{{{"list", 0, 0}, {"get", 0, 0}}, {{"free", 0, 0}}, {{"watch", 1, 1}}}},
	{"watch-same-owner-twice", [][]op{{{"watch", 0, 0}}, {{"watch", 0, 0}}, {{"free", 0, 0}}}},
}

type histEntry struct {
	Thread, Idx int
	Op          op
	Call, Ret   int
	Res         string
}

func conBody(sc conScenario, pre bool) explore.Body {
	return func(ctx *explore.Ctx) (string, string) {
		s := newSUT(nil, false, true)
		var viol []string
		if pre {
			// o1 already watches Widget (start from a non-initial state)
			if err := s.cache.Watch(context.Background(), owner(0), kindObj(0)); err != nil {
				return "setup: " + err.Error(), ""
			}
		}
		clock := 0
		var hist []*histEntry
		sch := vsched.Run(ctx, 5000, func() {
			for ti := range sc.Threads {
				ti := ti
				vsched.GoNamed(fmt.Sprintf("t%d", ti), func() {
					for i, o := range sc.Threads[ti] {
						h := &histEntry{Thread: ti, Idx: i, Op: o}
						clock++
						h.Call = clock
						hist = append(hist, h)
						res, _ := s.do(o)
						clock++
						h.Ret = clock
						h.Res = res
					}
				})
			}
		})
		if sch.Panic != "" {
			viol = append(viol, "panic: "+sch.Panic)
		}
		if sch.Deadlock != "" {
			viol = append(viol, "deadlock: "+sch.Deadlock)
		}
		if sch.Overrun {
			viol = append(viol, "step horizon exceeded")
		}
		var out string
		if len(viol) == 0 {
			finals := linearize(hist, pre)
			if len(finals) == 0 {
				var hs []string
				for _, h := range hist {
					hs = append(hs, fmt.Sprintf("t%d:%s[%d,%d]=%s", h.Thread, h.Op, h.Call, h.Ret, h.Res))
				}
				viol = append(viol, "history not linearizable w.r.t. the sequential cache model: "+strings.Join(hs, " "))
			} else {
				// final state: must be the end state of some valid linearization; informers run
				// exactly for watched kinds, with all handlers
				got := ""
				for k := range kinds {
					got += ownersString(s.cache.OwnersForGKV(kinds[k]))
				}
				if !finals[got] {
					viol = append(viol, fmt.Sprintf("final owner sets %s are not the end state of any valid linearization %v", got, keys(finals)))
				}
				for k := range kinds {
					watched := len(s.cache.OwnersForGKV(kinds[k])) > 0
					if watched != (s.im.live[k] != nil) {
						viol = append(viol, fmt.Sprintf("final state: informer for %s running=%v but watchers=%s", kinds[k].Kind, s.im.live[k] != nil, ownersString(s.cache.OwnersForGKV(kinds[k]))))
					}
					if inf := s.im.live[k]; inf != nil && (len(inf.handlers) != 2 || s.delivers(inf) != 2) {
						viol = append(viol, fmt.Sprintf("final state: informer #%d for %s has %d of 2 handlers", inf.id, kinds[k].Kind, len(inf.handlers)))
					}
				}
			}
			var rs []string
			for _, h := range hist {
				rs = append(rs, fmt.Sprintf("t%d.%d=%s", h.Thread, h.Idx, h.Res))
			}
			sort.Strings(rs)
			out = strings.Join(rs, " ") + fmt.Sprintf(" starts=%d", s.im.starts)
		}
		return strings.Join(viol, "\n"), out
	}
}

// linearize enumerates the total orders of the history that are consistent with real-time order and
// under which the sequential model produces the observed results; it returns the set of final
// states (owner sets per kind) of all of them (empty = not linearizable).
func linearize(hist []*histEntry, pre bool) map[string]bool {
	n := len(hist)
	used := make([]bool, n)
	finals := map[string]bool{}
	var rec func(m *model, done int)
	rec = func(m *model, done int) {
		if done == n {
			f := ""
			for k := range kinds {
				f += m.owners(k)
			}
			finals[f] = true
			return
		}
		for i, h := range hist {
			if used[i] {
				continue
			}
			// h may be next only if no unused entry returned before h was called
			ok := true
			for j, g := range hist {
				if !used[j] && j != i && g.Ret < h.Call {
					ok = false
					break
				}
			}
			if !ok {
				continue
			}
			nm := &model{}
			for k := range m.refs {
				nm.refs[k] = map[int]bool{}
				nm.maybe[k] = map[int]bool{}
				for o := range m.refs[k] {
					nm.refs[k][o] = true
				}
			}
			var want string
			switch h.Op.Kind {
			case "watch":
				nm.refs[h.Op.K][h.Op.Owner] = true
				want = "ok"
			case "free":
				for k := range nm.refs {
					delete(nm.refs[k], h.Op.Owner)
				}
				want = "ok"
			case "get", "list":
				want = "ok"
				if len(nm.refs[h.Op.K]) == 0 {
					want = "not-started"
				}
			case "owners":
				want = nm.owners(h.Op.K)
			}
			if want != h.Res {
				continue
			}
			used[i] = true
			rec(nm, done+1)
			used[i] = false
		}
	}
	m := newModel()
	if pre {
		m.refs[0][0] = true
	}
	rec(m, 0)
	return finals
}

func runCon(o checks.Opts) *report.Report {
	rep := report.New("C12", "concurrent")
	bound := 3
	if !o.Quick() {
		bound = 6
	}
	rep.Bounds["preemptions"] = bound
	rep.Rule = "every interleaving (<= `preemptions` preemptions at the cache's RWMutex operations and inside the scripted informer start) of 3 threads x 1-2 operations on the real Cache, from the empty state and from a state where o1 already watches Widget; each complete call/return history must be linearizable w.r.t. the sequential model and end with informers == watched kinds"
	for _, sc := range conScenarios {
		for _, pre := range []bool{false, true} {
			c1, _, o1 := explore.RunOnce(conBody(sc, pre), nil, nil)
			c2, _, o2 := explore.RunOnce(conBody(sc, pre), nil, nil)
			if o1 != o2 || len(c1.Points) != len(c2.Points) {
				rep.Fault = "nondeterministic default execution in " + sc.Name
				return rep
			}
			e := &explore.Explorer{Bound: bound, Shard: o.Shard, Shards: o.Shards, ShardLvl: 2}
			st := e.Explore(conBody(sc, pre))
			if len(st.Divergences) > 0 {
				rep.Fault = st.Divergences[0]
				return rep
			}
			rep.Executions += st.Executions
			rep.ImplTraces += st.Executions
			rep.States += st.Executions
			rep.Transitions += st.Points
			for k, v := range st.Outcomes {
				rep.Outcomes[fmt.Sprintf("%s/%v %s", sc.Name, pre, k)] += v
			}
			for _, v := range st.Violations {
				rep.AddViolation(report.Violation{Identity: identity(v.Message), Message: v.Message, Choices: v.Choices, Labels: v.Labels, Params: map[string]any{"scenario": sc.Name, "pre": pre}})
			}
			rep.NViolations += st.NViolations - int64(len(st.Violations))
			if o.Shard == 0 && !pre {
				rep.Samples = append(rep.Samples, map[string]any{"scenario": sc, "default_outcome": o1})
			}
		}
	}
	return rep
}

func replayCon(v report.Violation) string {
	name, _ := v.Params["scenario"].(string)
	pre, _ := v.Params["pre"].(bool)
	for _, sc := range conScenarios {
		if sc.Name == name {
			c, msg, _ := explore.RunOnce(conBody(sc, pre), v.Choices, v.Labels)
			if c.Divergence != "" {
				return "DIVERGENCE (harness fault): " + c.Divergence
			}
			return msg
		}
	}
	return "unknown scenario"
}

func runRace(o checks.Opts) *report.Report {
	rep := report.New("C12", "race")
	iters := 300
	if !o.Quick() {
		iters = 3000
	}
	rep.Bounds["iterations_per_scenario"] = iters
	rep.Bounds["auxiliary"] = true
	rep.Exhaustive = false
	rep.Rule = "free-running goroutines under the Go race detector on the same scenario bodies"
	for _, sc := range conScenarios {
		for i := 0; i < iters; i++ {
			s := newSUT(nil, false, false)
			var wg sync.WaitGroup
			for ti := range sc.Threads {
				wg.Add(1)
				go func(ti int) {
					defer wg.Done()
					for _, o := range sc.Threads[ti] {
						_, _ = s.do(o)
					}
				}(ti)
			}
			done := make(chan struct{})
			go func() { wg.Wait(); close(done) }()
			select {
			case <-done:
			case <-time.After(30 * time.Second):
				rep.CapsHit = append(rep.CapsHit, "free-running iteration did not finish in 30 s: "+sc.Name)
				rep.States, rep.Transitions = rep.Executions, rep.Executions
				return rep
			}
			rep.Executions++
			rep.ImplTraces++
			rep.Outcomes[sc.Name+" "+ownersString(s.cache.OwnersForGKV(kinds[0]))]++
		}
	}
	rep.States, rep.Transitions = rep.Executions, rep.Executions
	return rep
}

func init() {
	checks.Register(&checks.Check{
		ID:    "C12",
		Level: "model_checking",
		Assumptions: []string{
			"the informer map is scripted (the real one needs a REST config); its two failure modes mirror InformerMap.Get: error before an informer exists (mapping error) and error after it was started (sync timeout)",
			"whether an owner counts as registered after a failed Watch is left undecided (statement silent); everything else stays decided",
			"scheduling points: the RWMutex operations of cache.go/cache_source.go (build overlay) and one point inside the scripted informer start",
		},
		Subs: []*checks.Sub{
			{Name: "seq", Shards: func(t string) int { return 16 }, Run: runSeq, Replay: replaySeq},
			{Name: "concurrent", Shards: func(t string) int { return 8 }, Run: runCon, Replay: replayCon},
			{Name: "race", Run: runRace, Race: true},
			{Name: "real-informers", Run: runRealInformers, Parallel: true},
		},
	})
}
