package c12

import (
	"context"
	"encoding/json"
	"fmt"
	"net/http"
	"net/http/httptest"
	"strconv"
	"sync"
	"time"

	corev1 "k8s.io/api/core/v1"
	"k8s.io/apimachinery/pkg/api/meta"
	metav1 "k8s.io/apimachinery/pkg/apis/meta/v1"
	"k8s.io/apimachinery/pkg/runtime"
	"k8s.io/apimachinery/pkg/runtime/schema"
	"k8s.io/client-go/rest"
	"k8s.io/client-go/util/workqueue"
	"sigs.k8s.io/controller-runtime/pkg/client"
	"sigs.k8s.io/controller-runtime/pkg/event"
	"sigs.k8s.io/controller-runtime/pkg/handler"
	"sigs.k8s.io/controller-runtime/pkg/reconcile"

	"package-operator.run/internal/dynamiccache"
	"package-operator.run/internal/packages/zzverif/checks"
	"package-operator.run/internal/packages/zzverif/report"
)

// ---- auxiliary: the cache over its REAL informer map, against a minimal HTTP API server ----
//
// The exhaustive subs script the informer map; this free-running pass runs the real one (real
// list/watch requests, real shared informers) through a few fixed histories, to cover what only
// exists there: the lifetime of an informer relative to the contexts of the calls that started
// it, and the closing of its watch connection when the last owner is freed. Positive events are
// awaited with a generous deadline (30 s); nothing is concluded from fast wall-clock behaviour.

type miniAPI struct {
	mu      sync.Mutex
	rv      int
	objs    []map[string]any
	rvs     []int
	watches int // open watch connections
}

func (s *miniAPI) add(name string) {
	s.mu.Lock()
	defer s.mu.Unlock()
	s.rv++
	s.objs = append(s.objs, map[string]any{"apiVersion": "v1", "kind": "ConfigMap", "metadata": map[string]any{
		"name": name, "namespace": "test", "uid": "uid-" + name, "resourceVersion": strconv.Itoa(s.rv), "labels": map[string]any{"package-operator.run/cache": "True"}}})
	s.rvs = append(s.rvs, s.rv)
}

func (s *miniAPI) since(rv int) ([]map[string]any, []int, int) {
	s.mu.Lock()
	defer s.mu.Unlock()
	var o []map[string]any
	var r []int
	for i := range s.objs {
		if s.rvs[i] > rv {
			o, r = append(o, s.objs[i]), append(r, s.rvs[i])
		}
	}
	return o, r, s.rv
}

func (s *miniAPI) openWatches() int {
	s.mu.Lock()
	defer s.mu.Unlock()
	return s.watches
}

func (s *miniAPI) ServeHTTP(w http.ResponseWriter, r *http.Request) {
	if r.URL.Path != "/api/v1/configmaps" {
		http.NotFound(w, r)
		return
	}
	w.Header().Set("Content-Type", "application/json")
	if r.URL.Query().Get("watch") != "true" {
		objs, _, cur := s.since(0)
		items := make([]any, 0, len(objs))
		for _, o := range objs {
			items = append(items, o)
		}
		_ = json.NewEncoder(w).Encode(map[string]any{"apiVersion": "v1", "kind": "ConfigMapList", "metadata": map[string]any{"resourceVersion": strconv.Itoa(cur)}, "items": items})
		return
	}
	s.mu.Lock()
	s.watches++
	s.mu.Unlock()
	defer func() { s.mu.Lock(); s.watches--; s.mu.Unlock() }()
	last, _ := strconv.Atoi(r.URL.Query().Get("resourceVersion"))
	fl := w.(http.Flusher)
	w.WriteHeader(http.StatusOK)
	fl.Flush()
	enc := json.NewEncoder(w)
	for {
		objs, rvs, _ := s.since(last)
		for i, o := range objs {
			if err := enc.Encode(map[string]any{"type": "ADDED", "object": o}); err != nil {
				return
			}
			last = rvs[i]
		}
		fl.Flush()
		select {
		case <-r.Context().Done():
			return
		case <-time.After(10 * time.Millisecond):
		}
	}
}

func eventually(d time.Duration, f func() bool) bool {
	deadline := time.Now().Add(d)
	for time.Now().Before(deadline) {
		if f() {
			return true
		}
		time.Sleep(20 * time.Millisecond)
	}
	return f()
}

func runRealInformers(o checks.Opts) *report.Report {
	rep := report.New("C12", "real-informers")
	rep.Bounds["auxiliary"] = true
	rep.Exhaustive = false
	rep.Rule = "free-running, not exhaustive: the real dynamiccache.Cache over its real informer map against a minimal HTTP API server (LIST/WATCH of ConfigMaps), fixed histories: (1) owner A watches with a call-scoped context that is cancelled afterwards, owner B watches with a background context - a later object must still reach the registered controller handler and Get; (2) freeing A keeps the informer, freeing B as well closes its watch connection and makes Get fail with CacheNotStartedError; (3) watching again starts a working informer again; (4) five rounds of freeing the last owner while a burst of events is being delivered to a handler that resolves the owners through the cache - Free and the calls after it must return"
	bad := func(id, f string, a ...any) {
		rep.AddViolation(report.Violation{Identity: id, Message: fmt.Sprintf(f, a...)})
	}
	api := &miniAPI{}
	api.add("initial")
	srv := httptest.NewServer(api)
	defer srv.Close()
	scheme := runtime.NewScheme()
	_ = corev1.AddToScheme(scheme)
	cmGVK := schema.GroupVersionKind{Version: "v1", Kind: "ConfigMap"}
	mapper := meta.NewDefaultRESTMapper([]schema.GroupVersion{{Version: "v1"}})
	mapper.Add(cmGVK, meta.RESTScopeNamespace)
	c := dynamiccache.NewCache(&rest.Config{Host: srv.URL}, scheme, mapper, nil)
	var mu sync.Mutex
	seen := map[string]bool{}
	h := handler.Funcs{CreateFunc: func(_ context.Context, e event.CreateEvent, _ workqueue.TypedRateLimitingInterface[reconcile.Request]) {
		mu.Lock()
		seen[e.Object.GetName()] = true
		mu.Unlock()
	}}
	has := func(n string) func() bool {
		return func() bool { mu.Lock(); defer mu.Unlock(); return seen[n] }
	}
	mgrCtx, stop := context.WithCancel(context.Background())
	defer stop()
	q := workqueue.NewTypedRateLimitingQueue(workqueue.DefaultTypedControllerRateLimiter[reconcile.Request]())
	defer q.ShutDown()
	if err := c.Source(h).Start(mgrCtx, q); err != nil {
		rep.Fault = "source start: " + err.Error()
		return rep
	}
	// a second handler, the one the ObjectTemplate controllers register: it resolves the owners
	// watching the event's kind through the cache
	if err := c.Source(dynamiccache.NewEnqueueWatchingObjects(c, &corev1.Secret{}, scheme)).Start(mgrCtx, q); err != nil {
		rep.Fault = "second source start: " + err.Error()
		return rep
	}
	// ... and a slow one that does the same, so that under a burst of events its queue is never
	// empty: whenever Free takes the cache lock, a delivery to it is under way or pending
	slow := handler.Funcs{CreateFunc: func(_ context.Context, _ event.CreateEvent, _ workqueue.TypedRateLimitingInterface[reconcile.Request]) {
		time.Sleep(3 * time.Millisecond)
		c.OwnersForGKV(cmGVK)
	}}
	if err := c.Source(slow).Start(mgrCtx, q); err != nil {
		rep.Fault = "third source start: " + err.Error()
		return rep
	}
	if err := c.Start(mgrCtx); err != nil {
		rep.Fault = "cache start: " + err.Error()
		return rep
	}
	a := &corev1.Secret{ObjectMeta: metav1.ObjectMeta{Name: "owner-a", Namespace: "test", UID: "oa"}}
	b := &corev1.Secret{ObjectMeta: metav1.ObjectMeta{Name: "owner-b", Namespace: "test", UID: "ob"}}
	step := func() { rep.Executions++; rep.ImplTraces++ }

	// (1) the informer outlives the context of the call that started it
	callCtx, cancelCall := context.WithTimeout(context.Background(), 2*time.Minute)
	if err := c.Watch(callCtx, a, &corev1.ConfigMap{}); err != nil {
		cancelCall()
		rep.Fault = "watch: " + err.Error()
		return rep
	}
	step()
	if err := c.Watch(context.Background(), b, &corev1.ConfigMap{}); err != nil {
		cancelCall()
		rep.Fault = "watch: " + err.Error()
		return rep
	}
	step()
	if !eventually(30*time.Second, has("initial")) {
		bad("handler-missed-initial-object", "the registered controller handler never got the create event of the object present at Watch time")
	}
	cancelCall()
	time.Sleep(300 * time.Millisecond)
	api.add("late")
	step()
	if !eventually(30*time.Second, has("late")) {
		bad("informer-died-with-the-context-of-a-watch-call", "two owners still watch ConfigMaps, but after the context of the first Watch call was cancelled a new object is not delivered to the registered handler within 30 s (owners: %d)", len(c.OwnersForGKV(cmGVK)))
	} else if err := c.Get(context.Background(), client.ObjectKey{Name: "late", Namespace: "test"}, &corev1.ConfigMap{}); err != nil {
		bad("watched-kind-not-readable", "Get on a watched kind: %v", err)
	}
	// (2) free
	if err := c.Free(context.Background(), a); err != nil {
		bad("free-failed", "Free: %v", err)
	}
	step()
	api.add("after-free-a")
	if !eventually(30*time.Second, has("after-free-a")) {
		bad("informer-stopped-while-an-owner-remains", "owner B still watches ConfigMaps, but after freeing owner A a new object is not delivered within 30 s")
	}
	if err := c.Free(context.Background(), b); err != nil {
		bad("free-failed", "Free: %v", err)
	}
	step()
	if !eventually(30*time.Second, func() bool { return api.openWatches() == 0 }) {
		bad("informer-not-stopped", "every owner was freed, but the API server still has %d open watch connection(s) after 30 s", api.openWatches())
	}
	if err := c.Get(context.Background(), client.ObjectKey{Name: "late", Namespace: "test"}, &corev1.ConfigMap{}); err == nil {
		bad("read-of-unwatched-kind-succeeds", "Get on a kind nobody watches succeeded")
	}
	// (3) again
	if err := c.Watch(context.Background(), a, &corev1.ConfigMap{}); err != nil {
		bad("rewatch-failed", "Watch after Free: %v", err)
	} else {
		api.add("after-rewatch")
		if !eventually(30*time.Second, has("after-rewatch")) {
			bad("rewatched-informer-delivers-nothing", "after watching again a new object is not delivered to the registered handler within 30 s")
		}
		_ = c.Free(context.Background(), a)
	}
	step()
	// (4) the last owner is freed while events of the kind keep arriving at a handler that
	// resolves the watching owners through the cache (what the ObjectTemplate controllers
	// register): Free has to return, and so has every call after it
	for round := 0; round < 5 && len(rep.Violations) == 0; round++ {
		if err := c.Watch(context.Background(), a, &corev1.ConfigMap{}); err != nil {
			bad("rewatch-failed", "Watch after Free (round %d): %v", round, err)
			break
		}
		stopFeed := make(chan struct{})
		fed := make(chan struct{})
		go func() {
			defer close(fed)
			for i := 0; ; i++ {
				select {
				case <-stopFeed:
					return
				default:
				}
				api.add(fmt.Sprintf("burst-%d-%d", round, i))
				time.Sleep(2 * time.Millisecond)
			}
		}()
		time.Sleep(150 * time.Millisecond)
		freed := make(chan error, 1)
		go func() { freed <- c.Free(context.Background(), a) }()
		select {
		case err := <-freed:
			if err != nil {
				bad("free-failed", "Free under event load: %v", err)
			}
		case <-time.After(30 * time.Second):
			bad("free-wedged-under-event-load", "Free of the last owner did not return within 30 s while events of the kind were being delivered to a handler that reads the owner set: the cache is locked up")
		}
		close(stopFeed)
		<-fed
		step()
		if len(rep.Violations) == 0 {
			done := make(chan struct{})
			go func() { c.OwnersForGKV(cmGVK); close(done) }()
			select {
			case <-done:
			case <-time.After(10 * time.Second):
				bad("cache-wedged-after-free", "OwnersForGKV does not return after the last owner was freed under event load")
			}
		}
	}
	// (5) calls made with a context that is already done (a reconcile cancelled at shutdown, a
	// deadline that has passed): whether such a call succeeds is its own business, but once a
	// retried Free has succeeded the informer has to be gone like after any other Free
	if len(rep.Violations) == 0 {
		if err := c.Watch(context.Background(), a, &corev1.ConfigMap{}); err != nil {
			bad("rewatch-failed", "Watch after Free: %v", err)
		} else {
			api.add("before-cancelled-free")
			if !eventually(30*time.Second, has("before-cancelled-free")) {
				bad("rewatched-informer-delivers-nothing", "after watching again a new object is not delivered to the registered handler within 30 s")
			}
			doneCtx, cancelDone := context.WithCancel(context.Background())
			cancelDone()
			err1 := c.Free(doneCtx, a)
			step()
			var err2 error
			for i := 0; i < 3; i++ {
				if err2 = c.Free(context.Background(), a); err2 == nil {
					break
				}
			}
			step()
			if err2 != nil {
				bad("free-failed", "Free retried with a live context after a Free with a done context (%v): %v", err1, err2)
			} else {
				if !eventually(30*time.Second, func() bool { return api.openWatches() == 0 }) {
					bad("informer-not-stopped", "the only owner was freed with a context that was already done (answer: %v) and then again with a live one (answer: nil), but the API server still has %d open watch connection(s) after 30 s", err1, api.openWatches())
				}
				if err := c.Get(context.Background(), client.ObjectKey{Name: "late", Namespace: "test"}, &corev1.ConfigMap{}); err == nil {
					bad("read-of-unwatched-kind-succeeds", "Get on a kind nobody watches succeeded (after a Free with a done context)")
				}
			}
			// a Watch whose deadline has already passed cannot start an informer that stays behind
			pastCtx, cancelPast := context.WithDeadline(context.Background(), time.Now().Add(-time.Second))
			errW := c.Watch(pastCtx, b, &corev1.ConfigMap{})
			cancelPast()
			step()
			if errW != nil {
				// the failed Watch must not leave an informer running for a kind nobody watches
				if len(c.OwnersForGKV(cmGVK)) == 0 && !eventually(30*time.Second, func() bool { return api.openWatches() == 0 }) {
					bad("informer-left-behind-by-failed-watch", "Watch with an expired deadline failed (%v) and nobody watches ConfigMaps, but the API server still has %d open watch connection(s) after 30 s", errW, api.openWatches())
				}
			}
			_ = c.Free(context.Background(), b)
			step()
		}
	}
	rep.Outcomes[fmt.Sprintf("violations=%d", len(rep.Violations))]++
	rep.States, rep.Transitions = rep.Executions, rep.Executions
	return rep
}
