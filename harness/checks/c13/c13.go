// Package c13 checks property C13 (package rendering is deterministic and loses or duplicates
// no object): packages generated from a small grammar are rendered through the real pipeline
// under every map-iteration order at each instrumented `range` site (explorer-controlled),
// compared with each other and with a reference renderer that knows the expected documents.
package c13

import (
	"fmt"
	"reflect"
	"sort"
	"strings"
	"text/template"

	"package-operator.run/internal/apis/manifests"
	"package-operator.run/internal/packages/zzverif/checks"
	"package-operator.run/internal/packages/zzverif/explore"
	"package-operator.run/internal/packages/zzverif/pkgw"
	"package-operator.run/internal/packages/zzverif/report"
	"package-operator.run/internal/packages/zzverif/vorder"
	"package-operator.run/internal/transform"
)

// doc is one expected object document.
type doc struct {
	Path    string
	Index   int
	Name    string // may contain %x for the config value
	Phase   string
	Enabled bool // needs config.enabled
	CP      string
	CondMap int
}

type atom struct {
	ID    string
	Files map[string]string
	Docs  []doc
}

const celAnno = "package-operator.run/condition"

var atoms = []atom{
	{"A", map[string]string{"a.yaml": pkgw.WidgetYAML("Widget", "a", "p1", "1", nil)}, []doc{{Path: "a.yaml", Name: "a", Phase: "p1"}}},
	{"M", map[string]string{"multi.yaml": pkgw.WidgetYAML("Widget", "m1", "p2", "1", nil) + "---\n---\n" + pkgw.WidgetYAML("Widget", "m2", "p1", "1", nil)},
		[]doc{{Path: "multi.yaml", Index: 0, Name: "m1", Phase: "p2"}, {Path: "multi.yaml", Index: 2, Name: "m2", Phase: "p1"}}},
	{"T", map[string]string{"t.yaml.gotmpl": pkgw.WidgetYAML("Widget", "t", "p1", "{{.config.x}}", nil)}, []doc{{Path: "t.yaml", Name: "t", Phase: "p1"}}},
	{"H", map[string]string{"_helpers.gotmpl": `{{define "nm"}}inc-{{.config.x}}{{end}}`, "inc.yaml.gotmpl": pkgw.WidgetYAML("Widget", `{{include "nm" .}}`, "p2", "1", nil)},
		[]doc{{Path: "inc.yaml", Name: "inc-%x", Phase: "p2"}}},
	{"C", map[string]string{"cond/c.yaml": pkgw.WidgetYAML("Widget", "c", "p1", "1", nil)}, []doc{{Path: "cond/c.yaml", Name: "c", Phase: "p1", Enabled: true}}},
	{"L", map[string]string{"cel.yaml": pkgw.WidgetYAML("Widget", "l", "p3", "1", map[string]string{celAnno: "cond.enabled"})}, []doc{{Path: "cel.yaml", Name: "l", Phase: "p3", Enabled: true}}},
	{"R", map[string]string{"README.md": "# not yaml: {{ nothing }}\n"}, nil},
	{"N", map[string]string{"sub/dir/n.yaml": pkgw.WidgetYAML("Widget", "n", "p3", "1", nil)}, []doc{{Path: "sub/dir/n.yaml", Name: "n", Phase: "p3"}}},
	{"X", map[string]string{"ann.yaml": pkgw.WidgetYAML("Widget", "x", "p2", "1", map[string]string{
		"package-operator.run/collision-protection": "IfNoController", "package-operator.run/condition-map": "Ready => my/Ready", "keep": "me"})},
		[]doc{{Path: "ann.yaml", Name: "x", Phase: "p2", CP: "IfNoController", CondMap: 1}}},
	{"Z", map[string]string{"sub.yaml": pkgw.WidgetYAML("Gadget", "z", "p3", "1", nil)}, []doc{{Path: "sub.yaml", Name: "z", Phase: "p3"}}},
	bigAtom(),
	longLineAtom(),
	giantAtom(),
	// objects that already carry the package labels with other values (a manifest exported from a
	// cluster where another instance ran; a template stamping them from config): rendering
	// stamps this package's values over them
	{"Q", map[string]string{
		"exported.yaml":       strings.Replace(pkgw.WidgetYAML("Widget", "q-exported", "p2", "1", nil), "metadata:\n", "metadata:\n  labels:\n    package-operator.run/package: other-v1\n    package-operator.run/instance: some-other-instance\n    own: label\n", 1),
		"stamped.yaml.gotmpl": strings.Replace(pkgw.WidgetYAML("Widget", "q-stamped", "p1", "1", nil), "metadata:\n", "metadata:\n  labels:\n    package-operator.run/instance: 'from-config-{{.config.x}}'\n", 1),
	}, []doc{{Path: "exported.yaml", Name: "q-exported", Phase: "p2"}, {Path: "stamped.yaml", Name: "q-stamped", Phase: "p1"}}},
	// a multi-component package (manifest spec.components) rendered as the root package: root
	// files and folders whose names merely begin with "components" belong to the root, the files
	// under components/<name>/ do not
	{"W", map[string]string{
		"components.yaml":                  pkgw.WidgetYAML("Widget", "w-list-1", "p1", "1", nil) + "---\n" + pkgw.WidgetYAML("Widget", "w-list-2", "p3", "1", nil),
		"components-rbac/role.yaml":        pkgw.WidgetYAML("Widget", "w-role", "p2", "1", nil),
		"componentsx.yaml.gotmpl":          pkgw.WidgetYAML("Widget", "w-x-{{.config.x}}", "p2", "1", nil),
		"components/backend/manifest.yaml": pkgw.Manifest{Name: "backend", Phases: []string{"p1"}}.YAML(),
		"components/backend/obj.yaml":      pkgw.WidgetYAML("Widget", "backend-obj", "p1", "1", nil),
	}, []doc{{Path: "components.yaml", Index: 0, Name: "w-list-1", Phase: "p1"}, {Path: "components.yaml", Index: 1, Name: "w-list-2", Phase: "p3"},
		{Path: "components-rbac/role.yaml", Name: "w-role", Phase: "p2"}, {Path: "componentsx.yaml", Name: "w-x-%x", Phase: "p2"}}},
	// a helper defined in an ordinary template file (no leading underscore) and used from a file
	// that sorts before it
	{"D", map[string]string{
		"d1.yaml.gotmpl": `{{define "dn"}}dn-{{.config.x}}{{end}}` + pkgw.WidgetYAML("Widget", "d1", "p1", "1", nil),
		"d0.yaml.gotmpl": pkgw.WidgetYAML("Widget", `{{include "dn" .}}`, "p3", "1", nil)},
		[]doc{{Path: "d0.yaml", Name: "dn-%x", Phase: "p3"}, {Path: "d1.yaml", Name: "d1", Phase: "p1"}}},
}

// longLineAtom: a multi-document file whose second document carries a single line of 70 KiB
// (a minified dashboard, a one-line CA bundle), followed by one more document.
func longLineAtom() atom {
	long := strings.Repeat("x", 70*1024)
	mk := func(name, payload string) string {
		return strings.Replace(pkgw.WidgetYAML("Widget", name, "p2", "1", nil), "spec:\n", "data:\n  payload: \""+payload+"\"\nspec:\n", 1)
	}
	return atom{ID: "K", Files: map[string]string{"long.yaml": mk("k1", "short") + "---\n" + mk("k2", long) + "---\n" + mk("k3", "short")},
		Docs: []doc{{Path: "long.yaml", Index: 0, Name: "k1", Phase: "p2"}, {Path: "long.yaml", Index: 1, Name: "k2", Phase: "p2"}, {Path: "long.yaml", Index: 2, Name: "k3", Phase: "p2"}}}
}

// giantAtom: one multi-document file with five objects of ~300 KiB each in one phase - together
// beyond the 1 MiB limit under which the deployer keeps a phase inline, so that the rendered
// phase reaches the cluster spread over several ObjectSlices.
func giantAtom() atom {
	a := atom{ID: "G", Files: map[string]string{}}
	var parts []string
	for d := 0; d < 5; d++ {
		name := fmt.Sprintf("giant-%d", d)
		parts = append(parts, pkgw.WidgetYAML("Widget", name, "p2", "1\n  blob: "+strings.Repeat("g", 300<<10), nil))
		a.Docs = append(a.Docs, doc{Path: "giant.yaml", Index: d, Name: name, Phase: "p2"})
	}
	a.Files["giant.yaml"] = strings.Join(parts, "---\n")
	return a
}

// bigAtom: five files with three documents each (15 objects, above the small-slice thresholds
// of the standard sort routines), all in one phase so that their relative order is observable.
func bigAtom() atom {
	a := atom{ID: "B", Files: map[string]string{}}
	for f := 1; f <= 5; f++ {
		path := fmt.Sprintf("big/f%d.yaml", f)
		var parts []string
		for d := 0; d < 3; d++ {
			name := fmt.Sprintf("big-%d-%d", f, d)
			parts = append(parts, pkgw.WidgetYAML("Widget", name, "p2", "1", nil))
			a.Docs = append(a.Docs, doc{Path: path, Index: d, Name: name, Phase: "p2"})
		}
		a.Files[path] = strings.Join(parts, "---\n")
	}
	return a
}

// Pkg is one generated package + context.
type Pkg struct {
	Atoms   string   `json:"atoms"`
	Phases  []string `json:"phases"`
	X       int64    `json:"x"`
	Enabled bool     `json:"enabled"`
}

func (p Pkg) files() map[string]string {
	m := pkgw.Manifest{Name: "gen", Phases: p.Phases, ConfigProps: map[string]string{"x": "integer", "enabled": "boolean"},
		Conditions: map[string]string{"enabled": "config.enabled == true"}, Paths: map[string]string{"cond/**": "cond.enabled"}}
	m.Components = strings.Contains(p.Atoms, "W")
	files := map[string]string{"manifest.yaml": m.YAML()}
	for _, a := range atoms {
		if strings.Contains(p.Atoms, a.ID) {
			for k, v := range a.Files {
				files[k] = v
			}
		}
	}
	return files
}

func (p Pkg) ctx() map[string]any { return map[string]any{"x": p.X, "enabled": p.Enabled} }

// expected is the reference renderer: phase -> ordered object names (plus per-object facts).
type expObj struct {
	Kind, Name, CP string
	CondMap        int
}

func (p Pkg) expected() map[string][]expObj {
	var docs []doc
	for _, a := range atoms {
		if strings.Contains(p.Atoms, a.ID) {
			docs = append(docs, a.Docs...)
		}
	}
	sort.SliceStable(docs, func(i, j int) bool {
		pi, pj := strings.ReplaceAll(docs[i].Path, "/", "\x00"), strings.ReplaceAll(docs[j].Path, "/", "\x00")
		if pi != pj {
			return pi < pj
		}
		return docs[i].Index < docs[j].Index
	})
	out := map[string][]expObj{}
	for _, d := range docs {
		if d.Enabled && !p.Enabled {
			continue
		}
		kind := "Widget"
		if d.Name == "z" {
			kind = "Gadget"
		}
		out[d.Phase] = append(out[d.Phase], expObj{Kind: kind, Name: strings.ReplaceAll(d.Name, "%x", fmt.Sprint(p.X)), CP: d.CP, CondMap: d.CondMap})
	}
	return out
}

func render(p Pkg) pkgw.RenderResult {
	return pkgw.Render(p.files(), "", pkgw.Context("inst", "ns", p.ctx(), manifests.PackageEnvironment{Kubernetes: manifests.PackageEnvironmentKubernetes{Version: "v1.27.0"}}))
}

// conservation compares a render with the reference.
func conservation(p Pkg, r pkgw.RenderResult) []string {
	var out []string
	if r.Err != nil {
		return []string{fmt.Sprintf("a valid generated package failed to render: %s: %v", r.Class, r.Err)}
	}
	exp := p.expected()
	var wantPhases []string
	for _, ph := range p.Phases {
		if len(exp[ph]) > 0 {
			wantPhases = append(wantPhases, ph)
		}
	}
	var gotPhases []string
	for _, ph := range r.Spec.Phases {
		gotPhases = append(gotPhases, ph.Name)
	}
	if !reflect.DeepEqual(gotPhases, wantPhases) {
		out = append(out, fmt.Sprintf("phases %v, want %v (manifest order, non-empty only)", gotPhases, wantPhases))
		return out
	}
	for _, ph := range r.Spec.Phases {
		var got []expObj
		for _, o := range ph.Objects {
			u := o.Object
			got = append(got, expObj{Kind: u.GetKind(), Name: u.GetName(), CP: string(o.CollisionProtection), CondMap: len(o.ConditionMappings)})
			l := u.GetLabels()
			if l["package-operator.run/package"] != "gen" || l["package-operator.run/instance"] != "inst" {
				out = append(out, fmt.Sprintf("object %s lacks the package labels: %v", u.GetName(), l))
			}
			for k := range u.GetAnnotations() {
				if strings.HasPrefix(k, "package-operator.run/") {
					out = append(out, fmt.Sprintf("object %s still carries control annotation %s", u.GetName(), k))
				}
			}
			if u.GetName() == "q-exported" && l["own"] != "label" {
				out = append(out, "object q-exported lost its own label")
			}
			if u.GetName() == "x" && u.GetAnnotations()["keep"] != "me" {
				out = append(out, "object x lost its own annotation")
			}
		}
		if !reflect.DeepEqual(got, exp[ph.Name]) {
			out = append(out, fmt.Sprintf("phase %s contains %v, want %v (every passing object exactly once, path-then-document order)", ph.Name, got, exp[ph.Name]))
		}
	}
	return out
}

func body(p Pkg, ref *pkgw.RenderResult) explore.Body {
	return func(ctx *explore.Ctx) (string, string) {
		vorder.Install(func(site string, n int) int {
			return ctx.Choose(vorder.Alternatives(n), 1, fmt.Sprintf("%s n=%d", site, n))
		})
		defer vorder.Install(nil)
		r := render(p)
		var viol []string
		if ref != nil {
			if r.Class != ref.Class {
				viol = append(viol, fmt.Sprintf("outcome depends on map order: %q vs %q under the canonical order", r.Class, ref.Class))
			} else if r.Err == nil && (r.Hash != ref.Hash || !reflect.DeepEqual(r.Spec, ref.Spec)) {
				viol = append(viol, fmt.Sprintf("rendered ObjectSetTemplateSpec depends on map iteration order: hash %s vs %s under the canonical order\n%s", r.Hash, ref.Hash, diffSpecs(r, *ref)))
			}
		}
		viol = append(viol, conservation(p, r)...)
		return strings.Join(viol, "\n"), r.Class + ":" + r.Hash
	}
}

func diffSpecs(a, b pkgw.RenderResult) string {
	f := func(r pkgw.RenderResult) string {
		var s []string
		for _, ph := range r.Spec.Phases {
			var n []string
			for _, o := range ph.Objects {
				n = append(n, o.Object.GetName())
			}
			s = append(s, ph.Name+"{"+strings.Join(n, ",")+"}")
		}
		return strings.Join(s, " ")
	}
	return "this order: " + f(a) + " | canonical: " + f(b)
}

func packages(quick bool) []Pkg {
	var subsets []string
	ids := "AMTHCLRNXZ"
	maxN := 4
	var rec func(start int, cur string)
	rec = func(start int, cur string) {
		subsets = append(subsets, cur)
		if len(cur) == maxN {
			return
		}
		for i := start; i < len(ids); i++ {
			rec(i+1, cur+string(ids[i]))
		}
	}
	rec(0, "")
	subsets = append(subsets, "B", "BM", "BATX", "D", "DH", "DAM", "DTC", "K", "KA", "G", "GMX", "W", "WAM", "WTN", "Q", "QAX")
	if !quick {
		subsets = append(subsets, ids, "AMTHCL", "MNXZCL", "ATHRNXZ", "B"+ids)
	}
	var out []Pkg
	for _, s := range subsets {
		for _, ph := range [][]string{{"p1", "p2", "p3"}, {"p3", "p1", "p2"}} {
			for _, cfg := range []Pkg{{X: 1, Enabled: true}, {X: 2, Enabled: false}} {
				out = append(out, Pkg{Atoms: s, Phases: ph, X: cfg.X, Enabled: cfg.Enabled})
			}
		}
	}
	return out
}

func runOrders(o checks.Opts) *report.Report {
	rep := report.New("C13", "orders")
	bound := 1
	if !o.Quick() {
		bound = 2
	}
	rep.Bounds["deviating_range_sites"] = bound
	pk := packages(o.Quick())
	rep.Bounds["packages"] = len(pk)
	rep.Rule = "packages = every subset (<= 4 of 10) of file atoms {static doc, multi-doc with empty document, .gotmpl using .config, _helpers define + include, file under a conditional path, object with CEL condition annotation, non-YAML file, nested directory, object with collision-protection/condition-map annotations, sibling path}, plus packages with a 5-file x 3-document block (15 objects in one phase) packages with a 70 KiB single-line value in the middle document of a file, and packages in which a helper template is defined in an ordinary .gotmpl file and used from a file that sorts before it, x 2 manifest phase orders x 2 configs; each rendered by the real load/validate/render pipeline under the canonical order and under every permutation (n<=4: all n!, else 4 representative orders) of the keys at <= `deviating_range_sites` executed `range`-over-map statements of packagerender, celctx and packagestructure (every map range found by type-checking the current source is routed through vorder by the build overlay); distinct = (outcome class, template hash)"
	for i, p := range pk {
		if o.Shards > 1 && i%o.Shards != o.Shard {
			continue
		}
		ref := render(p)
		e := &explore.Explorer{Bound: bound}
		st := e.Explore(body(p, &ref))
		if len(st.Divergences) > 0 {
			rep.Fault = st.Divergences[0]
			return rep
		}
		rep.Executions += st.Executions
		rep.ImplTraces += st.Executions
		rep.States += st.Executions
		rep.Transitions += st.Points
		for k, v := range st.Outcomes {
			rep.Outcomes[k] += v
		}
		for j, v := range st.Violations {
			if j > 0 {
				break
			}
			id := "order-dependent"
			if !strings.Contains(v.Message, "depends on map") {
				id = "conservation"
			}
			rep.AddViolation(report.Violation{Identity: id, Message: v.Message + fmt.Sprintf("\npackage: %+v", p), Choices: v.Choices, Labels: v.Labels, Params: map[string]any{"package": p}})
		}
		if st.NViolations > 0 {
			rep.NViolations += st.NViolations - 1
		}
		if o.Shard == 0 && len(rep.Samples) < 2 && i%97 == 0 {
			rep.Samples = append(rep.Samples, map[string]any{"package": p, "executions": st.Executions, "hash": ref.Hash})
		}
	}
	return rep
}

func replayOrders(v report.Violation) string {
	var p Pkg
	if err := checks.Decode(v.Params["package"], &p); err != nil {
		return err.Error()
	}
	ref := render(p)
	c, msg, _ := explore.RunOnce(body(p, &ref), v.Choices, v.Labels)
	if c.Divergence != "" {
		return "DIVERGENCE (harness fault): " + c.Divergence
	}
	return msg
}

// ---- purity of the template function set ----

var impure = map[string]string{
	"now": "clock", "date": "clock", "dateInZone": "clock", "date_in_zone": "clock", "dateModify": "clock", "date_modify": "clock", "mustDateModify": "clock",
	"must_date_modify": "clock", "ago": "clock", "htmlDate": "clock", "htmlDateInZone": "clock", "unixEpoch": "clock", "toDate": "clock", "mustToDate": "clock", "duration": "", "durationRound": "",
	"randAlphaNum": "randomness", "randAlpha": "randomness", "randAscii": "randomness", "randNumeric": "randomness", "randBytes": "randomness", "randInt": "randomness", "shuffle": "randomness", "uuidv4": "randomness",
	"env": "environment", "expandenv": "environment", "getHostByName": "network",
	"genPrivateKey": "randomness", "derivePassword": "", "buildCustomCert": "", "genCA": "randomness", "genCAWithKey": "", "genSelfSignedCert": "randomness", "genSelfSignedCertWithKey": "",
	"genSignedCert": "randomness", "genSignedCertWithKey": "", "encryptAES": "randomness", "decryptAES": "", "htpasswd": "randomness", "bcrypt": "randomness",
	"osBase": "host files", "osClean": "host files", "osDir": "host files", "osExt": "host files", "osIsAbs": "host files",
}

func runPurity(o checks.Opts) *report.Report {
	rep := report.New("C13", "purity")
	rep.Rule = "the complete template function map handed to package templates (SprigFuncs + FileFuncs) is enumerated and intersected with the functions that reach clock, randomness, environment, network or host files"
	t := template.New("x")
	fm := transform.SprigFuncs(t)
	for k, v := range transform.FileFuncs(map[string][]byte{"f": []byte("x")}) {
		fm[k] = v
	}
	var names []string
	for k := range fm {
		names = append(names, k)
	}
	sort.Strings(names)
	for _, n := range names {
		rep.Executions++
		if why, bad := impure[n]; bad && why != "" {
			rep.Outcomes["impure"]++
			rep.AddViolation(report.Violation{Identity: "impure-template-function " + n, Message: fmt.Sprintf("template function %q is available to package templates and reaches %s", n, why), Params: map[string]any{"function": n}})
		} else {
			rep.Outcomes["pure"]++
		}
	}
	rep.Bounds["functions"] = len(names)
	rep.ImplTraces, rep.States, rep.Transitions = rep.Executions, rep.Executions, rep.Executions
	rep.Samples = append(rep.Samples, names[:5])
	return rep
}

func init() {
	checks.Register(&checks.Check{
		ID:    "C13",
		Level: "exploration",
		Assumptions: []string{
			"map iteration order is controlled at the range statements of packagerender/{objects,objectsettemplate,template}.go and packagestructure/structure.go (sites listed in harness/hooks/vinstr.json); a range site added elsewhere is not permuted",
			"template names defined at most once (quantifier); keys inserted into a map during its own iteration are not revisited",
		},
		Subs: []*checks.Sub{
			{Name: "orders", Shards: func(string) int { return 16 }, Run: runOrders, Replay: replayOrders},
			{Name: "purity", Run: runPurity},
			{Name: "unchanged-package", Shards: func(string) int { return 8 }, Run: runSystem, Replay: replaySystem},
			{Name: "environment-isolation", Shards: func(string) int { return 2 }, Run: runEnvPkg, Replay: replayEnvPkg},
		},
	})
}
