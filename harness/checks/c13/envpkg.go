package c13

import (
	"fmt"
	"strings"

	metav1 "k8s.io/apimachinery/pkg/apis/meta/v1"
	"k8s.io/apimachinery/pkg/types"

	corev1alpha1 "package-operator.run/apis/core/v1alpha1"
	"package-operator.run/internal/apis/manifests"
	hypershiftv1beta1 "package-operator.run/internal/controllers/hostedclusters/hypershift/v1beta1"
	"package-operator.run/internal/packages/zzverif/checks"
	"package-operator.run/internal/packages/zzverif/kmodel"
	"package-operator.run/internal/packages/zzverif/osw"
	"package-operator.run/internal/packages/zzverif/pkgw"
	"package-operator.run/internal/packages/zzverif/report"
	"package-operator.run/internal/packages/zzverif/world"
)

// ---- "a pure function of its files, configuration, images and environment" across Packages ----
//
// One long-lived operator process reconciles the same package image in a HyperShift
// hosted-control-plane namespace and in an ordinary namespace, in every order, while the
// HostedCluster comes and goes and the users edit the configuration (which forces a re-render).
// Whenever a pass rendered, the deployed template equals what the files give for THAT Package's
// configuration and THAT namespace's environment at that moment - whatever the process rendered
// for another namespace before.

const envPkgExpr = `'{{ if hasKey .environment "hyperShift" }}{{ if .environment.hyperShift.hostedCluster }}{{ .environment.hyperShift.hostedCluster.metadata.name }}@{{ .environment.hyperShift.hostedCluster.hostedClusterNamespace }}{{ else }}none{{ end }}{{ else }}no-hypershift{{ end }}/{{ .config.x }}'`

type envPkgScenario struct {
	HyperShift bool     `json:"hyperShift"`
	Namespaces []string `json:"namespaces"`
	Toggles    int      `json:"toggles"`
	Edits      int      `json:"edits"`
	LongLived  bool     `json:"longLived"`
}

func (sc envPkgScenario) name() string {
	return fmt.Sprintf("package-environment hyperShift=%v namespaces=%v toggles=%d edits=%d longLived=%v", sc.HyperShift, sc.Namespaces, sc.Toggles, sc.Edits, sc.LongLived)
}

var envPkgHC = kmodel.Key{Group: "hypershift.openshift.io", Kind: "HostedCluster", Namespace: "clusters", Name: "hc1"}

func envPkgWant(sc envPkgScenario, s *kmodel.Store, ns string, x any) string {
	env := "no-hypershift"
	if sc.HyperShift {
		env = "none"
		if s.Objs[envPkgHC] != nil && ns == "clusters-hc1" {
			env = "hc1@clusters-hc1"
		}
	}
	return fmt.Sprintf("%s/%v", env, x)
}

func envPkgSystem(sc envPkgScenario) *world.System {
	files := map[string]string{
		"manifest.yaml": pkgw.Manifest{Name: "app", Phases: []string{"p1"}, ConfigProps: map[string]string{"x": "integer"}}.YAML(),
		"w.yaml.gotmpl": pkgw.WidgetYAML("Widget", "w", "p1", envPkgExpr, nil),
	}
	return &world.System{
		Name:       sc.name(),
		Persistent: sc.LongLived,
		Init: func() *world.World {
			w := osw.NewWorld()
			if sc.LongLived {
				w.LongLived()
			}
			env := manifests.PackageEnvironment{Kubernetes: manifests.PackageEnvironmentKubernetes{Version: "v1.27.0"}}
			if sc.HyperShift {
				env.HyperShift = &manifests.PackageEnvironmentHyperShift{}
			}
			w.Pkg = &world.PackageEnv{Images: map[string]map[string]string{"img": files}, Env: env}
			for _, ns := range sc.Namespaces {
				pk := &corev1alpha1.Package{ObjectMeta: metav1.ObjectMeta{Name: "p", Namespace: ns}, Spec: corev1alpha1.PackageSpec{Image: "img"}}
				pk.Spec.Config = rawExt(`{"x":1}`)
				w.MustCreate(pk)
			}
			w.Budget["toggle"] = sc.Toggles
			w.Budget["edit"] = sc.Edits
			return w
		},
		Events: func(w *world.World) []world.Event {
			var evs []world.Event
			for _, ns := range sc.Namespaces {
				ns := ns
				evs = append(evs, world.Event{Name: "reconcile:package:" + ns + "/p", Apply: func(w *world.World) *world.Pass {
					return w.Reconcile(world.CtrlPackage, types.NamespacedName{Namespace: ns, Name: "p"}, nil)
				}})
				if w.Budget["edit"] > 0 {
					k := world.PKOKey("Package", ns, "p")
					cur, _ := world.Nested(w.S.Objs[k].Content, "spec", "config", "x")
					for _, next := range []int64{1, 2} {
						if fmt.Sprint(cur) == fmt.Sprint(next) {
							continue
						}
						next := next
						evs = append(evs, world.Event{Name: fmt.Sprintf("user:set-config:%s/p:x=%d", ns, next), Apply: func(w *world.World) *world.Pass {
							w.Budget["edit"]--
							_ = w.Edit(k, func(c map[string]any) { c["spec"].(map[string]any)["config"] = map[string]any{"x": next} })
							return nil
						}})
					}
				}
			}
			if w.Budget["toggle"] > 0 {
				if w.S.Objs[envPkgHC] == nil {
					evs = append(evs, world.Event{Name: "hypershift:create-hostedcluster:hc1", Apply: func(w *world.World) *world.Pass {
						w.Budget["toggle"]--
						w.MustCreate(&hypershiftv1beta1.HostedCluster{ObjectMeta: metav1.ObjectMeta{Name: "hc1", Namespace: "clusters"}})
						return nil
					}})
				} else {
					evs = append(evs, world.Event{Name: "hypershift:delete-hostedcluster:hc1", Apply: func(w *world.World) *world.Pass {
						w.Budget["toggle"]--
						_ = w.S.Delete(envPkgHC, kmodel.DeleteOpts{})
						return nil
					}})
				}
			}
			return evs
		},
		Check: func(before *world.World, ev world.Event, pass *world.Pass, after *world.World) []world.Finding {
			if pass == nil || pass.Ctrl != world.CtrlPackage {
				return nil
			}
			var out []world.Finding
			bad := func(id, f string, a ...any) {
				out = append(out, world.Finding{Monitor: "package-environment", Identity: id, Message: fmt.Sprintf(f, a...)})
			}
			ns := pass.Key.Namespace
			if pass.Err != nil {
				bad("environment-package-pass-fails", "the pass of Package %s/p failed: %v", ns, pass.Err)
				return out
			}
			if pass.Pulls == 0 {
				return nil // nothing was rendered in this pass
			}
			x, _ := world.Nested(before.S.Objs[world.PKOKey("Package", ns, "p")].Content, "spec", "config", "x")
			want := envPkgWant(sc, before.S, ns, x)
			od := after.S.Objs[world.PKOKey("ObjectDeployment", ns, "p")]
			if od == nil {
				bad("environment-package-not-deployed", "Package %s/p rendered but no ObjectDeployment exists", ns)
				return out
			}
			got := "<no object>"
			ph, _ := world.Nested(od.Content, "spec", "template", "spec", "phases")
			if l, _ := ph.([]any); len(l) > 0 {
				m, _ := l[0].(map[string]any)
				objs, _ := m["objects"].([]any)
				if len(objs) > 0 {
					om, _ := objs[0].(map[string]any)
					v, _ := world.Nested(om, "object", "spec", "x")
					got = fmt.Sprint(v)
				}
			}
			if got != want {
				bad("rendered-with-foreign-or-stale-environment", "Package %s/p was rendered in this pass; the deployed template has spec.x=%q but its configuration and the environment of namespace %s at that moment give %q (what the process rendered for another namespace before must not matter)", ns, got, ns, want)
			}
			return out
		},
	}
}

func envPkgScenarios(quick bool) []envPkgScenario {
	out := []envPkgScenario{
		{HyperShift: true, Namespaces: []string{"clusters-hc1", world.NS}, Toggles: 2, Edits: 2, LongLived: true},
		{HyperShift: false, Namespaces: []string{"clusters-hc1", world.NS}, Toggles: 1, Edits: 1, LongLived: true},
	}
	if !quick {
		out = append(out, envPkgScenario{HyperShift: true, Namespaces: []string{"clusters-hc1", world.NS}, Toggles: 3, Edits: 3, LongLived: true})
	}
	return out
}

func runEnvPkg(o checks.Opts) *report.Report {
	rep := report.New("C13", "environment-isolation")
	rep.Rule = "explicit-state BFS, all passes of a history in one long-lived operator process: Packages p of the same image in a HyperShift hosted-control-plane namespace and in an ordinary namespace; events = reconcile of each Package in any order, the HostedCluster being created and deleted, config edits (each forces a re-render; budgets); after every pass that rendered, the deployed template equals the files rendered with that Package's configuration and that namespace's environment at that moment"
	scs := envPkgScenarios(o.Quick())
	rep.Bounds["systems"] = len(scs)
	for i, sc := range scs {
		if o.Shards > 1 && i%o.Shards != o.Shard {
			continue
		}
		sys := envPkgSystem(sc)
		sys.MaxStates = 60000
		osw.RunBFS(rep, sys, map[string]any{"scenario": sc})
		if len(rep.Samples) < 1 {
			rep.Samples = append(rep.Samples, map[string]any{"scenario": sc, "example_path": strings.Split("hypershift:create-hostedcluster:hc1 reconcile:package:clusters-hc1/p user:set-config:ns/p:x=2 reconcile:package:ns/p", " ")})
		}
	}
	return rep
}

func replayEnvPkg(v report.Violation) string {
	var sc envPkgScenario
	if err := checks.Decode(v.Params["scenario"], &sc); err != nil {
		return err.Error()
	}
	return osw.ReplayBFS(envPkgSystem(sc), v)
}
