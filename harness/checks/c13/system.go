package c13

import (
	"encoding/json"
	"fmt"
	"sort"
	"strings"

	metav1 "k8s.io/apimachinery/pkg/apis/meta/v1"

	corev1alpha1 "package-operator.run/apis/core/v1alpha1"
	"package-operator.run/internal/apis/manifests"
	"package-operator.run/internal/packages/zzverif/checks"
	"package-operator.run/internal/packages/zzverif/explore"
	"package-operator.run/internal/packages/zzverif/osw"
	"package-operator.run/internal/packages/zzverif/pkgw"
	"package-operator.run/internal/packages/zzverif/report"
	"package-operator.run/internal/packages/zzverif/vorder"
	"package-operator.run/internal/packages/zzverif/world"
)

// "An unchanged Package never produces a new revision": the Package is unpacked, then forced to
// re-render the same spec (changed packageHashModifier) under every map order; the
// ObjectDeployment's template must not change and the ObjectDeployment controller must create
// no ObjectSet.
func systemBody(p Pkg) explore.Body {
	return func(ctx *explore.Ctx) (string, string) {
		w := osw.NewWorld()
		w.LongLived()
		env := manifests.PackageEnvironment{Kubernetes: manifests.PackageEnvironmentKubernetes{Version: "v1.27.0"}}
		w.Pkg = &world.PackageEnv{Images: map[string]map[string]string{"img": p.files()}, Env: env}
		pk := &corev1alpha1.Package{ObjectMeta: metav1.ObjectMeta{Name: "inst", Namespace: world.NS}, Spec: corev1alpha1.PackageSpec{Image: "img"}}
		cfg := fmt.Sprintf(`{"x":%d,"enabled":%v}`, p.X, p.Enabled)
		pk.Spec.Config = rawExt(cfg)
		w.MustCreate(pk)
		nn := osw.NN("inst")
		p1 := w.Reconcile(world.CtrlPackage, nn, nil)
		if p1.Err != nil {
			return "", "first unpack failed: " + p1.Err.Error()
		}
		w.Reconcile(world.CtrlObjectDeployment, nn, nil)
		for _, k := range osw.ObjectSetsOf(w.S, "") {
			_ = k
		}
		// reconcile every ObjectSet once so that it reports its revision, then the deployment again
		for _, e := range osw.ReconcileEvents(w) {
			if strings.HasPrefix(e.Name, "reconcile:os:") {
				e.Apply(w)
			}
		}
		w.Reconcile(world.CtrlObjectDeployment, nn, nil)
		odBefore := w.S.Objs[osw.ODKey("inst")]
		if odBefore == nil {
			return "", "no deployment"
		}
		// what reached the cluster is what was rendered: the deployment's template, with its
		// ObjectSlices resolved in the order it names them, holds every object exactly once
		if deployed, err := deployedSpec(w, odBefore.Content); err != nil {
			return "what the Package controller deployed cannot be resolved: " + err.Error(), ""
		} else if v := conservation(p, pkgw.RenderResult{Spec: deployed}); len(v) > 0 {
			return "the deployed ObjectDeployment (slices resolved) does not conserve the package's objects: " + strings.Join(v, "; "), ""
		}
		tmplBefore := osw.TemplateOf(odBefore.Content)
		nOS := countObjectSets(w)
		// force a re-render of the unchanged spec under an explorer-chosen map order
		one := int32(1)
		w.Pkg = &world.PackageEnv{Images: w.Pkg.Images, Env: env, HashModifier: &one}
		w.Restart() // the hash modifier is a manager flag: changing it means a new operator process
		vorder.Install(func(site string, n int) int {
			return ctx.Choose(vorder.Alternatives(n), 1, fmt.Sprintf("%s n=%d", site, n))
		})
		p2 := w.Reconcile(world.CtrlPackage, nn, nil)
		vorder.Install(nil)
		var viol []string
		if p2.Pulls == 0 {
			viol = append(viol, "harness: the changed hash modifier did not force a re-unpack")
		}
		if p2.Err != nil {
			viol = append(viol, "re-unpack of an unchanged package failed: "+p2.Err.Error())
		}
		if t := osw.TemplateOf(w.S.Objs[osw.ODKey("inst")].Content); t != tmplBefore {
			viol = append(viol, "re-rendering the unchanged Package changed the ObjectDeployment's template (map-order dependent rendering)")
		}
		w.Reconcile(world.CtrlObjectDeployment, nn, nil)
		if n := countObjectSets(w); n != nOS {
			viol = append(viol, fmt.Sprintf("an unchanged Package produced a new revision: %d ObjectSets before, %d after", nOS, n))
		}
		return strings.Join(viol, "\n"), fmt.Sprintf("objectsets=%d", nOS)
	}
}

// deployedSpec is the ObjectDeployment's template with every phase's ObjectSlices inlined after
// its own objects, in the order the template names them.
func deployedSpec(w *world.World, od map[string]any) (corev1alpha1.ObjectSetTemplateSpec, error) {
	var d corev1alpha1.ObjectDeployment
	b, _ := json.Marshal(od)
	if err := json.Unmarshal(b, &d); err != nil {
		return corev1alpha1.ObjectSetTemplateSpec{}, err
	}
	out := d.Spec.Template.Spec
	for i := range out.Phases {
		for _, sn := range out.Phases[i].Slices {
			so := w.S.Objs[world.PKOKey("ObjectSlice", world.NS, sn)]
			if so == nil {
				return out, fmt.Errorf("phase %q references ObjectSlice %q which does not exist", out.Phases[i].Name, sn)
			}
			var sl corev1alpha1.ObjectSlice
			sb, _ := json.Marshal(so.Content)
			if err := json.Unmarshal(sb, &sl); err != nil {
				return out, err
			}
			out.Phases[i].Objects = append(out.Phases[i].Objects, sl.Objects...)
		}
		out.Phases[i].Slices = nil
	}
	return out, nil
}

func countObjectSets(w *world.World) int {
	n := 0
	for k := range w.S.Objs {
		if k.Kind == "ObjectSet" {
			n++
		}
	}
	return n
}

func runSystem(o checks.Opts) *report.Report {
	rep := report.New("C13", "unchanged-package")
	rep.Rule = "for a subset of the generated packages: real Package -> ObjectDeployment -> ObjectSet controllers unpack the package, then the same spec is force-re-rendered (packageHashModifier) under every map order at one executed range site; the deployment's template must stay identical and no ObjectSet may be created; what was deployed (template with its ObjectSlices resolved, incl. packages whose phase exceeds the 1 MiB chunk limit) must hold every object of the reference render exactly once"
	var pk []Pkg
	for i, p := range packages(true) {
		if (len(p.Atoms) >= 3 && i%7 == 0) || strings.Contains(p.Atoms, "G") || strings.Contains(p.Atoms, "W") {
			pk = append(pk, p)
		}
	}
	// the packages with an oversized phase first (the quick tier keeps a prefix)
	sort.SliceStable(pk, func(i, j int) bool {
		return strings.ContainsAny(pk[i].Atoms, "GW") && !strings.ContainsAny(pk[j].Atoms, "GW")
	})
	if o.Quick() && len(pk) > 48 {
		pk = pk[:48]
	}
	rep.Bounds["packages"] = len(pk)
	for i, p := range pk {
		if o.Shards > 1 && i%o.Shards != o.Shard {
			continue
		}
		e := &explore.Explorer{Bound: 1}
		st := e.Explore(systemBody(p))
		if len(st.Divergences) > 0 {
			rep.Fault = st.Divergences[0]
			return rep
		}
		rep.Executions += st.Executions
		rep.ImplTraces += st.Executions
		rep.States += st.Executions
		rep.Transitions += st.Points
		for k, v := range st.Outcomes {
			rep.Outcomes[k] += v
		}
		for j, v := range st.Violations {
			if j > 0 {
				break
			}
			rep.AddViolation(report.Violation{Identity: "unchanged-package-new-revision", Message: v.Message + fmt.Sprintf("\npackage: %+v", p), Choices: v.Choices, Labels: v.Labels, Params: map[string]any{"package": p}})
		}
		if st.NViolations > 0 {
			rep.NViolations += st.NViolations - 1
		}
		if len(rep.Samples) < 1 {
			rep.Samples = append(rep.Samples, map[string]any{"package": p, "executions": st.Executions})
		}
	}
	return rep
}

func replaySystem(v report.Violation) string {
	var p Pkg
	if err := checks.Decode(v.Params["package"], &p); err != nil {
		return err.Error()
	}
	c, msg, _ := explore.RunOnce(systemBody(p), v.Choices, v.Labels)
	if c.Divergence != "" {
		return "DIVERGENCE (harness fault): " + c.Divergence
	}
	return msg
}
