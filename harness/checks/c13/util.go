package c13

import "k8s.io/apimachinery/pkg/runtime"

func rawExt(s string) *runtime.RawExtension { return &runtime.RawExtension{Raw: []byte(s)} }
