// Package c14 checks property C14 (ObjectSlices are a transparent, lossless encoding):
// (a) chunking around the 1 MiB limit for all strategies + content-determined slice names and
// collision handling through the real PackageDeployer; (b) inline vs sliced differential of
// rollout, status and teardown; (c) slice garbage collection over package update histories.
package c14

import (
	"context"
	"encoding/json"
	"fmt"
	"reflect"
	"sort"
	"strings"

	metav1 "k8s.io/apimachinery/pkg/apis/meta/v1"
	"k8s.io/apimachinery/pkg/types"
	"k8s.io/apimachinery/pkg/apis/meta/v1/unstructured"

	corev1alpha1 "package-operator.run/apis/core/v1alpha1"
	"package-operator.run/internal/apis/manifests"
	"package-operator.run/internal/packages/internal/packagedeploy"
	"package-operator.run/internal/packages/zzverif/checks"
	"package-operator.run/internal/packages/zzverif/checks/c06"
	"package-operator.run/internal/packages/zzverif/kmodel"
	"package-operator.run/internal/packages/zzverif/osw"
	"package-operator.run/internal/packages/zzverif/pkgw"
	"package-operator.run/internal/packages/zzverif/report"
	"package-operator.run/internal/packages/zzverif/world"
)

const limit = 1024 * 1024

// ---- (a1) chunking ----

type chunker interface {
	Chunk(ctx context.Context, phase *corev1alpha1.ObjectSetTemplatePhase) ([][]corev1alpha1.ObjectSetObject, error)
}

func sizedObject(name string, size int) corev1alpha1.ObjectSetObject {
	u := unstructured.Unstructured{Object: map[string]any{"apiVersion": "v1", "kind": "ConfigMap", "metadata": map[string]any{"name": name}, "data": map[string]any{"p": ""}}}
	b, _ := json.Marshal(u.Object)
	pad := size - len(b)
	if pad < 0 {
		pad = 0
	}
	u.Object["data"].(map[string]any)["p"] = strings.Repeat("x", pad)
	return corev1alpha1.ObjectSetObject{Object: u}
}

func runChunking(o checks.Opts) *report.Report {
	rep := report.New("C14", "chunking")
	sizes := []int{limit / 3, limit/2 - 1, limit / 2, limit/2 + 1, limit - 1, limit, limit + 1}
	maxN := 3
	if !o.Quick() {
		maxN = 4
	}
	rep.Bounds["sizes"] = len(sizes)
	rep.Bounds["max_objects"] = maxN
	rep.Rule = "phases of 0..max_objects objects with JSON sizes from {L/3, L/2-1, L/2, L/2+1, L-1, L, L+1} (L = 1 MiB) x {NoOp, EachObject, BinpackNextFit}: the in-order concatenation of the chunks equals the input, no chunk is empty, BinpackNextFit chunks stay within L unless a single object is larger; distinct = (strategy, number of chunks)"
	// pre-build objects per size
	pool := map[int][]corev1alpha1.ObjectSetObject{}
	for _, s := range sizes {
		for i := 0; i < maxN; i++ {
			pool[s] = append(pool[s], sizedObject(fmt.Sprintf("o%d-%d", s, i), s))
		}
	}
	strategies := map[string]chunker{"NoOp": &packagedeploy.NoOpChunker{}, "EachObject": &packagedeploy.EachObjectChunker{}, "BinpackNextFit": &packagedeploy.BinpackNextFitChunker{}}
	var combos [][]int
	var rec func(cur []int)
	rec = func(cur []int) {
		combos = append(combos, append([]int{}, cur...))
		if len(cur) == maxN {
			return
		}
		for _, s := range sizes {
			rec(append(cur, s))
		}
	}
	rec(nil)
	rep.Bounds["phases"] = len(combos)
	for ci, combo := range combos {
		if o.Shards > 1 && ci%o.Shards != o.Shard {
			continue
		}
		phase := &corev1alpha1.ObjectSetTemplatePhase{Name: "p"}
		for i, s := range combo {
			phase.Objects = append(phase.Objects, pool[s][i])
		}
		var want []string
		for _, ob := range phase.Objects {
			want = append(want, ob.Object.GetName())
		}
		for sn, ch := range strategies {
			chunks, err := ch.Chunk(context.Background(), phase)
			rep.Executions++
			rep.Outcomes[fmt.Sprintf("%s chunks=%d", sn, len(chunks))]++
			bad := func(id, f string, a ...any) {
				rep.AddViolation(report.Violation{Identity: id + " " + sn, Message: fmt.Sprintf(f, a...) + fmt.Sprintf("\nstrategy %s sizes %v", sn, combo), Params: map[string]any{"strategy": sn, "sizes": combo}})
			}
			if err != nil {
				bad("chunk-error", "chunker failed: %v", err)
				continue
			}
			if len(chunks) == 0 {
				continue // no chunking: the objects stay inline
			}
			var got []string
			for _, c := range chunks {
				if len(c) == 0 {
					bad("empty-chunk", "an empty chunk was produced")
				}
				sum := 0
				for _, ob := range c {
					got = append(got, ob.Object.GetName())
					b, _ := json.Marshal(ob.Object)
					sum += len(b)
				}
				if sn == "BinpackNextFit" && len(c) > 1 && sum > limit {
					bad("chunk-over-limit", "a chunk of %d objects has %d bytes (> 1 MiB)", len(c), sum)
				}
			}
			if !reflect.DeepEqual(got, want) {
				bad("chunks-lose-or-reorder-objects", "concatenated chunks %v != phase objects %v", got, want)
			}
		}
	}
	rep.ImplTraces, rep.States, rep.Transitions = rep.Executions, rep.Executions, rep.Executions
	rep.Samples = append(rep.Samples, map[string]any{"sizes": []int{limit / 2, limit/2 + 1, limit / 3}, "strategy": "BinpackNextFit"})
	return rep
}

// ---- (a2) slice names through the real deployer ----

func pkgFiles(objNames []string, x string) map[string]string {
	files := map[string]string{"manifest.yaml": pkgw.Manifest{Name: "app", Phases: []string{"p1", "p2"}}.YAML()}
	for i, n := range objNames {
		ph := "p1"
		if i > 0 {
			ph = "p2"
		}
		files[n+".yaml"] = pkgw.WidgetYAML("Widget", n, ph, x, nil)
	}
	return files
}

func newPkgWorld(images map[string]map[string]string, image string) *world.World {
	w := osw.NewWorld()
	w.Pkg = &world.PackageEnv{Images: images, Env: manifests.PackageEnvironment{Kubernetes: manifests.PackageEnvironmentKubernetes{Version: "v1.27.0"}}}
	w.MustCreate(&corev1alpha1.Package{ObjectMeta: metav1.ObjectMeta{Name: "p", Namespace: world.NS, Annotations: map[string]string{"packages.package-operator.run/chunking-strategy": "EachObject"}},
		Spec: corev1alpha1.PackageSpec{Image: image}})
	return w
}

func sliceNames(w *world.World) []string {
	var out []string
	for _, k := range w.S.SortedKeys() {
		if k.Kind == "ObjectSlice" {
			out = append(out, k.Name)
		}
	}
	return out
}

func sliceObjects(w *world.World, name string) []string {
	o := w.S.Objs[world.PKOKey("ObjectSlice", world.NS, name)]
	if o == nil {
		return nil
	}
	l, _ := o.Content["objects"].([]any)
	var out []string
	for _, e := range l {
		m, _ := e.(map[string]any)
		ob, _ := m["object"].(map[string]any)
		out = append(out, kmodel.Digest(ob))
	}
	return out
}

// phaseEncoding: per phase, the canonical JSON of every ObjectSetObject (object, collision
// protection, condition mappings) of a template, with the phase's ObjectSlices resolved against
// the store in the order the template names them.
func phaseEncoding(w *world.World, t corev1alpha1.ObjectSetTemplateSpec) (map[string][]string, error) {
	out := map[string][]string{}
	for _, ph := range t.Phases {
		objs := append([]corev1alpha1.ObjectSetObject{}, ph.Objects...)
		for _, sn := range ph.Slices {
			so := w.S.Objs[world.PKOKey("ObjectSlice", world.NS, sn)]
			if so == nil {
				return nil, fmt.Errorf("phase %q references ObjectSlice %q which does not exist", ph.Name, sn)
			}
			var sl corev1alpha1.ObjectSlice
			b, _ := json.Marshal(so.Content)
			if err := json.Unmarshal(b, &sl); err != nil {
				return nil, err
			}
			objs = append(objs, sl.Objects...)
		}
		for _, ob := range objs {
			b, _ := json.Marshal(ob)
			var v any
			_ = json.Unmarshal(b, &v)
			nb, _ := json.Marshal(v)
			out[ph.Name] = append(out[ph.Name], string(nb))
		}
	}
	return out, nil
}

func runNaming(o checks.Opts) *report.Report {
	rep := report.New("C14", "slice-names")
	rep.Rule = "the real Package controller + PackageDeployer deploy images v1{a,b} and v1cp (objects with collision-protection and condition-map annotations) under EachObject / BinpackNextFit / default chunking: the deployed template with its ObjectSlices resolved equals, per phase and in order, the ObjectSetObjects of a fresh render (object, collisionProtection, conditionMappings); (EachObject chunking) images v1{a,b}, v1 again, v2{a,c}; slice names must be equal for equal content and different for different content; with a pre-seeded ObjectSlice that carries the computed name but other content / another controller the name must not be reused"
	images := map[string]map[string]string{"v1": pkgFiles([]string{"a", "b"}, "1"), "v2": pkgFiles([]string{"a", "c"}, "1"), "v1x": pkgFiles([]string{"a", "b"}, "2")}
	// objects with everything an ObjectSetObject can carry besides the object itself
	images["v1cp"] = pkgFiles([]string{"a", "b"}, "1")
	images["v1cp"]["c.yaml"] = pkgw.WidgetYAML("Widget", "c", "p2", "1", map[string]string{"package-operator.run/collision-protection": "IfNoController"})
	images["v1cp"]["d.yaml"] = pkgw.WidgetYAML("Widget", "d", "p2", "1", map[string]string{"package-operator.run/collision-protection": "None", "package-operator.run/condition-map": "Ready => my/Ready"})
	images["v1cp"]["e.yaml"] = pkgw.WidgetYAML("Widget", "e", "p1", "1", map[string]string{"package-operator.run/condition-map": "Ready => my/Ready\nProgressing => my/Progressing", "keep": "me"})
	bad := func(id, f string, a ...any) {
		rep.AddViolation(report.Violation{Identity: id, Message: fmt.Sprintf(f, a...)})
	}
	run := func(w *world.World) []string {
		p := w.Reconcile(world.CtrlPackage, osw.NN("p"), nil)
		rep.Executions++
		if p.Err != nil {
			bad("deploy-error", "deploy failed: %v", p.Err)
		}
		od := w.S.Objs[osw.ODKey("p")]
		var refs []string
		if od != nil {
			for _, ph := range specSlices(od.Content) {
				refs = append(refs, ph...)
			}
		}
		return refs
	}
	// lossless encoding: what the deployer wrote (template + slices) holds, per phase and in
	// order, exactly the ObjectSetObjects of a fresh render - the objects and their collision
	// protection and condition mappings
	for _, strategy := range []string{"EachObject", "BinpackNextFit", ""} {
		for _, img := range []string{"v1", "v1cp"} {
			w := newPkgWorld(images, img)
			_ = w.Edit(world.PKOKey("Package", world.NS, "p"), func(c map[string]any) {
				a := c["metadata"].(map[string]any)["annotations"].(map[string]any)
				if strategy == "" {
					delete(a, "packages.package-operator.run/chunking-strategy")
				} else {
					a["packages.package-operator.run/chunking-strategy"] = strategy
				}
			})
			run(w)
			od := w.S.Objs[osw.ODKey("p")]
			if od == nil {
				bad("deploy-error", "image %s strategy %q: no ObjectDeployment", img, strategy)
				continue
			}
			var d corev1alpha1.ObjectDeployment
			b, _ := json.Marshal(od.Content)
			_ = json.Unmarshal(b, &d)
			got, err := phaseEncoding(w, d.Spec.Template.Spec)
			tctx := pkgw.Context("p", world.NS, map[string]any{}, w.Pkg.Env)
			tctx.Package.Image = img
			ref := pkgw.Render(images[img], "", tctx)
			if err != nil || ref.Err != nil {
				bad("slices-do-not-encode-phase", "image %s strategy %q: cannot resolve / render: %v %v", img, strategy, err, ref.Err)
				continue
			}
			want, _ := phaseEncoding(w, ref.Spec)
			rep.Outcomes[fmt.Sprintf("encoding %s %q phases=%d", img, strategy, len(got))]++
			if !reflect.DeepEqual(got, want) {
				bad("slices-do-not-encode-phase", "image %s strategy %q: the deployed template with its slices resolved differs from the rendered phases:\n got  %v\n want %v", img, strategy, got, want)
			}
		}
	}
	w1 := newPkgWorld(images, "v1")
	n1 := run(w1)
	w2 := newPkgWorld(images, "v1")
	n2 := run(w2)
	if len(n1) != 2 || !reflect.DeepEqual(n1, n2) {
		bad("names-not-content-determined", "same content gave slice names %v and %v", n1, n2)
	}
	w3 := newPkgWorld(images, "v1x")
	n3 := run(w3)
	for _, a := range n1 {
		for _, b := range n3 {
			if a == b {
				bad("different-content-same-name", "different content shares slice name %s", a)
			}
		}
	}
	rep.Outcomes[fmt.Sprintf("names v1=%v v1x=%v", n1, n3)]++
	// collisions: after a first deployment a third party tampers with slice #0 (other content /
	// another controller / nothing), then the same spec is re-deployed (packageHashModifier)
	for _, mode := range []string{"other-content", "other-controller", "same-content-same-controller"} {
		w := newPkgWorld(images, "v1")
		first := run(w)
		if len(first) != 2 {
			bad("harness", "first deployment produced %v", first)
			continue
		}
		target := first[0]
		tk := world.PKOKey("ObjectSlice", world.NS, target)
		switch mode {
		case "other-content":
			_ = w.Edit(tk, func(c map[string]any) {
				c["objects"] = []any{map[string]any{"object": map[string]any{"apiVersion": "verif.example/v1", "kind": "Widget", "metadata": map[string]any{"name": "intruder"}}}}
			})
		case "other-controller":
			_ = w.Edit(tk, func(c map[string]any) {
				c["metadata"].(map[string]any)["ownerReferences"] = []any{map[string]any{"apiVersion": "v1", "kind": "ConfigMap", "name": "someone", "uid": "uid-someone", "controller": true}}
			})
		}
		one := int32(1)
		w.Pkg = &world.PackageEnv{Images: w.Pkg.Images, Env: w.Pkg.Env, HashModifier: &one}
		refs := run(w)
		rep.Outcomes[fmt.Sprintf("collision %s reused=%v", mode, len(refs) > 0 && refs[0] == target)]++
		reused := false
		for _, r := range refs {
			if r == target {
				reused = true
			}
		}
		switch mode {
		case "same-content-same-controller":
			if !reused {
				bad("equal-slice-not-reused", "an equal slice controlled by the deployment exists but a new name was used: %v", refs)
			}
		default:
			if reused {
				bad("colliding-slice-name-reused", "slice name %s is occupied (%s) but the deployment references it", target, mode)
			}
		}
		// whatever is referenced must hold exactly the phase's single object
		for i, r := range refs {
			objs := sliceObjects(w, r)
			if len(objs) != 1 || strings.Contains(objs[0], "intruder") {
				bad("referenced-slice-wrong-content", "referenced slice #%d %s does not hold the phase's object (%d objects)", i, r, len(objs))
			}
		}
	}
	rep.ImplTraces, rep.States, rep.Transitions = rep.Executions, rep.Executions, rep.Executions
	rep.Samples = append(rep.Samples, map[string]any{"v1_slice_names": n1})
	return rep
}

func kmodelCopy(c map[string]any) map[string]any {
	b, _ := json.Marshal(c)
	var out map[string]any
	_ = json.Unmarshal(b, &out)
	return out
}

func specSlices(odOrOS map[string]any) [][]string {
	spec, _ := odOrOS["spec"].(map[string]any)
	if t, ok := spec["template"].(map[string]any); ok {
		spec, _ = t["spec"].(map[string]any)
	}
	phases, _ := spec["phases"].([]any)
	var out [][]string
	for _, p := range phases {
		pm, _ := p.(map[string]any)
		l, _ := pm["slices"].([]any)
		var s []string
		for _, e := range l {
			s = append(s, fmt.Sprint(e))
		}
		out = append(out, s)
	}
	return out
}

// ---- (b) inline vs sliced differential ----

type diffScenario struct {
	N      int      `json:"phases"`
	Mask   uint     `json:"delegated"`
	Script []string `json:"script"`
	// NoProbes: the ObjectSet has no availability probes (every phase passes at once)
	NoProbes bool `json:"noProbes"`
}

func buildOS(w *world.World, sc diffScenario, sliced bool) {
	cfg := osw.B1(sc.N, sc.Mask)
	ps := osw.PhaseSpecs(cfg, 1)
	if sliced {
		for i := range ps {
			name := fmt.Sprintf("r1-slice-%d", i)
			w.MustCreate(&corev1alpha1.ObjectSlice{ObjectMeta: metav1.ObjectMeta{Name: name, Namespace: world.NS}, Objects: ps[i].Objects})
			ps[i].Slices = []string{name}
			ps[i].Objects = nil
		}
	}
	probes := world.StdProbes()
	if sc.NoProbes {
		probes = nil
	}
	w.MustCreate(world.NewObjectSet("r1", ps, probes))
}

func step(w *world.World, ev string) {
	switch {
	case ev == "round":
		for _, e := range osw.ReconcileEvents(w) {
			e.Apply(w)
		}
		w.GC()
	case strings.HasPrefix(ev, "ready:"), strings.HasPrefix(ev, "notready:"):
		cls, n, _ := strings.Cut(ev, ":")
		for _, kind := range []string{"Widget", "Gadget"} {
			k := world.KeyOf(kind, world.NS, n)
			if o := w.S.Objs[k]; o != nil {
				_ = w.SetStatus(k, osw.StatusFor(o.Content, cls))
			}
		}
	case strings.HasPrefix(ev, "foreign:"):
		// an object somebody else created occupies the name: the phase collides and the ObjectSet
		// never gets to report what it controls
		w.MustCreate(world.Obj("Widget", world.NS, strings.TrimPrefix(ev, "foreign:"), map[string]any{"x": int64(7)}))
	case ev == "pause":
		osw.SetLifecycle(w, "r1", "Paused")
	case ev == "unpause":
		osw.SetLifecycle(w, "r1", "Active")
	case ev == "archive":
		osw.SetLifecycle(w, "r1", "Archived")
	case ev == "delete":
		_ = w.S.Delete(osw.OSKey("r1"), kmodel.DeleteOpts{})
	}
}

// project renders what the statement compares: managed objects and the ObjectSet's status.
func project(w *world.World) string {
	var sb strings.Builder
	for _, k := range w.S.SortedKeys() {
		if k.Group != world.TestGroup {
			continue
		}
		c := w.S.Objs[k].Content
		var ctl []string
		for _, o := range world.Controllers(c, false) {
			ctl = append(ctl, o.Kind+"/"+o.Name)
		}
		x, _ := world.Nested(c, "spec", "x")
		fmt.Fprintf(&sb, "%s x=%v rev=%s controllers=%v cache=%s terminating=%v\n", k, x, kmodel.Annotations(c)[world.RevisionAnnotation], ctl, kmodel.Labels(c)["package-operator.run/cache"], kmodel.Terminating(c))
	}
	if os := w.S.Objs[osw.OSKey("r1")]; os != nil {
		c := os.Content
		var conds []string
		st, _ := c["status"].(map[string]any)
		l, _ := st["conditions"].([]any)
		for _, e := range l {
			m, _ := e.(map[string]any)
			conds = append(conds, fmt.Sprintf("%v=%v/%v", m["type"], m["status"], m["reason"]))
		}
		sort.Strings(conds)
		fmt.Fprintf(&sb, "ObjectSet r1 lifecycle=%s terminating=%v finalizer=%v conditions=%v controllerOf=%v\n", osw.Lifecycle(c), kmodel.Terminating(c), osw.HasFinalizer(c, "package-operator.run/cached"), conds, osw.ControllerOfList(c))
	} else {
		sb.WriteString("ObjectSet r1 gone\n")
	}
	return sb.String()
}

var rollout = []string{"round", "ready:a", "round", "round", "ready:b", "ready:g", "round", "round", "ready:c", "round", "round"}

func diffScenarios(quick bool) []diffScenario {
	tails := [][]string{
		{},
		{"archive", "round", "round", "round", "round"},
		{"delete", "round", "round", "round", "round"},
		{"notready:a", "round", "pause", "round", "ready:a", "round", "unpause", "round", "round"},
		{"notready:b", "round", "round", "archive", "round", "round", "round"},
	}
	var out []diffScenario
	shapes := []struct {
		n int
		m uint
	}{{2, 0}, {2, 0b10}}
	if !quick {
		shapes = append(shapes, struct {
			n int
			m uint
		}{3, 0}, struct {
			n int
			m uint
		}{3, 0b101}, struct {
			n int
			m uint
		}{2, 0b11})
	}
	for _, sh := range shapes {
		for _, t := range tails {
			out = append(out, diffScenario{N: sh.n, Mask: sh.m, Script: append(append([]string{}, rollout...), t...)})
		}
		// a later phase collides with a foreign object, so status.controllerOf is never reported;
		// then the ObjectSet is archived / deleted
		for _, end := range []string{"archive", "delete"} {
			out = append(out, diffScenario{N: sh.n, Mask: sh.m, Script: []string{"foreign:b", "round", "ready:a", "round", "round", end, "round", "round", "round", "round"}})
			out = append(out, diffScenario{N: sh.n, Mask: sh.m, NoProbes: true, Script: []string{"foreign:b", "round", "round", end, "round", "round", "round", "round"}})
		}
	}
	return out
}

func judgeDiff(sc diffScenario) (string, string) {
	wi, ws := osw.NewWorld(), osw.NewWorld()
	wi.LongLived()
	ws.LongLived()
	buildOS(wi, sc, false)
	buildOS(ws, sc, true)
	for i, ev := range sc.Script {
		step(wi, ev)
		step(ws, ev)
		pi, psl := project(wi), project(ws)
		if pi != psl {
			return fmt.Sprintf("after step %d (%s) the sliced ObjectSet behaves differently from the inline one:\n--- inline\n%s--- sliced\n%s", i, ev, pi, psl), ""
		}
	}
	return "", project(wi)
}

func runDiff(o checks.Opts) *report.Report {
	rep := report.New("C14", "inline-vs-sliced")
	rep.Rule = "the same scripted history (rollout with objects becoming ready, then one of: nothing, archive, delete, probe regression + pause/unpause, regression + archive; fair reconcile rounds of the real ObjectSet/ObjectSetPhase controllers + GC in between) is run on an ObjectSet with inline objects and on the same ObjectSet with each phase's objects in an ObjectSlice; after every step the projections (managed objects: spec, revision, controllers, cache label; ObjectSet: lifecycle, finalizer, condition type/status/reason, controllerOf) must be equal"
	scs := diffScenarios(o.Quick())
	rep.Bounds["scenarios"] = len(scs)
	for i, sc := range scs {
		if o.Shards > 1 && i%o.Shards != o.Shard {
			continue
		}
		msg, final := judgeDiff(sc)
		rep.Executions += int64(len(sc.Script)) * 2
		rep.ImplTraces += int64(len(sc.Script)) * 2
		rep.Outcomes[final]++
		if msg != "" {
			id := "sliced-differs"
			tail := strings.Join(sc.Script, ",")
			if len(sc.Script) >= len(rollout) && strings.Join(sc.Script[:len(rollout)], ",") == strings.Join(rollout, ",") {
				tail = strings.Join(sc.Script[len(rollout):], ",")
			}
			switch {
			case strings.Contains(tail, "archive"):
				id = "sliced-differs-on-archival"
			case strings.Contains(tail, "delete"):
				id = "sliced-differs-on-deletion"
			}
			rep.AddViolation(report.Violation{Identity: id, Message: msg + fmt.Sprintf("\nscenario: %+v", sc), Params: map[string]any{"scenario": sc}})
		}
		if len(rep.Samples) < 1 {
			rep.Samples = append(rep.Samples, sc)
		}
	}
	rep.States, rep.Transitions = rep.Executions, rep.Executions
	return rep
}

func replayDiff(v report.Violation) string {
	var sc diffScenario
	if err := checks.Decode(v.Params["scenario"], &sc); err != nil {
		return err.Error()
	}
	msg, _ := judgeDiff(sc)
	return msg
}

// ---- (c) slice garbage collection ----

func gcSystem(edits int, chain bool, stale int, longLived ...bool) *world.System {
	ll := len(longLived) > 0 && longLived[0]
	// nb: a Package of the same name in another namespace (image n1{x,y}) is rolled out before
	// the history starts; nothing the history does in namespace ns may touch its slices
	nb := len(longLived) > 1 && longLived[1]
	images := map[string]map[string]string{"v1": pkgFiles([]string{"a", "b"}, "1"), "v2": pkgFiles([]string{"a", "c"}, "1"), "v3": pkgFiles([]string{"a", "d"}, "1"), "n1": pkgFiles([]string{"x", "y"}, "1")}
	return &world.System{
		Name:       fmt.Sprintf("package updates edits=%d chain=%v stale=%d longLived=%v neighbour=%v", edits, chain, stale, ll, nb),
		Persistent: ll,
		Init: func() *world.World {
			w := newPkgWorld(images, "v1")
			if ll {
				w.LongLived()
			}
			if nb {
				w.MustCreate(&corev1alpha1.Package{ObjectMeta: metav1.ObjectMeta{Name: "p", Namespace: "other", Annotations: map[string]string{"packages.package-operator.run/chunking-strategy": "EachObject"}},
					Spec: corev1alpha1.PackageSpec{Image: "n1"}})
				if p := w.Reconcile(world.CtrlPackage, types.NamespacedName{Namespace: "other", Name: "p"}, nil); p.Err != nil {
					panic("c14: neighbour package did not unpack: " + p.Err.Error())
				}
			}
			w.Budget["edit"] = edits
			w.Budget["stale"] = stale
			return w
		},
		Events: func(w *world.World) []world.Event {
			evs := []world.Event{{Name: "reconcile:pkg:p", Apply: func(w *world.World) *world.Pass { return w.Reconcile(world.CtrlPackage, osw.NN("p"), nil) }}}
			if ll {
				// the long-lived system is about what the package deployer remembers: Package and
				// ObjectDeployment passes and image edits only (path replay makes every state cost its depth)
				for _, e := range osw.ReconcileEvents(w) {
					if strings.HasPrefix(e.Name, "reconcile:od:") {
						evs = append(evs, e)
					}
				}
			} else {
				evs = append(evs, osw.ReconcileEvents(w)...)
			}
			evs = append(evs, osw.GCEvent(w)...)
			if w.Budget["edit"] > 0 {
				pk := w.S.Objs[world.PKOKey("Package", world.NS, "p")]
				cur, _ := world.Nested(pk.Content, "spec", "image")
				order := map[string]string{"v1": "v2", "v2": "v3", "v3": "v1"}
				for _, next := range []string{"v1", "v2", "v3"} {
					if cur == next || (chain && order[fmt.Sprint(cur)] != next) {
						continue
					}
					next := next
					evs = append(evs, world.Event{Name: "user:set-image:" + next, Apply: func(w *world.World) *world.Pass {
						w.Budget["edit"]--
						_ = w.Edit(world.PKOKey("Package", world.NS, "p"), func(c map[string]any) { c["spec"].(map[string]any)["image"] = next })
						return nil
					}})
				}
			}
			// a lagging informer cache: an ObjectSet pass that does not see one of its slices yet
			if w.Budget["stale"] > 0 {
				for _, k := range w.S.SortedKeys() {
					if k.Kind != "ObjectSet" || k.Group != "package-operator.run" {
						continue
					}
					c := w.S.Objs[k].Content
					if osw.Lifecycle(c) == "Archived" || kmodel.Terminating(c) {
						continue
					}
					for _, ph := range specSlices(c) {
						for _, sn := range ph {
							sk := world.PKOKey("ObjectSlice", world.NS, sn)
							if w.S.Objs[sk] == nil {
								continue
							}
							k, sk := k, sk
							evs = append(evs, world.Event{Name: fmt.Sprintf("reconcile-stale:os:%s (cache misses slice %s)", k.Name, sk.Name), Apply: func(w *world.World) *world.Pass {
								w.Budget["stale"]--
								return w.Reconcile(world.CtrlObjectSet, osw.NN(k.Name), &world.Plan{HideInList: []kmodel.Key{sk}})
							}})
						}
					}
				}
			}
			// objects become ready so that revisions get archived and pruned
			for _, k := range w.S.SortedKeys() {
				if ll {
					break
				}
				if k.Group == world.TestGroup && osw.StatusClass(w.S.Objs[k].Content) != "ready" {
					k := k
					evs = append(evs, world.Event{Name: "workload:" + k.Name + "=ready", Apply: func(w *world.World) *world.Pass {
						if o := w.S.Objs[k]; o != nil {
							_ = w.SetStatus(k, osw.StatusFor(o.Content, "ready"))
						}
						return nil
					}})
				}
			}
			return evs
		},
		Check: func(before *world.World, ev world.Event, pass *world.Pass, after *world.World) []world.Finding {
			if pass == nil {
				return nil
			}
			var out []world.Finding
			v := osw.View{Before: before.S, Pass: pass}
			// the deployment never references a slice that does not exist: after a completed Package
			// pass every slice named in the ObjectDeployment's template is there
			if pass.Ctrl == world.CtrlPackage && pass.Err == nil && !pass.Crashed {
				if od := after.S.Objs[osw.ODKey(pass.Key.Name)]; od != nil {
					for _, ph := range specSlices(od.Content) {
						for _, sn := range ph {
							if after.S.Objs[world.PKOKey("ObjectSlice", world.NS, sn)] == nil {
								out = append(out, world.Finding{Monitor: "slice-transparency", Identity: "template-references-missing-slice", Message: fmt.Sprintf("after a completed Package pass the ObjectDeployment's template references ObjectSlice %s, which does not exist", sn)})
							}
						}
					}
				}
			}
			// a sliced ObjectSet reports status exactly like an inline one: the C06 status monitor,
			// evaluated over the phases with their slices inlined
			for _, f := range c06.Check(before, ev, pass, after) {
				f.Identity = "sliced-objectset-status: " + f.Identity
				out = append(out, f)
			}
			// transparency of the encoding for status: an ObjectSet that claims Available=True has
			// every object of every slice it references on the cluster
			for i, r := range pass.Reqs {
				if r.Key.Kind != "ObjectSet" || r.Sub != "status" || !r.IsWrite() || r.Err != nil || r.Post == nil {
					continue
				}
				if st, _, _, ok := world.Condition(r.Post, "Available"); !ok || st != "True" {
					continue
				}
				for _, ph := range specSlices(r.Post) {
					for _, sn := range ph {
						so := v.ContentAt(world.PKOKey("ObjectSlice", world.NS, sn), i)
						if so == nil {
							out = append(out, world.Finding{Monitor: "slice-transparency", Identity: "available-with-missing-slice", Message: fmt.Sprintf("status write #%d claims Available=True although the referenced slice %s does not exist", i, sn)})
							continue
						}
						l, _ := so["objects"].([]any)
						for _, e := range l {
							m, _ := e.(map[string]any)
							ob, _ := m["object"].(map[string]any)
							md, _ := ob["metadata"].(map[string]any)
							kind, _ := ob["kind"].(string)
							name, _ := md["name"].(string)
							oc := v.ContentAt(world.KeyOf(kind, world.NS, name), i)
							if oc == nil {
								out = append(out, world.Finding{Monitor: "slice-transparency", Identity: "available-without-slice-object", Message: fmt.Sprintf("status write #%d of %s claims Available=True although %s/%s, listed in its slice %s, does not exist (an inline ObjectSet could not say so, C06)", i, r.Key.Name, kind, name, sn)})
							}
						}
					}
				}
			}
			for i, r := range pass.Reqs {
				if r.Key.Kind != "ObjectSlice" || r.Verb != "delete" || !r.IsWrite() || r.Err != nil {
					continue
				}
				// referenced by the deployment template or any existing ObjectSet at that instant?
				var refs []string
				for _, k := range before.S.SortedKeys() {
					if k.Kind != "ObjectDeployment" && k.Kind != "ObjectSet" {
						continue
					}
					c := v.ContentAt(k, i)
					if c == nil {
						continue
					}
					for _, ph := range specSlices(c) {
						for _, s := range ph {
							if s == r.Key.Name {
								refs = append(refs, k.Kind+"/"+k.Name)
							}
						}
					}
				}
				// objects created during the pass
				for j := 0; j < i; j++ {
					q := pass.Reqs[j]
					if (q.Key.Kind == "ObjectSet" || q.Key.Kind == "ObjectDeployment") && q.IsWrite() && q.Post != nil && before.S.Objs[q.Key] == nil {
						for _, ph := range specSlices(q.Post) {
							for _, s := range ph {
								if s == r.Key.Name {
									refs = append(refs, q.Key.Kind+"/"+q.Key.Name)
								}
							}
						}
					}
				}
				if r.Key.Namespace != pass.Key.Namespace {
					out = append(out, world.Finding{Monitor: "slice-gc", Identity: "slice-of-another-namespace-deleted", Message: fmt.Sprintf("request #%d %s: the pass of %s/%s deletes an ObjectSlice in namespace %s", i, r, pass.Key.Namespace, pass.Key.Name, r.Key.Namespace)})
				}
				if len(refs) > 0 {
					out = append(out, world.Finding{Monitor: "slice-gc", Identity: "referenced-slice-deleted", Message: fmt.Sprintf("request #%d %s deletes a slice still referenced by %v", i, r, refs)})
				}
			}
			return out
		},
	}
}

func runGC(o checks.Opts) *report.Report {
	rep := report.New("C14", "slice-gc")
	rep.Rule = "explicit-state BFS: Package p (EachObject chunking) updated twice among v1{a,b}, v2{a,c}, v3{a,d} (quick: v1 -> v2 -> v3; thorough: any to any) (so that a slice can be referenced only by an archived revision that still exists) with the real Package, ObjectDeployment and ObjectSet controllers in any order, objects becoming ready, garbage collector, (budgeted) an ObjectSet pass whose cache does not show one of its slices yet, one system with all passes in one long-lived operator process (any image to any image); after every completed Package pass every slice named in the deployment's template exists; on every Available=True status write every object of every referenced slice exists on the cluster; on every ObjectSlice delete the slice must be referenced neither by the deployment's template nor by any existing ObjectSet at that instant"
	edits, chain := 2, true
	if !o.Quick() {
		chain = false // any image to any other image
	}
	type cfg struct {
		edits int
		chain bool
		stale int
		ll    bool
		nb    bool // a same-named Package in another namespace
	}
	// the long-lived system reaches every state on one operator process (any image to any image,
	// so that a dropped slice can come back: v1 -> v2 -> v1)
	cfgs := []cfg{{edits, chain, 0, false, false}, {1, true, 1, false, false}, {2, false, 0, true, false}, {1, true, 0, false, true}}
	if !o.Quick() {
		cfgs = append(cfgs, cfg{2, true, 1, false, false}, cfg{3, false, 0, true, false}, cfg{2, false, 0, false, true})
	}
	for i, c := range cfgs {
		if o.Shards > 1 && i%o.Shards != o.Shard {
			continue
		}
		sys := gcSystem(c.edits, c.chain, c.stale, c.ll, c.nb)
		sys.MaxStates = 600000
		osw.RunBFS(rep, sys, map[string]any{"edits": c.edits, "chain": c.chain, "stale": c.stale, "longLived": c.ll, "neighbour": c.nb})
	}
	rep.Bounds["edits"] = edits
	rep.Bounds["any_to_any"] = !chain
	rep.Samples = append(rep.Samples, []string{"reconcile:pkg:p", "reconcile:od:p", "user:set-image:v2", "reconcile:pkg:p", "reconcile:od:p"})
	return rep
}

func replayGC(v report.Violation) string {
	chain, _ := v.Params["chain"].(bool)
	edits, _ := v.Params["edits"].(float64)
	stale, _ := v.Params["stale"].(float64)
	ll, _ := v.Params["longLived"].(bool)
	nb, _ := v.Params["neighbour"].(bool)
	return osw.ReplayBFS(gcSystem(int(edits), chain, int(stale), ll, nb), v)
}

func init() {
	checks.Register(&checks.Check{
		ID:    "C14",
		Level: "model_checking",
		Assumptions: []string{
			"the differential compares projected states after each step of scripted fair histories (incl. a later phase colliding with a foreign object so that controllerOf is never reported, followed by archival / deletion) (not all interleavings); request-level equality is not demanded because the sliced variant additionally reads and owns its slices",
		},
		Subs: []*checks.Sub{
			{Name: "chunking", Shards: func(string) int { return 16 }, Run: runChunking},
			{Name: "slice-names", Run: runNaming},
			{Name: "inline-vs-sliced", Shards: func(string) int { return 4 }, Run: runDiff, Replay: replayDiff},
			{Name: "slice-gc", Shards: func(t string) int {
				if t == "thorough" {
					return 7
				}
				return 4
			}, Run: runGC, Replay: replayGC, Parallel: true},
		},
	})
}
