// Package c15 checks property C15 (delegating a phase to an ObjectSetPhase preserves
// behaviour): (a) differential - the same scripted histories are run with every subset of
// phases delegated and compared, at quiescent points, with the all-local run; (b) explicit-state
// search over delegated layouts with a structural monitor on the ObjectSetPhase objects plus the
// gating / teardown / status monitors of C03, C04 and C06.
package c15

import (
	"fmt"
	"sort"
	"strings"

	metav1 "k8s.io/apimachinery/pkg/apis/meta/v1"
	corev1alpha1 "package-operator.run/apis/core/v1alpha1"
	"package-operator.run/internal/packages/zzverif/checks"
	"package-operator.run/internal/packages/zzverif/checks/twin"
	"package-operator.run/internal/packages/zzverif/checks/c03"
	"package-operator.run/internal/packages/zzverif/checks/c04"
	"package-operator.run/internal/packages/zzverif/checks/c06"
	"package-operator.run/internal/packages/zzverif/kmodel"
	"package-operator.run/internal/packages/zzverif/osw"
	"package-operator.run/internal/packages/zzverif/report"
	"package-operator.run/internal/packages/zzverif/world"
)

// ---- (a) differential ----

type diffScenario struct {
	N      int      `json:"phases"`
	Mask   uint     `json:"delegated"`
	Script []string `json:"script"`
	Prev   bool     `json:"withPreviousRevision"`
	// Together: a successor r2 (same delegation, previous r1) exists from the start, so that both
	// revisions roll out interleaved
	Together bool `json:"successorFromStart"`
	// Sliced: every phase of every revision keeps its first object inline and the others in an ObjectSlice
	Sliced bool `json:"sliced"` // (a phase with one object keeps nothing inline)
}

// newRevision creates ObjectSet name; with sliced, each phase keeps its first object inline and
// the rest in an ObjectSlice <name>-<phase> created first (a phase with a single object keeps
// nothing inline).
func newRevision(w *world.World, sliced bool, name string, ps []world.PhaseSpec, probes []corev1alpha1.ObjectSetProbe, prev ...string) {
	if sliced {
		for i := range ps {
			keep := 1
			if len(ps[i].Objects) < 2 {
				keep = 0
			}
			sn := name + "-" + ps[i].Name
			w.MustCreate(&corev1alpha1.ObjectSlice{ObjectMeta: metav1.ObjectMeta{Name: sn, Namespace: world.NS}, Objects: ps[i].Objects[keep:]})
			ps[i].Slices, ps[i].Objects = []string{sn}, ps[i].Objects[:keep]
		}
	}
	w.MustCreate(world.NewObjectSet(name, ps, probes, prev...))
}

func settle(w *world.World) bool {
	for r := 0; r < 40; r++ {
		before := w.Canon()
		for _, ps := range osw.RoundPasses(w) {
			w.Reconcile(ps.Ctrl, osw.NN(ps.Name), nil)
		}
		w.GC()
		if w.Canon() == before {
			return true
		}
	}
	return false
}

func build(sc diffScenario, mask uint) *world.World {
	w := osw.NewWorld()
	w.LongLived() // the scripted history runs in one operator process
	if mask != 0 {
		w.Notes["delegated"] = "yes"
	}
	if sc.Sliced {
		w.Notes["sliced"] = "yes"
	}
	if sc.Prev {
		// a previous revision r0{a} (always local) that r1 has to adopt a from
		w.MustCreate(world.NewObjectSet("r0", osw.PhaseSpecs(osw.OnePhase("a"), 0), nil))
		settle(w)
		newRevision(w, sc.Sliced, "r1", osw.PhaseSpecs(osw.B1(sc.N, mask), 1), world.StdProbes(), "r0")
	} else {
		newRevision(w, sc.Sliced, "r1", osw.PhaseSpecs(osw.B1(sc.N, mask), 1), world.StdProbes())
	}
	if sc.Together {
		newRevision(w, sc.Sliced, "r2", osw.PhaseSpecs(osw.B1(sc.N, mask), 2), world.StdProbes(), "r1")
	}
	return w
}

func step(w *world.World, ev string) {
	if ev != "nocompare:third-party-delete-phase-objects" {
		ev = strings.TrimPrefix(ev, "nocompare:")
	}
	switch {
	case strings.HasPrefix(ev, "ready:"), strings.HasPrefix(ev, "notready:"), strings.HasPrefix(ev, "stale:"):
		cls, n, _ := strings.Cut(ev, ":")
		for _, kind := range []string{"Widget", "Gadget"} {
			k := world.KeyOf(kind, world.NS, n)
			if o := w.S.Objs[k]; o != nil {
				_ = w.SetStatus(k, osw.StatusFor(o.Content, cls))
			}
		}
	case ev == "pause":
		osw.SetLifecycle(w, "r1", "Paused")
	case ev == "unpause":
		osw.SetLifecycle(w, "r1", "Active")
	case ev == "archive":
		osw.SetLifecycle(w, "r1", "Archived")
	case ev == "delete":
		_ = w.S.Delete(osw.OSKey("r1"), kmodel.DeleteOpts{})
	case strings.HasPrefix(ev, "third-party-delete:"):
		n := strings.TrimPrefix(ev, "third-party-delete:")
		for _, kind := range []string{"Widget", "Gadget"} {
			_ = w.S.Delete(world.KeyOf(kind, world.NS, n), kmodel.DeleteOpts{})
		}
	case ev == "nocompare:third-party-delete-phase-objects":
		// somebody deletes the ObjectSetPhase objects of r1 (no-op in the all-local world); the
		// ObjectSet re-creates them under the same name with a new UID
		for _, k := range w.S.SortedKeys() {
			if k.Kind == "ObjectSetPhase" {
				_ = w.S.Delete(k, kmodel.DeleteOpts{})
			}
		}
	case strings.HasPrefix(ev, "successor:"):
		// a successor revision r2 with the same objects takes over from r1; its phases are
		// delegated like r1's ("same"), all local ("local") or all delegated ("all")
		os := w.S.Objs[osw.OSKey("r1")]
		phases := osw.SpecPhases(os.Content, world.NS)
		// "successor:tail:<mode>": r2 drops r1's first phase, so that it reaches the later phases
		// while r1 itself is stuck in front of them
		tail := strings.HasPrefix(ev, "successor:tail:")
		ev = strings.Replace(ev, "successor:tail:", "successor:", 1)
		var mask uint
		for i, p := range phases {
			switch strings.TrimPrefix(ev, "successor:") {
			case "same":
				if p.Class != "" {
					mask |= 1 << uint(i)
				}
			case "all":
				if w.Notes["delegated"] == "yes" {
					mask |= 1 << uint(i)
				}
			}
		}
		cfg := osw.B1(len(phases), mask)
		if tail {
			cfg = cfg[1:]
		}
		newRevision(w, w.Notes["sliced"] == "yes", "r2", osw.PhaseSpecs(cfg, 2), world.StdProbes(), "r1")
	case strings.HasPrefix(ev, "third-party-foreign:"):
		// a foreign object occupies the name before rollout
		n := strings.TrimPrefix(ev, "third-party-foreign:")
		w.MustCreate(world.Obj("Widget", world.NS, n, map[string]any{"x": int64(7)}))
	}
}

// project: cluster objects modulo owner identity, and the ObjectSet's observable status.
func project(w *world.World) string {
	var sb strings.Builder
	os := w.S.Objs[osw.OSKey("r1")]
	var id world.Ident
	if os != nil {
		id = world.IdentOf(osw.OSKey("r1"), os.Content)
	}
	os2 := w.S.Objs[osw.OSKey("r2")]
	var id2 world.Ident
	if os2 != nil {
		id2 = world.IdentOf(osw.OSKey("r2"), os2.Content)
	}
	for _, k := range w.S.SortedKeys() {
		if k.Group != world.TestGroup {
			continue
		}
		c := w.S.Objs[k].Content
		x, _ := world.Nested(c, "spec", "x")
		ctl := "other"
		cs := world.Controllers(c, false)
		switch {
		case len(cs) == 0:
			ctl = "none"
		case os != nil && osw.ControlsTransitively(w.S, c, id):
			ctl = "r1"
		case os2 != nil && osw.ControlsTransitively(w.S, c, id2):
			ctl = "r2"
		case cs[0].Name == "r0":
			ctl = "r0"
		}
		fmt.Fprintf(&sb, "%s x=%v rev=%s controlled-by=%s terminating=%v\n", k, x, kmodel.Annotations(c)[world.RevisionAnnotation], ctl, kmodel.Terminating(c))
	}
	if os != nil {
		c := os.Content
		var conds []string
		st, _ := c["status"].(map[string]any)
		l, _ := st["conditions"].([]any)
		for _, e := range l {
			m, _ := e.(map[string]any)
			conds = append(conds, fmt.Sprintf("%v=%v", m["type"], m["status"]))
		}
		sort.Strings(conds)
		fmt.Fprintf(&sb, "ObjectSet r1 lifecycle=%s terminating=%v conditions=%v controllerOf=%v\n", osw.Lifecycle(c), kmodel.Terminating(c), conds, osw.ControllerOfList(c))
	} else {
		sb.WriteString("ObjectSet r1 gone\n")
	}
	if os2 != nil {
		c := os2.Content
		var conds []string
		st, _ := c["status"].(map[string]any)
		l, _ := st["conditions"].([]any)
		for _, e := range l {
			m, _ := e.(map[string]any)
			conds = append(conds, fmt.Sprintf("%v=%v", m["type"], m["status"]))
		}
		sort.Strings(conds)
		fmt.Fprintf(&sb, "ObjectSet r2 conditions=%v controllerOf=%v\n", conds, osw.ControllerOfList(c))
	}
	return sb.String()
}

func scripts() [][]string {
	return [][]string{
		{"ready:a", "ready:b", "ready:g", "ready:c"},
		{"ready:a", "ready:b", "ready:g", "ready:c", "notready:a", "ready:a"},
		{"ready:a", "ready:b", "stale:b", "ready:g", "ready:b"},
		{"ready:a", "ready:b", "ready:g", "ready:c", "pause", "third-party-delete:b", "unpause"},
		{"ready:a", "ready:b", "ready:g", "ready:c", "third-party-delete:a"},
		{"ready:a", "ready:b", "ready:g", "ready:c", "archive"},
		{"ready:a", "ready:b", "ready:g", "ready:c", "delete"},
		{"ready:a", "notready:b", "ready:g", "delete"},
		{"third-party-foreign:b", "ready:a", "ready:g"},
		// handover to a successor revision: same delegation, to all-local, to all-delegated
		{"ready:a", "ready:b", "ready:g", "ready:c", "successor:same", "ready:a", "ready:b", "ready:g", "ready:c"},
		{"ready:a", "ready:b", "ready:g", "ready:c", "successor:local", "ready:a", "ready:b", "ready:g", "ready:c"},
		{"ready:a", "ready:b", "ready:g", "ready:c", "successor:all"},
		// the old revision's last passes before the handover stop early (an earlier phase regressed)
		{"ready:a", "ready:b", "ready:g", "ready:c", "notready:a", "successor:same", "ready:a", "ready:b", "ready:g", "ready:c"},
		{"ready:a", "ready:b", "ready:g", "ready:c", "notready:a", "successor:local", "ready:a", "ready:b", "ready:g", "ready:c"},
		{"ready:a", "ready:b", "ready:g", "ready:c", "notready:b", "successor:all", "ready:a", "ready:b", "ready:g", "ready:c", "archive"},
		// ... and the successor does not contain the phase the old revision is stuck at
		{"ready:a", "ready:b", "ready:g", "ready:c", "notready:a", "successor:tail:same", "ready:b", "ready:g", "ready:c"},
		{"ready:a", "ready:b", "ready:g", "ready:c", "notready:a", "successor:tail:local", "ready:b", "ready:g", "ready:c", "ready:a"},
		{"ready:a", "ready:b", "ready:g", "ready:c", "notready:a", "successor:tail:all", "ready:b", "ready:g", "ready:c", "archive"},
		// ... after the phase objects were deleted by a third party and re-created by the ObjectSet
		{"ready:a", "ready:b", "ready:g", "ready:c", "nocompare:third-party-delete-phase-objects", "nocompare:ready:a", "nocompare:ready:b", "nocompare:ready:g", "ready:c", "successor:same", "ready:a", "ready:b", "ready:g", "ready:c"},
		{"ready:a", "ready:b", "ready:g", "ready:c", "nocompare:third-party-delete-phase-objects", "nocompare:ready:a", "nocompare:ready:b", "nocompare:ready:g", "ready:c", "successor:local"},
	}
}

func judgeDiff(sc diffScenario) (string, string) {
	wl, wd := build(sc, 0), build(sc, sc.Mask)
	if !settle(wl) || !settle(wd) {
		return "initial rollout did not settle", ""
	}
	if a, b := project(wl), project(wd); a != b {
		return fmt.Sprintf("after the initial rollout the delegated layout differs from the local one:\n--- local\n%s--- delegated %03b\n%s", a, sc.Mask, b), ""
	}
	for i, ev := range sc.Script {
		step(wl, ev)
		step(wd, ev)
		okl, okd := settle(wl), settle(wd)
		if okl != okd {
			return fmt.Sprintf("after step %d (%s): local settles=%v, delegated settles=%v", i, ev, okl, okd), ""
		}
		if strings.HasPrefix(ev, "nocompare:") {
			continue
		}
		if a, b := project(wl), project(wd); a != b && strings.ReplaceAll(b, " Paused=Unknown", "") == a {
			return fmt.Sprintf("[only Paused=Unknown] after step %d (%s) the ObjectSet with delegated layout %03b additionally reports Paused=Unknown: a delegated phase behind a phase that is not passing keeps the paused state of before the step\n--- local\n%s--- delegated\n%s", i, ev, sc.Mask, a, b), ""
		} else if a != b {
			return fmt.Sprintf("after step %d (%s) the delegated layout %03b behaves differently from the in-process one:\n--- local\n%s--- delegated\n%s", i, ev, sc.Mask, a, b), ""
		}
	}
	return "", project(wl)
}

func diffScenarios(quick bool) []diffScenario {
	var out []diffScenario
	type shape struct {
		n int
		m uint
	}
	shapes := []shape{{2, 0b01}, {2, 0b10}, {2, 0b11}}
	if !quick {
		for m := uint(1); m < 8; m++ {
			shapes = append(shapes, shape{3, m})
		}
	} else {
		shapes = append(shapes, shape{3, 0b010}, shape{3, 0b111})
	}
	for _, sh := range shapes {
		for _, s := range scripts() {
			out = append(out, diffScenario{N: sh.n, Mask: sh.m, Script: s})
		}
		out = append(out, diffScenario{N: sh.n, Mask: sh.m, Script: []string{"ready:a", "ready:b", "ready:g", "ready:c"}, Prev: true})
		out = append(out, diffScenario{N: sh.n, Mask: sh.m, Script: []string{"ready:a", "ready:b", "ready:g", "ready:c", "ready:a", "ready:b", "ready:g", "ready:c"}, Together: true})
		// phases whose objects partly live in ObjectSlices: first revision, revision 2 from the
		// start (the pass that loads the slices also assigns the revision), handover, teardown
		out = append(out, diffScenario{N: sh.n, Mask: sh.m, Sliced: true, Script: []string{"ready:a", "ready:b", "ready:g", "ready:c", "delete"}})
		out = append(out, diffScenario{N: sh.n, Mask: sh.m, Sliced: true, Prev: true, Script: []string{"ready:a", "ready:b", "ready:g", "ready:c"}})
		out = append(out, diffScenario{N: sh.n, Mask: sh.m, Sliced: true, Script: []string{"ready:a", "ready:b", "ready:g", "ready:c", "successor:same", "ready:a", "ready:b", "ready:g", "ready:c", "archive"}})
	}
	return out
}

func runDiff(o checks.Opts) *report.Report {
	rep := report.New("C15", "local-vs-delegated")
	rep.Rule = "scripted histories (rollout with objects becoming ready; probe regression and recovery; stale observedGeneration; pause + third-party deletion + unpause; drift; archive; delete with/without failing probes; a foreign object occupying a name; adoption from a previous revision; a successor revision present from the start, so that both revisions roll out interleaved; handover to a successor revision with the same / no / full delegation, also after the phase objects were deleted by a third party and re-created) are run on the all-local ObjectSet and on the same ObjectSet with each subset of phases delegated (class default, real same-cluster ObjectSetPhase controller); after every step both worlds are run fairly to quiescence and the projections (objects: spec, revision, controlled by r1 directly or through its phase objects, terminating; ObjectSet: lifecycle, condition type/status, controllerOf) must be equal"
	scs := diffScenarios(o.Quick())
	rep.Bounds["scenarios"] = len(scs)
	for i, sc := range scs {
		if o.Shards > 1 && i%o.Shards != o.Shard {
			continue
		}
		msg, final := judgeDiff(sc)
		rep.Executions += int64(len(sc.Script)+1) * 2
		rep.ImplTraces += int64(len(sc.Script)+1) * 2
		rep.Outcomes[final]++
		if msg != "" {
			id := "delegated-differs"
			if strings.HasPrefix(msg, "[only Paused=Unknown]") {
				id = "delegated-reports-paused-unknown-behind-failing-phase"
			} else if len(sc.Script) > 0 {
				id += " after " + strings.SplitN(sc.Script[len(sc.Script)-1], ":", 2)[0]
			}
			rep.AddViolation(report.Violation{Identity: id, Message: msg + fmt.Sprintf("\nscenario: %+v", sc), Params: map[string]any{"scenario": sc}})
		}
		if len(rep.Samples) < 1 {
			rep.Samples = append(rep.Samples, sc)
		}
	}
	rep.States, rep.Transitions = rep.Executions, rep.Executions
	return rep
}

func replayDiff(v report.Violation) string {
	var sc diffScenario
	if err := checks.Decode(v.Params["scenario"], &sc); err != nil {
		return err.Error()
	}
	msg, _ := judgeDiff(sc)
	return msg
}

// ---- (b) structural monitor + reused monitors over delegated layouts ----

func specOf(c map[string]any, path ...string) string {
	v, _ := world.Nested(c, path...)
	return kmodel.Digest(map[string]any{"v": v})
}

// structure checks the ObjectSetPhase objects an ObjectSet pass leaves behind.
func structure(before *world.World, _ world.Event, pass *world.Pass, after *world.World) []world.Finding {
	if pass == nil || pass.Ctrl != world.CtrlObjectSet || pass.Err != nil || pass.Crashed {
		return nil
	}
	osKey := osw.OSKey(pass.Key.Name)
	os := after.S.Objs[osKey]
	if os == nil || kmodel.Terminating(os.Content) || osw.Lifecycle(os.Content) == "Archived" {
		return nil
	}
	var out []world.Finding
	bad := func(id, f string, a ...any) {
		out = append(out, world.Finding{Monitor: "delegation", Identity: id, Message: fmt.Sprintf(f, a...)})
	}
	id := world.IdentOf(osKey, os.Content)
	phases := osw.SpecPhases(os.Content, osKey.Namespace)
	// phase objects controlled by this ObjectSet
	owned := map[string]map[string]any{}
	for _, k := range after.S.SortedKeys() {
		if k.Kind == "ObjectSetPhase" && world.ControlledBy(after.S.Objs[k].Content, false, id) {
			owned[k.Name] = after.S.Objs[k].Content
		}
	}
	want := map[string]bool{}
	v := osw.View{Before: before.S, Pass: pass}
	for i, p := range phases {
		if p.Class == "" {
			continue
		}
		name := osKey.Name + "-" + p.Name
		want[name] = true
		po := owned[name]
		// the pass reached this phase iff it read or wrote the phase object
		_, reached := v.LastResponse(osw.PhaseKey(osKey.Name, p.Name), len(pass.Reqs))
		if po == nil {
			if reached {
				bad("phase-object-missing", "the ObjectSet's pass handled delegated phase %q but no ObjectSetPhase %s controlled by it exists afterwards", p.Name, name)
			}
			continue
		}
		osPhases, _ := world.Nested(os.Content, "spec", "phases")
		pl, _ := osPhases.([]any)
		wantObjs := kmodel.Digest(map[string]any{"v": pl[i].(map[string]any)["objects"]})
		if specOf(po, "spec", "objects") != wantObjs {
			bad("phase-object-objects-differ", "ObjectSetPhase %s does not carry the phase's objects", name)
		}
		if specOf(po, "spec", "availabilityProbes") != specOf(os.Content, "spec", "availabilityProbes") {
			bad("phase-object-probes-differ", "ObjectSetPhase %s does not carry the ObjectSet's probes", name)
		}
		if specOf(po, "spec", "previous") != specOf(os.Content, "spec", "previous") {
			bad("phase-object-previous-differ", "ObjectSetPhase %s does not carry the previous revisions", name)
		}
		rv, _ := world.Nested(po, "spec", "revision")
		if r, _ := rv.(int64); r != osw.StatusRevision(os.Content) {
			bad("phase-object-revision-differs", "ObjectSetPhase %s has revision %v, the ObjectSet %d", name, rv, osw.StatusRevision(os.Content))
		}
		pv, _ := world.Nested(po, "spec", "paused")
		pb, _ := pv.(bool)
		if reached && pb != (osw.Lifecycle(os.Content) == "Paused") {
			// did the rollout loop get as far as this phase? it stops at the first phase that is not
			// (yet) passing - then the paused state is not synced (same root cause as the C09 finding)
			behind := false
			for j := 0; j < i && !behind; j++ {
				q := phases[j]
				if q.Class != "" {
					resp, seen := v.LastResponse(osw.PhaseKey(osKey.Name, q.Name), len(pass.Reqs))
					st, _, og, ok := world.Condition(resp, "Available")
					if !seen || resp == nil || !ok || st != "True" || og != world.Generation(resp) {
						behind = true
					}
					continue
				}
				for _, k := range q.Objects {
					resp, seen := v.LastResponse(k, len(pass.Reqs))
					if !seen || resp == nil || !osw.RefProbe(resp) {
						behind = true
					}
				}
			}
			ident := "phase-object-paused-differs"
			if behind {
				ident = "phase-object-paused-differs-behind-failing-phase"
			}
			bad(ident, "ObjectSetPhase %s paused=%v but the ObjectSet lifecycle is %s after a completed pass (an earlier phase is not passing in this pass: %v)", name, pb, osw.Lifecycle(os.Content), behind)
		}
		if kmodel.Labels(po)[corev1alpha1.ObjectSetPhaseClassLabel] != p.Class {
			bad("phase-object-class-differs", "ObjectSetPhase %s carries class %q, want %q", name, kmodel.Labels(po)[corev1alpha1.ObjectSetPhaseClassLabel], p.Class)
		}
	}
	for n := range owned {
		if !want[n] {
			bad("unexpected-phase-object", "ObjectSetPhase %s is controlled by the ObjectSet but realises no class phase of it", n)
		}
	}
	return out
}

type bfsScenario struct {
	N       int      `json:"phases"`
	Mask    uint     `json:"delegated"`
	Classes []string `json:"classes"`
	Pauses  int      `json:"pauses"`
	Delete  bool     `json:"delete"`
	Holds   []string `json:"holds"`
	// Conflicts / PhaseDeletes: budgets of foreign writes landing before a write of a pass, and
	// of a third party deleting an ObjectSetPhase object
	Conflicts    int `json:"conflicts"`
	PhaseDeletes int `json:"phaseDeletes"`
	// Restarts: budget of operator crashes before request i of an ObjectSet / ObjectSetPhase pass
	Restarts int `json:"restarts"`
	// Stale: budget of ObjectSet passes whose (cached) client does not show one of the phase
	// objects yet; the uncached client does
	Stale int `json:"stale"`
}

func (sc bfsScenario) name() string {
	return fmt.Sprintf("delegated phases=%d mask=%03b statuses=%d pauses=%d delete=%v holds=%v conflicts=%d phaseDeletes=%d restarts=%d stale=%d", sc.N, sc.Mask, len(sc.Classes), sc.Pauses, sc.Delete, sc.Holds, sc.Conflicts, sc.PhaseDeletes, sc.Restarts, sc.Stale)
}

func bfsSystem(sc bfsScenario) *world.System {
	cfg := osw.B1(sc.N, sc.Mask)
	return &world.System{
		Name: sc.name(),
		Init: func() *world.World {
			w := osw.NewWorld()
			w.MustCreate(world.NewObjectSet("r1", osw.PhaseSpecs(cfg, 1), world.StdProbes()))
			w.Budget["user-pause"] = sc.Pauses
			w.Budget["delete"] = 1
			w.Budget["hold"] = 1
			w.Budget["conflict"] = sc.Conflicts
			w.Budget["restart"] = sc.Restarts
			w.Budget["stale"] = sc.Stale
			w.Budget["phase-delete"] = sc.PhaseDeletes
			return w
		},
		Events: func(w *world.World) []world.Event {
			evs := append(osw.ReconcileEvents(w), osw.WorkloadEvents(w, sc.Classes)...)
			evs = append(evs, osw.PauseEvents(w, "r1")...)
			evs = append(evs, osw.ReleaseEvents(w)...)
			evs = append(evs, osw.GCEvent(w)...)
			evs = append(evs, osw.ConflictEventsAll(w)...)
			evs = append(evs, osw.CrashEvents(w)...)
			if w.Budget["stale"] > 0 && w.S.Objs[osw.OSKey("r1")] != nil {
				for _, k := range w.S.SortedKeys() {
					if k.Kind == "ObjectSetPhase" {
						k := k
						evs = append(evs, world.Event{Name: "reconcile-stale:os:r1 (cache misses phase object " + k.Name + ")", Apply: func(w *world.World) *world.Pass {
							w.Budget["stale"]--
							return w.Reconcile(world.CtrlObjectSet, osw.NN("r1"), &world.Plan{HideInList: []kmodel.Key{k}})
						}})
					}
				}
			}
			if w.Budget["phase-delete"] > 0 {
				for _, k := range w.S.SortedKeys() {
					if k.Kind == "ObjectSetPhase" && !kmodel.Terminating(w.S.Objs[k].Content) {
						k := k
						evs = append(evs, world.Event{Name: "third-party:delete-phase-object:" + k.Name, Apply: func(w *world.World) *world.Pass {
							w.Budget["phase-delete"]--
							_ = w.S.Delete(k, kmodel.DeleteOpts{})
							return nil
						}})
					}
				}
			}
			os := w.S.Objs[osw.OSKey("r1")]
			if sc.Delete && os != nil && !kmodel.Terminating(os.Content) && w.Budget["delete"] > 0 {
				evs = append(evs, world.Event{Name: "user:delete:r1", Apply: func(w *world.World) *world.Pass {
					w.Budget["delete"]--
					for _, h := range sc.Holds {
						for _, kind := range []string{"Widget", "Gadget"} {
							k := world.KeyOf(kind, world.NS, h)
							if w.S.Objs[k] != nil {
								osw.AddFinalizer(w, k, osw.HoldFinalizer)
							}
						}
					}
					_ = w.S.Delete(osw.OSKey("r1"), kmodel.DeleteOpts{})
					return nil
				}})
			}
			return evs
		},
		Check: func(before *world.World, ev world.Event, pass *world.Pass, after *world.World) []world.Finding {
			out := structure(before, ev, pass, after)
			out = append(out, c03.Check(before, ev, pass, after)...)
			out = append(out, c04.Check(before, ev, pass, after)...)
			out = append(out, c06.Check(before, ev, pass, after)...)
			return out
		},
		Invariant: c04.Invariant,
	}
}

func bfsScenarios(quick bool) []bfsScenario {
	two := []string{"ready", "notready"}
	out := []bfsScenario{
		{N: 2, Mask: 0b01, Classes: two, Pauses: 1, Delete: true, Holds: []string{"b"}},
		{N: 2, Mask: 0b10, Classes: two, Delete: true, Holds: []string{"g"}},
		{N: 2, Mask: 0b11, Classes: []string{"ready"}, Pauses: 1, Delete: true},
		{N: 2, Mask: 0b10, Classes: []string{"ready"}, Delete: true, Conflicts: 1, PhaseDeletes: 1},
		{N: 2, Mask: 0b10, Classes: []string{"ready"}, Delete: true, Restarts: 1},
		{N: 2, Mask: 0b01, Classes: []string{"ready"}, Delete: true, Restarts: 1},
		{N: 2, Mask: 0b10, Classes: []string{"ready"}, Delete: true, Stale: 1},
	}
	if !quick {
		out = append(out,
			bfsScenario{N: 2, Mask: 0b11, Classes: two, Pauses: 2, Delete: true, Holds: []string{"a", "b"}},
			bfsScenario{N: 3, Mask: 0b010, Classes: two, Pauses: 1, Delete: true, Holds: []string{"c"}},
			bfsScenario{N: 3, Mask: 0b101, Classes: []string{"ready"}, Pauses: 1, Delete: true},
		)
	}
	return out
}

func runBFS(o checks.Opts) *report.Report {
	rep := report.New("C15", "bfs")
	rep.Rule = "explicit-state BFS over delegated layouts: reconcile(ObjectSet, each ObjectSetPhase) in any order, workload status changes, user pause/unpause and delete (with foreign finalizers on some objects), finalizer release, garbage collector, a foreign write landing before write i of a pass, a third party deleting a phase object, an operator crash before request i of a pass, an ObjectSet pass whose cached client does not show one of the phase objects yet; on every ObjectSet pass the structural monitor (exactly the expected ObjectSetPhase objects, carrying the phase's objects, probes, revision, previous list, paused state and class) and the gating (C03), teardown-order (C04) and status-claim (C06) monitors"
	scs := bfsScenarios(o.Quick())
	rep.Bounds["systems"] = len(scs)
	for i, sc := range scs {
		if o.Shards > 1 && i%o.Shards != o.Shard {
			continue
		}
		sys := bfsSystem(sc)
		sys.MaxStates = 250000
		osw.RunBFS(rep, sys, map[string]any{"scenario": sc})
		rep.Samples = append(rep.Samples, map[string]any{"scenario": sc})
	}
	return rep
}

func replayBFS(v report.Violation) string {
	var sc bfsScenario
	if err := checks.Decode(v.Params["scenario"], &sc); err != nil {
		return err.Error()
	}
	return osw.ReplayBFS(bfsSystem(sc), v)
}

// strategyScenarios: delegated phases served with the owners annotation in lockstep with the same
// phases served with native owner references ("native and annotation owner strategy").
func strategyScenarios(quick bool) []twin.Scenario {
	out := []twin.Scenario{
		{Variant: "annotation", Kind: "chain", N: 1, Mask: 0b1, Successor: true, Classes: []string{"ready"}, Users: 1},
		{Variant: "annotation", Kind: "chain", N: 2, Mask: 0b10, Classes: []string{"ready"}, Users: 1, Third: 1},
	}
	if !quick {
		out = append(out, twin.Scenario{Variant: "annotation", Kind: "chain", N: 2, Mask: 0b10, Classes: []string{"ready", "notready"}, Users: 1, Third: 1}, twin.Scenario{Variant: "annotation", Kind: "chain", N: 2, Mask: 0b11, Successor: true, Classes: []string{"ready"}}, twin.Scenario{Variant: "annotation", Kind: "chain", N: 2, Mask: 0b01, Classes: []string{"ready", "notready"}, Users: 2})
	}
	return out
}

// twinScenarios: delegated phases of the cluster-scoped kinds (ClusterObjectSetPhase) in lockstep with the namespaced ones.
func twinScenarios(quick bool) []twin.Scenario {
	out := []twin.Scenario{
		{Kind: "chain", N: 1, Mask: 0b1, Successor: true, Classes: []string{"ready"}, Third: 1},
		{Kind: "chain", N: 2, Mask: 0b01, Classes: []string{"ready", "notready"}, Users: 2},
	}
	if !quick {
		out = append(out, twin.Scenario{Kind: "chain", N: 2, Mask: 0b11, Successor: true, Classes: []string{"ready"}}, twin.Scenario{Kind: "chain", N: 1, Mask: 0b1, Successor: true, Classes: []string{"ready", "notready"}, Users: 1}, twin.Scenario{Kind: "chain", N: 3, Mask: 0b101, Successor: true, Classes: []string{"ready"}, Users: 1}, twin.Scenario{Kind: "chain", N: 2, Mask: 0b10, Classes: []string{"ready", "notready", "stale"}, Users: 2, Third: 1})
	}
	return out
}

func init() {
	checks.Register(&checks.Check{
		ID:    "C15",
		Level: "model_checking",
		Assumptions: []string{
			"the differential compares quiescent points of scripted fair histories; interleavings of the two controllers are explored by the BFS sub with monitors instead",
			"native owner strategy (same-cluster phase controller); the annotation strategy is exercised by C01 and C05",
		},
		Subs: []*checks.Sub{
			{Name: "local-vs-delegated", Shards: func(string) int { return 8 }, Run: runDiff, Replay: replayDiff},
			{Name: "bfs", Shards: func(t string) int {
				if t == "thorough" {
					return 6
				}
				return 3
			}, Run: runBFS, Replay: replayBFS, Parallel: true},
			{Name: "handover", Shards: func(t string) int {
				if t == "thorough" {
					return 3
				}
				return 2
			}, Run: runHandover, Replay: replayHandover, Parallel: true},
			twin.Sub("C15", twinScenarios),
			twin.StrategySub("C15", strategyScenarios)},
	})
}
