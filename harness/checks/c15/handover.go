package c15

import (
	"fmt"

	"package-operator.run/internal/packages/zzverif/checks"
	"package-operator.run/internal/packages/zzverif/kmodel"
	"package-operator.run/internal/packages/zzverif/osw"
	"package-operator.run/internal/packages/zzverif/report"
	"package-operator.run/internal/packages/zzverif/world"
)

// ---- handover between two delegated revisions that roll out interleaved, on one long-lived process ----
//
// r1 and its successor r2 (previous: r1) exist from the start, every phase delegated. All orders
// of the four controllers' passes are explored, each state reached on ONE operator process
// (world.System.Persistent), so that a phase pass may fall before or after the previous
// revision recorded its phase object in status.remotePhases. Oracle: the adoption decision of a
// delegated phase is that of an in-process phase - whenever, at the start of a phase pass of r2,
// an object of the phase is controlled by a phase object which r1 lists in status.remotePhases
// (name and UID), the pass takes the object over.

type hoScenario struct {
	N    int  `json:"phases"`
	Mask uint `json:"delegated"`
}

func hoSystem(sc hoScenario) *world.System {
	cfg := osw.B1(sc.N, sc.Mask)
	if sc.N == 2 {
		// one object per phase keeps the replayed search small
		cfg = []osw.PhaseCfg{{Name: "p1", Delegated: sc.Mask&1 != 0, Objects: []osw.ObjRef{{Kind: "Widget", Name: "a"}}}, {Name: "p2", Delegated: sc.Mask&2 != 0, Objects: []osw.ObjRef{{Kind: "Widget", Name: "b"}}}}
	}
	return &world.System{
		Name:       fmt.Sprintf("interleaved handover, phases=%d delegated=%03b, long-lived process", sc.N, sc.Mask),
		Persistent: true,
		Init: func() *world.World {
			w := osw.NewWorld()
			w.LongLived()
			w.MustCreate(world.NewObjectSet("r1", osw.PhaseSpecs(cfg, 1), world.StdProbes()))
			w.MustCreate(world.NewObjectSet("r2", osw.PhaseSpecs(cfg, 2), world.StdProbes(), "r1"))
			return w
		},
		Events: func(w *world.World) []world.Event {
			// objects only ever become ready (a local phase in front of the delegated one has to
			// pass before the delegated phase is reached)
			return append(osw.ReconcileEvents(w), osw.WorkloadEvents(w, []string{"ready"})...)
		},
		Check: func(before *world.World, ev world.Event, pass *world.Pass, after *world.World) []world.Finding {
			if pass == nil || pass.Ctrl != world.CtrlPhase || pass.Crashed {
				return nil
			}
			pk := world.PKOKey("ObjectSetPhase", pass.Key.Namespace, pass.Key.Name)
			ph := before.S.Objs[pk]
			r1 := before.S.Objs[osw.OSKey("r1")]
			if ph == nil || r1 == nil || kmodel.Terminating(ph.Content) {
				return nil
			}
			if pv, _ := world.Nested(ph.Content, "spec", "paused"); pv == true {
				return nil
			}
			owner, _, ok := osw.OwnerOfPhase(before.S, pk)
			if !ok || owner.Name != "r2" {
				return nil
			}
			// what r1 has recorded
			recorded := map[string]bool{}
			rp, _ := world.Nested(r1.Content, "status", "remotePhases")
			l, _ := rp.([]any)
			for _, e := range l {
				m, _ := e.(map[string]any)
				recorded[fmt.Sprintf("%v/%v", m["name"], m["uid"])] = true
			}
			self := world.IdentOf(pk, ph.Content)
			var out []world.Finding
			for _, ok := range osw.PhaseObjects(ph.Content, pk.Namespace) {
				o := before.S.Objs[ok]
				if o == nil {
					continue
				}
				for _, c := range world.Controllers(o.Content, false) {
					if c.Kind != "ObjectSetPhase" || !recorded[c.Name+"/"+c.UID] {
						continue
					}
					a := after.S.Objs[ok]
					if a == nil || !world.ControlledBy(a.Content, false, self) {
						out = append(out, world.Finding{Monitor: "delegated-adoption", Identity: "permitted-adoption-not-carried-out", Message: fmt.Sprintf("%s is controlled by phase object %s, which the declared previous revision r1 lists in status.remotePhases, but the pass of %s did not take it over (error: %v); an in-process phase adopts it", ok, c.Name, pk.Name, pass.Err)})
					}
				}
			}
			return out
		},
	}
}

func runHandover(o checks.Opts) *report.Report {
	rep := report.New("C15", "handover")
	rep.Rule = "explicit-state BFS on one long-lived operator process (states rebuilt by path replay): r1 and its successor r2 exist from the start (one delegated phase; a local phase in front of a delegated one; thorough: two delegated phases), objects becoming ready; every order of the passes of both ObjectSets and all their ObjectSetPhases; on every phase pass of r2: an object controlled by a phase object that r1 lists in status.remotePhases is taken over in that pass (the adoption decision of an in-process phase)"
	scs := []hoScenario{{N: 1, Mask: 0b1}, {N: 2, Mask: 0b10}}
	if !o.Quick() {
		scs = append(scs, hoScenario{N: 2, Mask: 0b11})
	}
	rep.Bounds["systems"] = len(scs)
	for i, sc := range scs {
		if o.Shards > 1 && i%o.Shards != o.Shard {
			continue
		}
		sys := hoSystem(sc)
		sys.MaxStates = 100000
		osw.RunBFS(rep, sys, map[string]any{"scenario": sc})
		rep.Samples = append(rep.Samples, map[string]any{"scenario": sc, "example_path": []string{"reconcile:os:r1", "reconcile:os:r2", "reconcile:phase:r1-p1", "reconcile:phase:r2-p1", "reconcile:os:r1", "reconcile:phase:r2-p1"}})
	}
	return rep
}

func replayHandover(v report.Violation) string {
	var sc hoScenario
	if err := checks.Decode(v.Params["scenario"], &sc); err != nil {
		return err.Error()
	}
	return osw.ReplayBFS(hoSystem(sc), v)
}
