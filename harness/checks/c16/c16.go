// Package c16 checks property C16 (only valid, admissible packages roll out; unchanged packages
// are left alone) by exploring sequences of Package spec edits, pull failures and API errors
// through the real Package controller and PackageDeployer with a scripted registry.
package c16

import (
	"encoding/json"
	"fmt"
	"reflect"
	"sort"
	"strings"

	metav1 "k8s.io/apimachinery/pkg/apis/meta/v1"
	"k8s.io/apimachinery/pkg/runtime"

	corev1alpha1 "package-operator.run/apis/core/v1alpha1"
	"package-operator.run/internal/apis/manifests"
	"package-operator.run/internal/packages/zzverif/checks"
	"package-operator.run/internal/packages/zzverif/kmodel"
	"package-operator.run/internal/packages/zzverif/osw"
	"package-operator.run/internal/packages/zzverif/pkgw"
	"package-operator.run/internal/packages/zzverif/report"
	"package-operator.run/internal/packages/zzverif/world"
)

// image classes
type imageClass struct {
	Name    string
	Files   map[string]string // nil = not in the registry (pull error)
	Invalid string            // "", pull, load, object, constraint
}

func objs(names ...string) map[string]string {
	out := map[string]string{}
	for i, n := range names {
		ph := "p1"
		if i > 0 {
			ph = "p2"
		}
		out[n+".yaml"] = pkgw.WidgetYAML("Widget", n, ph, "1", nil)
	}
	return out
}

// bigWidget is a phase-p1 Widget whose spec carries a payload of n bytes.
func bigWidget(name string, n int) string {
	return pkgw.WidgetYAML("Widget", name, "p1", "1\n  blob: "+strings.Repeat("x", n), nil)
}

func with(base map[string]string, extra map[string]string) map[string]string {
	out := map[string]string{}
	for k, v := range base {
		out[k] = v
	}
	for k, v := range extra {
		out[k] = v
	}
	return out
}

var baseManifest = pkgw.Manifest{Name: "app", Phases: []string{"p1", "p2"}, ConfigProps: map[string]string{"x": "integer"}}

var dupPhaseManifest = pkgw.Manifest{Name: "app", Phases: []string{"p1", "p2", "p1"}, ConfigProps: map[string]string{"x": "integer"}}

const (
	lockImages = "  images:\n  - name: tool\n    image: quay.io/org/tool:v1\n"
	lockFile   = "apiVersion: manifests.package-operator.run/v1alpha1\nkind: PackageManifestLock\nspec:\n  images:\n  - name: tool\n    image: quay.io/org/tool:v1\n    digest: sha256:aaaaaaaaaaaaaaaaaaaaaaaaaaaaaaaaaaaaaaaaaaaaaaaaaaaaaaaaaaaaaaaa\n"
)

func manifestWith(constraints string) string {
	m := baseManifest
	m.Constraints = constraints
	return m.YAML()
}

func multiManifest(name string) string {
	m := baseManifest
	m.Name = name
	m.Components = name == "app"
	return m.YAML()
}

// multiFiles: a multi-component image - the root package and two components, selected by spec.component.
var multiFiles = map[string]string{
	"manifest.yaml": multiManifest("app"), "a.yaml": pkgw.WidgetYAML("Widget", "root-a", "p1", "1", nil),
	"components/frontend/manifest.yaml": multiManifest("frontend"), "components/frontend/f.yaml": pkgw.WidgetYAML("Widget", "frontend-f", "p1", "1", nil),
	"components/backend/manifest.yaml": multiManifest("backend"), "components/backend/b.yaml.gotmpl": pkgw.WidgetYAML("Widget", "backend-b", "p2", `{{ if hasKey .config "x" }}{{ .config.x }}{{ else }}3{{ end }}`, nil),
	// a component whose name is a prefix of a sibling's
	"components/front/manifest.yaml": multiManifest("front"), "components/front/x.yaml": pkgw.WidgetYAML("Widget", "front-x", "p1", "1", nil),
}

var images = map[string]imageClass{
	"multi":         {Name: "multi", Files: multiFiles},
	"v1":            {Name: "v1", Files: with(objs("a", "b"), map[string]string{"manifest.yaml": baseManifest.YAML()})},
	"v2":            {Name: "v2", Files: with(objs("a", "c"), map[string]string{"manifest.yaml": baseManifest.YAML()})},
	"tmpl":          {Name: "tmpl", Files: with(objs("a"), map[string]string{"manifest.yaml": baseManifest.YAML(), "t.yaml.gotmpl": pkgw.WidgetYAML("Widget", "t", "p2", "{{ default 7 .config.x }}", nil)})},
	"missing":       {Name: "missing", Invalid: "pull"},
	"nomanifest":    {Name: "nomanifest", Files: objs("a"), Invalid: "load"},
	"twomanifests":  {Name: "twomanifests", Files: with(objs("a"), map[string]string{"manifest.yaml": baseManifest.YAML(), "manifest.yml": baseManifest.YAML()}), Invalid: "load"},
	"badyaml":       {Name: "badyaml", Files: with(objs("a"), map[string]string{"manifest.yaml": baseManifest.YAML(), "z.yaml": "kind: [unclosed\n"}), Invalid: "object"},
	"nophase":       {Name: "nophase", Files: with(objs("a"), map[string]string{"manifest.yaml": baseManifest.YAML(), "z.yaml": pkgw.WidgetYAML("Widget", "z", "", "1", map[string]string{"note": "no phase"})}), Invalid: "object"},
	"dupfiles":      {Name: "dupfiles", Files: with(objs("a"), map[string]string{"manifest.yaml": baseManifest.YAML(), "sub/again.yaml": pkgw.WidgetYAML("Widget", "a", "p2", "2", nil)}), Invalid: "object"},
	"dupdocs":       {Name: "dupdocs", Files: with(objs("a"), map[string]string{"manifest.yaml": baseManifest.YAML(), "two.yaml": pkgw.WidgetYAML("Widget", "q", "p1", "1", nil) + "---\n" + pkgw.WidgetYAML("Widget", "q", "p2", "1", nil)}), Invalid: "object"},
	"openshiftonly": {Name: "openshiftonly", Files: with(objs("a", "b"), map[string]string{"manifest.yaml": manifestWith("  - platform: [OpenShift]\n")}), Invalid: "constraint-platform"},
	"k8s130":        {Name: "k8s130", Files: with(objs("a", "b"), map[string]string{"manifest.yaml": manifestWith("  - platformVersion:\n      name: Kubernetes\n      range: \">=1.30.0\"\n")}), Invalid: "constraint-version"},
	// phases beyond the 1 MiB chunk limit: the deployer spreads them over ObjectSlices
	"big":  {Name: "big", Files: with(objs("a", "c"), map[string]string{"manifest.yaml": baseManifest.YAML(), "b.yaml": bigWidget("b1", 400<<10) + "---\n" + bigWidget("b2", 400<<10) + "---\n" + bigWidget("b3", 400<<10), "z.yaml": pkgw.WidgetYAML("Widget", "z", "p1", "1", nil)})},
	"big2": {Name: "big2", Files: with(objs("a", "c"), map[string]string{"manifest.yaml": baseManifest.YAML(), "b.yaml": bigWidget("b1", 300<<10) + "---\n" + bigWidget("b2", 500<<10) + "---\n" + bigWidget("b4", 300<<10) + "---\n" + bigWidget("b5", 300<<10) + "---\n" + bigWidget("b6", 300<<10)})},
	// small, small, one object beyond the limit on its own, small
	"huge": {Name: "huge", Files: with(objs("a"), map[string]string{"manifest.yaml": baseManifest.YAML(), "b.yaml": bigWidget("b1", 10<<10) + "---\n" + bigWidget("b2", 20<<10) + "---\n" + bigWidget("b3", 1<<20) + "---\n" + bigWidget("b4", 10<<10)})},
	// manifests that declare images and ship a consistent manifest.lock.yaml: a valid one, and one
	// whose manifest has field errors (a duplicated phase name) - with and without the lock file
	"locked":          {Name: "locked", Files: with(objs("a", "b"), map[string]string{"manifest.yaml": baseManifest.YAML() + lockImages, "manifest.lock.yaml": lockFile})},
	"dupphase":        {Name: "dupphase", Files: with(objs("a"), map[string]string{"manifest.yaml": dupPhaseManifest.YAML() + lockImages}), Invalid: "object"},
	"dupphase-locked": {Name: "dupphase-locked", Files: with(objs("a"), map[string]string{"manifest.yaml": dupPhaseManifest.YAML() + lockImages, "manifest.lock.yaml": lockFile}), Invalid: "object"},
	"unique":          {Name: "unique", Files: with(objs("a", "b"), map[string]string{"manifest.yaml": manifestWith("  - uniqueInScope: {}\n")}), Invalid: "constraint-unique"},
}

// constraint grammar: one manifest constraint entry = optional platform list x optional platform
// version range; images "c:<platform>:<version>" carry one entry, "c2:<platform>|<version>" and
// "c2:<version>|<platform>" the same two requirements as separate entries in either order.
type consEntry struct {
	Platform string // "", k, o
	Version  string // "", k-ok, k-bad, o-ok, o-bad
}

var versionRanges = map[string][2]string{
	"k-ok": {"Kubernetes", ">=1.20.0"}, "k-bad": {"Kubernetes", ">=1.30.0"},
	"o-ok": {"OpenShift", ">=4.10.0"}, "o-bad": {"OpenShift", ">=4.13.0"},
}

func (e consEntry) yaml() string {
	var parts []string
	if e.Platform != "" {
		parts = append(parts, "platform: ["+map[string]string{"k": "Kubernetes", "o": "OpenShift"}[e.Platform]+"]")
	}
	if e.Version != "" {
		vr := versionRanges[e.Version]
		parts = append(parts, "platformVersion:\n      name: "+vr[0]+"\n      range: \""+vr[1]+"\"")
	}
	return "  - " + strings.Join(parts, "\n    ") + "\n"
}

// met is the reference semantics written from the API documentation: a platform requirement
// needs that platform; a version requirement is ignored on a different platform.
func (e consEntry) met(env manifests.PackageEnvironment) bool {
	if e.Platform == "o" && env.OpenShift == nil {
		return false
	}
	switch e.Version {
	case "k-bad":
		return env.Kubernetes.Version >= "v1.30"
	case "o-bad":
		return env.OpenShift == nil || env.OpenShift.Version >= "4.13"
	}
	return true
}

var consImages = map[string][]consEntry{}

func init() {
	for _, p := range []string{"", "k", "o"} {
		for _, v := range []string{"", "k-ok", "k-bad", "o-ok", "o-bad"} {
			if p == "" && v == "" {
				continue
			}
			consImages["c:"+p+":"+v] = []consEntry{{p, v}}
		}
	}
	for _, p := range []string{"k", "o"} {
		for _, v := range []string{"k-bad", "o-bad"} {
			consImages["c2:"+p+"|"+v] = []consEntry{{Platform: p}, {Version: v}}
			consImages["c2:"+v+"|"+p] = []consEntry{{Version: v}, {Platform: p}}
		}
	}
	for name, entries := range consImages {
		y := ""
		for _, e := range entries {
			y += e.yaml()
		}
		images[name] = imageClass{Name: name, Files: with(objs("a", "b"), map[string]string{"manifest.yaml": manifestWith(y)}), Invalid: "constraint-grammar"}
	}
}

var envs = map[string]manifests.PackageEnvironment{
	"k8s-1.27": {Kubernetes: manifests.PackageEnvironmentKubernetes{Version: "v1.27.0"}},
	"ocp-4.12": {Kubernetes: manifests.PackageEnvironmentKubernetes{Version: "v1.31.0"}, OpenShift: &manifests.PackageEnvironmentOpenShift{Version: "4.12.0"}},
}

var configs = map[string]string{"none": "", "x1": `{"x":1}`, "x2": `{"x":2}`, "bad": `{"x":"notanumber"}`}

type scenario struct {
	Env    string   `json:"env"`
	Images []string `json:"images"`
	Confs  []string `json:"configs"`
	Edits  int      `json:"edits"`
	Faults int      `json:"faults"`
	Pauses int      `json:"pauses"`
	Races  int      `json:"races"`
	// LongLived: all passes of a history run in one operator process (states rebuilt by path replay)
	LongLived bool `json:"longLived"`
	// StartPaused: the Package is created with spec.paused=true; ODDeletes: budget of a third
	// party deleting the ObjectDeployment
	StartPaused bool `json:"startPaused"`
	ODDeletes   int  `json:"odDeletes"`
	Twin        bool `json:"twin"` // a second Package using the same manifest name exists
	// Components: values the user may set spec.component to ("" = the root package) - only used
	// with the multi-component image
	Components []string `json:"components,omitempty"`
}

func (sc scenario) name() string {
	return fmt.Sprintf("package env=%s images=%v configs=%v edits=%d faults=%d pauses=%d races=%d twin=%v longLived=%v startPaused=%v odDeletes=%d components=%v", sc.Env, sc.Images, sc.Confs, sc.Edits, sc.Faults, sc.Pauses, sc.Races, sc.Twin, sc.LongLived, sc.StartPaused, sc.ODDeletes, sc.Components)
}

var pkgKey = world.PKOKey("Package", world.NS, "p")
var odKey = osw.ODKey("p")

func specOf(c map[string]any) (image, config string, paused bool) {
	sp, _ := c["spec"].(map[string]any)
	image, _ = sp["image"].(string)
	if cfg, ok := sp["config"]; ok {
		b, _ := json.Marshal(cfg)
		config = string(b)
	}
	paused, _ = sp["paused"].(bool)
	return
}

// validity classifies the package as the statement does, for the given environment.
func validity(sc scenario, w *world.World, c map[string]any) string {
	image, config, _ := specOf(c)
	ic, ok := images[image]
	if !ok || ic.Files == nil {
		return "pull"
	}
	switch ic.Invalid {
	case "load", "object":
		return ic.Invalid
	case "constraint-platform":
		if envs[sc.Env].OpenShift == nil {
			return "constraint"
		}
	case "constraint-version":
		if envs[sc.Env].Kubernetes.Version < "v1.30" {
			return "constraint"
		}
	case "constraint-grammar":
		for _, e := range consImages[image] {
			if !e.met(envs[sc.Env]) {
				return "constraint"
			}
		}
	case "constraint-unique":
		n := 0
		for _, k := range w.S.SortedKeys() {
			if k.Kind == "Package" && kmodel.Labels(w.S.Objs[k].Content)["package-operator.run/package"] == "app" {
				n++
			}
		}
		if n > 1 {
			return "constraint"
		}
	}
	if strings.Contains(config, "notanumber") {
		return "config"
	}
	return ""
}

func freshRender(sc scenario, c map[string]any) (corev1alpha1.ObjectSetTemplateSpec, error) {
	image, config, _ := specOf(c)
	cfg := map[string]any{}
	if config != "" {
		_ = json.Unmarshal([]byte(config), &cfg)
	}
	md, _ := c["metadata"].(map[string]any)
	name, _ := md["name"].(string)
	ns, _ := md["namespace"].(string)
	tctx := pkgw.Context(name, ns, cfg, envs[sc.Env])
	tctx.Package.Image = image
	tctx.Package.Labels = kmodel.Labels(c)
	tctx.Package.Annotations = kmodel.Annotations(c)
	if len(tctx.Package.Labels) == 0 {
		tctx.Package.Labels = nil
	}
	if len(tctx.Package.Annotations) == 0 {
		tctx.Package.Annotations = nil
	}
	comp, _ := c["spec"].(map[string]any)["component"].(string)
	files := images[image].Files
	if comp != "" {
		// the reference selects the component's files itself (everything below components/<name>/,
		// paths relative to that folder) and renders them as a package of their own
		sub := map[string]string{}
		for p, v := range files {
			if rest, ok := strings.CutPrefix(p, "components/"+comp+"/"); ok {
				sub[rest] = v
			}
		}
		files = sub
	}
	r := pkgw.Render(files, "", tctx)
	return r.Spec, r.Err
}

func odTemplate(c map[string]any) (corev1alpha1.ObjectSetTemplateSpec, error) {
	var od corev1alpha1.ObjectDeployment
	b, _ := json.Marshal(c)
	if err := json.Unmarshal(b, &od); err != nil {
		return corev1alpha1.ObjectSetTemplateSpec{}, err
	}
	return od.Spec.Template.Spec, nil
}

// inlineSlices resolves the template's ObjectSlice references against the store: each phase's
// objects followed by the objects of its slices, in the order the template names them (the order
// in which the ObjectSet controller loads them).
func inlineSlices(s *kmodel.Store, t corev1alpha1.ObjectSetTemplateSpec) (corev1alpha1.ObjectSetTemplateSpec, error) {
	out := *t.DeepCopy()
	for i := range out.Phases {
		for _, sn := range out.Phases[i].Slices {
			so := s.Objs[world.PKOKey("ObjectSlice", world.NS, sn)]
			if so == nil {
				return out, fmt.Errorf("phase %q references ObjectSlice %q which does not exist", out.Phases[i].Name, sn)
			}
			var sl corev1alpha1.ObjectSlice
			b, _ := json.Marshal(so.Content)
			if err := json.Unmarshal(b, &sl); err != nil {
				return out, err
			}
			out.Phases[i].Objects = append(out.Phases[i].Objects, sl.Objects...)
		}
		out.Phases[i].Slices = nil
	}
	return out, nil
}

func condition(c map[string]any, typ string) (string, bool) {
	st, _, _, ok := world.Condition(c, typ)
	return st, ok
}

func check(sc scenario) func(before *world.World, ev world.Event, pass *world.Pass, after *world.World) []world.Finding {
	return func(before *world.World, ev world.Event, pass *world.Pass, after *world.World) []world.Finding {
		if pass == nil || pass.Ctrl != world.CtrlPackage || pass.Key.Name != "p" {
			return nil
		}
		var out []world.Finding
		bad := func(id, f string, a ...any) {
			out = append(out, world.Finding{Monitor: "package-admission", Identity: id, Message: fmt.Sprintf(f, a...)})
		}
		pkg := before.S.Objs[pkgKey]
		if pkg == nil || kmodel.Terminating(pkg.Content) {
			return nil
		}
		_, _, paused := specOf(pkg.Content)
		var odWrites []*kmodel.Request
		for _, r := range pass.Reqs {
			if r.Key == odKey && r.IsWrite() && r.Err == nil && r.Changed() {
				odWrites = append(odWrites, r)
			}
		}
		faulted := strings.HasPrefix(ev.Name, "fault:")
		post := after.S.Objs[pkgKey]
		if paused {
			// pausing a Package pauses its ObjectDeployment (C09) and nothing else is done
			if pass.Pulls > 0 {
				bad("paused-package-pulled", "the Package is paused but its pass pulled the image")
			}
			if od := after.S.Objs[odKey]; od != nil && pass.Err == nil && !pass.Crashed {
				pv, _ := world.Nested(od.Content, "spec", "paused")
				if b, _ := pv.(bool); !b {
					bad("paused-package-deployment-not-paused", "the Package is paused but after its pass the ObjectDeployment is not")
				}
			}
			for _, r := range odWrites {
				if osw.TemplateOf(r.Pre) != osw.TemplateOf(r.Post) {
					bad("paused-package-changed-template", "the Package is paused but %s changed the ObjectDeployment's template", r)
				}
			}
			return out
		}
		class := validity(sc, before, pkg.Content)
		unchanged := before.Notes["unpacked-spec"] != "" && before.Notes["unpacked-spec"] == specDigest(pkg.Content)
		if unchanged {
			if pass.Pulls > 0 {
				bad("repull-of-unchanged-package", "spec unchanged since the last successful unpack but the pass pulled the image %d time(s)", pass.Pulls)
			}
			for _, r := range odWrites {
				if osw.TemplateOf(r.Pre) != osw.TemplateOf(r.Post) {
					bad("rerender-of-unchanged-package", "spec unchanged since the last successful unpack but %s changed the ObjectDeployment", r)
				}
			}
			return out
		}
		if class != "" {
			for _, r := range odWrites {
				if r.Pre == nil || osw.TemplateOf(r.Pre) != osw.TemplateOf(r.Post) {
					bad("invalid-package-deployed "+class, "the package is not admissible (%s) but the pass sent %s (ObjectDeployment created or changed)", class, r)
				}
			}
			if pass.Err == nil && !pass.Crashed && !faulted && post != nil {
				switch class {
				case "pull":
					if st, ok := condition(post.Content, "Unpacked"); !ok || st != "False" {
						bad("pull-failure-not-shown", "image cannot be pulled but persisted Unpacked=%q (present=%v)", st, ok)
					}
				case "load", "constraint":
					if st, ok := condition(post.Content, "Invalid"); !ok || st != "True" {
						bad("invalid-not-shown "+class, "package fails with class %s but the persisted Invalid condition is %q (present=%v)", class, st, ok)
					}
				}
			}
			return out
		}
		// valid and changed: an undisturbed pass completes (judged in the component system only,
		// whose every image x config x component combination renders: elsewhere a valid package may
		// still have a template that fails for a given configuration) ...
		if len(sc.Components) > 0 && pass.Err != nil && !pass.Crashed && !faulted && !strings.HasPrefix(ev.Name, "race:") && !strings.HasPrefix(ev.Name, "conflict:") {
			bad("valid-package-pass-failed", "the package is valid and nothing disturbed the pass, but it failed: %v", pass.Err)
		}
		// ... and after a completed pass the deployment equals a fresh render
		if pass.Err == nil && !pass.Crashed && !faulted {
			od := after.S.Objs[odKey]
			if od == nil {
				bad("valid-package-not-deployed", "valid package but no ObjectDeployment after a completed pass")
				return out
			}
			got, err1 := odTemplate(od.Content)
			if err1 == nil {
				got, err1 = inlineSlices(after.S, got)
			}
			want, err2 := freshRender(sc, pkg.Content)
			if err1 != nil && err2 == nil && strings.Contains(err1.Error(), "references ObjectSlice") {
				bad("deployment-differs-from-fresh-render", "ObjectDeployment template cannot be resolved: %v", err1)
			} else if err1 != nil || err2 != nil {
				bad("harness", "cannot compare templates: %v %v", err1, err2)
			} else if !reflect.DeepEqual(normalize(got), normalize(want)) {
				bad("deployment-differs-from-fresh-render", "ObjectDeployment template differs from a fresh render of the current spec:\n got  %s\n want %s", summary(got), summary(want))
			}
		}
		return out
	}
}

func normalize(t corev1alpha1.ObjectSetTemplateSpec) string {
	b, _ := json.Marshal(t)
	var v any
	_ = json.Unmarshal(b, &v)
	nb, _ := json.Marshal(v)
	return string(nb)
}

func summary(t corev1alpha1.ObjectSetTemplateSpec) string {
	var s []string
	for _, ph := range t.Phases {
		var n []string
		for _, o := range ph.Objects {
			x, _, _ := unstructuredNested(o.Object.Object, "spec", "x")
			n = append(n, fmt.Sprintf("%s(x=%v)", o.Object.GetName(), x))
		}
		s = append(s, ph.Name+"{"+strings.Join(n, ",")+"}")
	}
	return strings.Join(s, " ")
}

func unstructuredNested(m map[string]any, path ...string) (any, bool, error) {
	v, ok := world.Nested(m, path...)
	return v, ok, nil
}

func specDigest(c map[string]any) string {
	sp, _ := c["spec"].(map[string]any)
	cp := runtime.DeepCopyJSON(sp)
	delete(cp, "paused")
	return kmodel.Digest(cp)
}

func system(sc scenario) *world.System {
	return &world.System{
		Name:       sc.name(),
		Persistent: sc.LongLived,
		Init: func() *world.World {
			w := osw.NewWorld()
			if sc.LongLived {
				w.LongLived()
			}
			w.Pkg = &world.PackageEnv{Images: map[string]map[string]string{}, Env: envs[sc.Env]}
			for n, ic := range images {
				if ic.Files != nil {
					w.Pkg.Images[n] = ic.Files
				}
			}
			p := &corev1alpha1.Package{ObjectMeta: metav1.ObjectMeta{Name: "p", Namespace: world.NS, Labels: map[string]string{"package-operator.run/package": "app"}},
				Spec: corev1alpha1.PackageSpec{Image: sc.Images[0], Paused: sc.StartPaused}}
			w.MustCreate(p)
			w.Budget["od-delete"] = sc.ODDeletes
			if sc.Twin {
				w.MustCreate(&corev1alpha1.Package{ObjectMeta: metav1.ObjectMeta{Name: "twin", Namespace: world.NS, Labels: map[string]string{"package-operator.run/package": "app"}},
					Spec: corev1alpha1.PackageSpec{Image: "v1"}})
			}
			w.Budget["edit"] = sc.Edits
			w.Budget["fault"] = sc.Faults
			w.Budget["user-pause"] = sc.Pauses
			w.Budget["race"] = sc.Races
			return w
		},
		Events: func(w *world.World) []world.Event {
			var evs []world.Event
			rec := func(w *world.World, plan *world.Plan) *world.Pass {
				p := w.Reconcile(world.CtrlPackage, osw.NN("p"), plan)
				if o := w.S.Objs[pkgKey]; o != nil {
					st, _, og, ok := world.Condition(o.Content, "Unpacked")
					// (a pass whose status write took effect counts even if its response was lost)
					if ok && st == "True" && og == world.Generation(o.Content) {
						w.Notes["unpacked-spec"] = specDigest(o.Content)
					}
				}
				return p
			}
			evs = append(evs, world.Event{Name: "reconcile:pkg:p", Apply: func(w *world.World) *world.Pass { return rec(w, nil) }})
			pkg := w.S.Objs[pkgKey]
			if pkg == nil {
				return evs
			}
			image, config, paused := specOf(pkg.Content)
			if w.Budget["edit"] > 0 {
				for _, im := range sc.Images {
					if im == image {
						continue
					}
					im := im
					evs = append(evs, world.Event{Name: "user:set-image:" + im, Apply: func(w *world.World) *world.Pass {
						w.Budget["edit"]--
						_ = w.Edit(pkgKey, func(c map[string]any) { c["spec"].(map[string]any)["image"] = im })
						return nil
					}})
				}
				if image == "multi" {
					curComp, _ := pkg.Content["spec"].(map[string]any)["component"].(string)
					for _, comp := range sc.Components {
						if comp == curComp {
							continue
						}
						comp := comp
						evs = append(evs, world.Event{Name: "user:set-component:" + comp, Apply: func(w *world.World) *world.Pass {
							w.Budget["edit"]--
							_ = w.Edit(pkgKey, func(c map[string]any) {
								if comp == "" {
									delete(c["spec"].(map[string]any), "component")
								} else {
									c["spec"].(map[string]any)["component"] = comp
								}
							})
							return nil
						}})
					}
				}
				for _, cn := range sc.Confs {
					raw := configs[cn]
					if raw == config || (raw == "" && config == "") {
						continue
					}
					cn, raw := cn, raw
					evs = append(evs, world.Event{Name: "user:set-config:" + cn, Apply: func(w *world.World) *world.Pass {
						w.Budget["edit"]--
						_ = w.Edit(pkgKey, func(c map[string]any) {
							sp := c["spec"].(map[string]any)
							if raw == "" {
								delete(sp, "config")
								return
							}
							var v map[string]any
							_ = json.Unmarshal([]byte(raw), &v)
							for k, x := range v {
								if f, ok := x.(float64); ok {
									v[k] = int64(f)
								}
							}
							sp["config"] = v
						})
						return nil
					}})
				}
			}
			if w.Budget["user-pause"] > 0 {
				evs = append(evs, world.Event{Name: fmt.Sprintf("user:set-paused:%v", !paused), Apply: func(w *world.World) *world.Pass {
					w.Budget["user-pause"]--
					_ = w.Edit(pkgKey, func(c map[string]any) {
						if paused {
							delete(c["spec"].(map[string]any), "paused")
						} else {
							c["spec"].(map[string]any)["paused"] = true
						}
					})
					return nil
				}})
			}
			if w.Budget["od-delete"] > 0 && w.S.Objs[odKey] != nil {
				evs = append(evs, world.Event{Name: "third-party:delete-deployment", Apply: func(w *world.World) *world.Pass {
					w.Budget["od-delete"]--
					_ = w.S.Delete(odKey, kmodel.DeleteOpts{})
					return nil
				}})
			}
			if w.Budget["race"] > 0 {
				// another writer (the ObjectDeployment controller, a user) updates the ObjectDeployment
				// between two calls of the Package pass: the pass's next write of it conflicts
				probe := w.Clone()
				n := len(probe.Reconcile(world.CtrlPackage, osw.NN("p"), nil).Reqs)
				for i := 0; i < n; i++ {
					i := i
					evs = append(evs, world.Event{Name: fmt.Sprintf("race:pkg:p:deployment-touched@%d", i), Apply: func(w *world.World) *world.Pass {
						w.Budget["race"]--
						return rec(w, &world.Plan{InterfereAt: i, Interfere: func(w *world.World) {
							if w.S.Objs[odKey] != nil {
								_ = w.Edit(odKey, func(c map[string]any) {
									md := c["metadata"].(map[string]any)
									an, _ := md["annotations"].(map[string]any)
									if an == nil {
										an = map[string]any{}
									}
									n, _ := an["other-writer"].(string)
									an["other-writer"] = n + "x"
									md["annotations"] = an
								})
							}
						}})
					}})
				}
			}
			if w.Budget["fault"] > 0 {
				probe := w.Clone()
				n := len(probe.Reconcile(world.CtrlPackage, osw.NN("p"), nil).Reqs)
				for i := 0; i < n; i++ {
					for _, fk := range []world.FaultKind{world.ErrBefore, world.LostResponse, world.Crash} {
						i, fk := i, fk
						evs = append(evs, world.Event{Name: fmt.Sprintf("fault:pkg:p:%s@%d", fk, i), Apply: func(w *world.World) *world.Pass {
							w.Budget["fault"]--
							return rec(w, &world.Plan{FaultAt: i, Fault: fk})
						}})
					}
				}
			}
			return evs
		},
		Check: check(sc),
	}
}

func consImageNames() []string {
	var out []string
	for n := range consImages {
		out = append(out, n)
	}
	sort.Strings(out)
	return out
}

// PauseSystems are the Package-level pause systems (used by C09 as well): a Package that starts
// paused or not, is paused / unpaused by the user, edited, and whose ObjectDeployment may be
// deleted by a third party.
func PauseSystems(quick bool) []*world.System {
	scs := []scenario{
		{Env: "k8s-1.27", Images: []string{"v1", "v2"}, Confs: []string{"none"}, Edits: 1, Pauses: 2, ODDeletes: 1},
		{Env: "k8s-1.27", Images: []string{"v1", "v2"}, Confs: []string{"none"}, Edits: 1, Pauses: 1, StartPaused: true},
	}
	if !quick {
		scs = append(scs, scenario{Env: "k8s-1.27", Images: []string{"v1", "tmpl", "missing"}, Confs: []string{"none", "x1"}, Edits: 2, Pauses: 2, ODDeletes: 1, StartPaused: true, Faults: 1})
	}
	var out []*world.System
	for _, sc := range scs {
		out = append(out, system(sc))
	}
	return out
}

func scenarios(quick bool) []scenario {
	all := []string{"v1", "v2", "tmpl", "missing", "nomanifest", "twomanifests", "badyaml", "nophase", "dupfiles", "dupdocs", "openshiftonly", "k8s130", "unique"}
	sort.Strings(all)
	out := []scenario{
		{Env: "k8s-1.27", Images: append([]string{"v1"}, all...), Confs: []string{"none", "x1", "bad"}, Edits: 2},
		{Env: "ocp-4.12", Images: []string{"openshiftonly", "k8s130", "v1", "missing"}, Confs: []string{"none", "x2"}, Edits: 2, Faults: 1},
		{Env: "k8s-1.27", Images: []string{"unique", "v1", "tmpl"}, Confs: []string{"none", "x1", "x2"}, Edits: 2, Twin: true, Pauses: 1},
		{Env: "k8s-1.27", Images: []string{"tmpl", "v2", "nophase"}, Confs: []string{"none", "x1", "x2", "bad"}, Edits: 2, Faults: 1, Pauses: 1},
		{Env: "k8s-1.27", Images: []string{"v1", "v2", "tmpl"}, Confs: []string{"none", "x1"}, Edits: 2, Races: 1},
		{Env: "k8s-1.27", Images: append([]string{"v1"}, consImageNames()...), Confs: []string{"none"}, Edits: 2},
		{Env: "ocp-4.12", Images: append([]string{"v1"}, consImageNames()...), Confs: []string{"none"}, Edits: 2},
		{Env: "k8s-1.27", Images: []string{"v1", "v2", "tmpl", "nophase", "missing"}, Confs: []string{"none", "x1", "x2"}, Edits: 3, LongLived: true},
		{Env: "k8s-1.27", Images: []string{"v1", "v2"}, Confs: []string{"none"}, Edits: 1, Pauses: 2, ODDeletes: 1},
		{Env: "k8s-1.27", Images: []string{"v1", "v2"}, Confs: []string{"none"}, Edits: 1, Pauses: 1, StartPaused: true},
		{Env: "k8s-1.27", Images: []string{"v1", "big", "big2", "huge"}, Confs: []string{"none"}, Edits: 2},
		{Env: "k8s-1.27", Images: []string{"v1", "locked", "dupphase", "dupphase-locked"}, Confs: []string{"none"}, Edits: 2},
		{Env: "k8s-1.27", Images: []string{"multi"}, Confs: []string{"none", "x1"}, Components: []string{"", "frontend", "backend", "front"}, Edits: 3},
	}
	if !quick {
		out = append(out,
			scenario{Env: "k8s-1.27", Images: append([]string{"v1"}, all...), Confs: []string{"none", "x1", "x2", "bad"}, Edits: 3},
			scenario{Env: "ocp-4.12", Images: append([]string{"v2"}, all...), Confs: []string{"none", "x1"}, Edits: 3, Faults: 1},
			scenario{Env: "k8s-1.27", Images: []string{"unique", "v1", "v2", "tmpl"}, Confs: []string{"none", "x1", "x2"}, Edits: 3, Twin: true, Pauses: 2, Faults: 1},
			scenario{Env: "k8s-1.27", Images: []string{"v1", "v2", "tmpl", "missing"}, Confs: []string{"none", "x1", "x2"}, Edits: 3, Races: 2, Faults: 1, Pauses: 1},
		)
	}
	return out
}

func run(o checks.Opts) *report.Report {
	rep := report.New("C16", "bfs")
	rep.Rule = "explicit-state BFS: Package p whose image is switched among {valid v1, valid v2, templated, not in registry, no manifest, two manifests, malformed object YAML, object without phase annotation, the same object in two files / in two documents of one file, OpenShift-only, Kubernetes>=1.30, uniqueInScope, manifests declaring images with a manifest.lock.yaml (valid; a duplicated phase name with and without the lock file), packages with a phase beyond the 1 MiB chunk limit (three 400 KiB objects; five 300-500 KiB objects; small, small, one 1 MiB object, small - the template's ObjectSlices are resolved against the store before comparing), and every manifest constraint entry of the grammar {no platform, [Kubernetes], [OpenShift]} x {no version, Kubernetes met/unmet, OpenShift met/unmet} as one entry and as two entries in either order} and whose config among {none, x:1, x:2, schema-violating}, 2-3 edits, pause/unpause, a foreign write to the ObjectDeployment landing before each API call of the pass (update conflict), every fault kind at every API call of the Package controller's pass, environments Kubernetes 1.27 / OpenShift 4.12, one system with all passes in one long-lived operator process, optional twin Package with the same manifest name; real Package controller + PackageDeployer + scripted registry; monitor on every Package pass; fresh-render differential oracle for valid specs"
	scs := scenarios(o.Quick())
	rep.Bounds["systems"] = len(scs)
	for i, sc := range scs {
		if o.Shards > 1 && i%o.Shards != o.Shard {
			continue
		}
		sys := system(sc)
		sys.MaxStates = 200000
		osw.RunBFS(rep, sys, map[string]any{"scenario": sc})
		rep.Samples = append(rep.Samples, map[string]any{"scenario": sc, "example_path": []string{"reconcile:pkg:p", "user:set-image:v2", "reconcile:pkg:p", "user:set-config:bad", "reconcile:pkg:p"}})
	}
	return rep
}

func replay(v report.Violation) string {
	var sc scenario
	if err := checks.Decode(v.Params["scenario"], &sc); err != nil {
		return err.Error()
	}
	return osw.ReplayBFS(system(sc), v)
}

func init() {
	checks.Register(&checks.Check{
		ID:    "C16",
		Level: "exploration",
		Assumptions: []string{
			"the registry is scripted (image name -> file map); pull errors are 'image not found'",
			"object-validation and config-schema failures only have to keep the ObjectDeployment untouched (the statement demands the Invalid condition for load failures and unmet constraints)",
		},
		Subs: []*checks.Sub{{Name: "bfs", Shards: func(t string) int {
			if t == "thorough" {
				return 16
			}
			return 12
		}, Run: run, Replay: replay, Parallel: true},
			{Name: "cluster-twin", Shards: func(t string) int { return len(twinScenarios(t != "thorough")) }, Run: runTwin, Replay: replayTwin, Parallel: true}},
	})
}
