package c16

import (
	"encoding/json"
	"fmt"
	"sort"
	"strings"

	"k8s.io/apimachinery/pkg/apis/meta/v1/unstructured"
	"k8s.io/apimachinery/pkg/types"

	corev1 "k8s.io/api/core/v1"
	metav1 "k8s.io/apimachinery/pkg/apis/meta/v1"
	corev1alpha1 "package-operator.run/apis/core/v1alpha1"
	"package-operator.run/internal/packages/zzverif/checks"
	"package-operator.run/internal/packages/zzverif/kmodel"
	"package-operator.run/internal/packages/zzverif/osw"
	"package-operator.run/internal/packages/zzverif/pkgw"
	"package-operator.run/internal/packages/zzverif/report"
	"package-operator.run/internal/packages/zzverif/world"
)

// ---- Package and ClusterPackage in lockstep ----
//
// The Package controller exists twice over one generic implementation; the accessors
// (adapters.GenericPackage / GenericClusterPackage) and the deployers differ. One world holds
// Package ns/p and ClusterPackage p on the same images (manifests of both scopes; the objects
// name the Package's namespace, or cns for the cluster-scoped one); every event is applied to
// both and the projections - conditions, ObjectDeployment template by phase, paused flag - must
// stay equal.

const twinNS = "cns"

var twinManifest = pkgw.Manifest{Name: "app", Scopes: []string{"Namespaced", "Cluster"}, Phases: []string{"p1", "p2"}, ConfigProps: map[string]string{"x": "integer"}}

func twinMulti(name string) string {
	m := twinManifest
	m.Name = name
	m.Components = name == "app"
	return m.YAML()
}

func twinObj(name, phase, x string) string {
	y := pkgw.WidgetYAML("Widget", name, phase, x, nil)
	return strings.Replace(y, "metadata:\n", "metadata:\n  namespace: '{{ if .package.metadata.namespace }}{{ .package.metadata.namespace }}{{ else }}"+twinNS+"{{ end }}'\n", 1)
}

var twinImages = map[string]map[string]string{
	"v1":   {"manifest.yaml": twinManifest.YAML(), "a.yaml.gotmpl": twinObj("a", "p1", "1"), "b.yaml.gotmpl": twinObj("b", "p2", "1")},
	"v2":   {"manifest.yaml": twinManifest.YAML(), "a.yaml.gotmpl": twinObj("a", "p1", "1"), "c.yaml.gotmpl": twinObj("c", "p2", "{{ default 7 .config.x }}")},
	"name": {"manifest.yaml": twinManifest.YAML(), "n.yaml.gotmpl": twinObj("n-{{ .package.metadata.name }}", "p1", "1")},
	"bad":  {"manifest.yaml": twinManifest.YAML(), "z.yaml": "kind: [unclosed\n"},
	// a multi-component image: the root package and two components, selected by spec.component
	"multi": {"manifest.yaml": twinMulti("app"), "a.yaml.gotmpl": twinObj("root-a", "p1", "1"),
		"components/frontend/manifest.yaml": twinMulti("frontend"), "components/frontend/f.yaml.gotmpl": twinObj("frontend-f", "p1", "1"),
		"components/backend/manifest.yaml": twinMulti("backend"), "components/backend/b.yaml.gotmpl": twinObj("backend-b", "p2", "{{ default 3 .config.x }}")},
}

type twinScenario struct {
	Images []string `json:"images"`
	Confs  []string `json:"configs"`
	Edits  int      `json:"edits"`
	Pauses int      `json:"pauses"`
	// Components: values the user may set spec.component to ("" = the root package)
	Components []string `json:"components"`
}

func (sc twinScenario) name() string {
	return fmt.Sprintf("package-twin images=%v configs=%v components=%v edits=%d pauses=%d", sc.Images, sc.Confs, sc.Components, sc.Edits, sc.Pauses)
}

func pkgKeyOf(cluster bool) kmodel.Key {
	if cluster {
		return world.PKOKey("ClusterPackage", "", "p")
	}
	return world.PKOKey("Package", world.NS, "p")
}

func odKeyOf(cluster bool) kmodel.Key {
	if cluster {
		return world.PKOKey("ClusterObjectDeployment", "", "p")
	}
	return world.PKOKey("ObjectDeployment", world.NS, "p")
}

func twinProject(w *world.World, cluster bool) string {
	var sb strings.Builder
	if p := w.S.Objs[pkgKeyOf(cluster)]; p != nil {
		var conds []string
		st, _ := p.Content["status"].(map[string]any)
		l, _ := st["conditions"].([]any)
		for _, e := range l {
			m, _ := e.(map[string]any)
			conds = append(conds, fmt.Sprintf("%v=%v/%v@%v", m["type"], m["status"], m["reason"], m["observedGeneration"]))
		}
		sort.Strings(conds)
		spec, _ := p.Content["spec"].(map[string]any)
		fmt.Fprintf(&sb, "Package image=%v paused=%v conditions=%v unpacked=%v\n", spec["image"], spec["paused"], conds, st["unpackedHash"] != nil)
	} else {
		sb.WriteString("Package absent\n")
	}
	od := w.S.Objs[odKeyOf(cluster)]
	if od == nil {
		sb.WriteString("ObjectDeployment absent\n")
		return sb.String()
	}
	var d corev1alpha1.ObjectDeployment
	b, _ := json.Marshal(od.Content)
	_ = json.Unmarshal(b, &d)
	fmt.Fprintf(&sb, "ObjectDeployment paused=%v labels=%v\n", d.Spec.Paused, d.Labels["package-operator.run/package"])
	for _, ph := range d.Spec.Template.Spec.Phases {
		var objs []string
		for _, o := range ph.Objects {
			x, _, _ := unstructured.NestedFieldNoCopy(o.Object.Object, "spec", "x")
			objs = append(objs, fmt.Sprintf("%s(x=%v,labels=%d)", o.Object.GetName(), x, len(o.Object.GetLabels())))
		}
		fmt.Fprintf(&sb, "  phase %s class=%q slices=%d %v\n", ph.Name, ph.Class, len(ph.Slices), objs)
	}
	return sb.String()
}

func twinSystem(sc twinScenario) *world.System {
	rec := func(w *world.World) *world.Pass {
		p1 := w.Reconcile(world.CtrlPackage, osw.NN("p"), nil)
		p2 := w.Reconcile(world.CtrlClusterPackage, types.NamespacedName{Name: "p"}, nil)
		p2.Reqs = append(append([]*kmodel.Request{}, p1.Reqs...), p2.Reqs...)
		if p2.Panic == "" {
			p2.Panic = p1.Panic
		}
		return p2
	}
	both := func(w *world.World, f func(c map[string]any)) {
		_ = w.Edit(pkgKeyOf(false), f)
		_ = w.Edit(pkgKeyOf(true), f)
	}
	return &world.System{
		Name: sc.name(),
		Init: func() *world.World {
			w := osw.NewWorld()
			w.MustCreate(&corev1.Namespace{ObjectMeta: metav1.ObjectMeta{Name: twinNS}})
			w.Pkg = &world.PackageEnv{Images: twinImages, Env: envs["k8s-1.27"]}
			w.MustCreate(&corev1alpha1.Package{ObjectMeta: metav1.ObjectMeta{Name: "p", Namespace: world.NS}, Spec: corev1alpha1.PackageSpec{Image: sc.Images[0]}})
			w.MustCreate(&corev1alpha1.ClusterPackage{ObjectMeta: metav1.ObjectMeta{Name: "p"}, Spec: corev1alpha1.PackageSpec{Image: sc.Images[0]}})
			w.Budget["edit"] = sc.Edits
			w.Budget["user-pause"] = sc.Pauses
			return w
		},
		Events: func(w *world.World) []world.Event {
			evs := []world.Event{{Name: "reconcile:pkg:p", Apply: rec}}
			pkg := w.S.Objs[pkgKeyOf(false)]
			if pkg == nil {
				return evs
			}
			image, config, paused := specOf(pkg.Content)
			if w.Budget["edit"] > 0 {
				for _, im := range sc.Images {
					if im == image {
						continue
					}
					im := im
					evs = append(evs, world.Event{Name: "user:set-image:" + im, Apply: func(w *world.World) *world.Pass {
						w.Budget["edit"]--
						both(w, func(c map[string]any) { c["spec"].(map[string]any)["image"] = im })
						return nil
					}})
				}
				curComp, _ := pkg.Content["spec"].(map[string]any)["component"].(string)
				for _, comp := range sc.Components {
					if comp == curComp {
						continue
					}
					comp := comp
					evs = append(evs, world.Event{Name: "user:set-component:" + comp, Apply: func(w *world.World) *world.Pass {
						w.Budget["edit"]--
						both(w, func(c map[string]any) {
							if comp == "" {
								delete(c["spec"].(map[string]any), "component")
							} else {
								c["spec"].(map[string]any)["component"] = comp
							}
						})
						return nil
					}})
				}
				for _, cn := range sc.Confs {
					raw := configs[cn]
					if raw == config {
						continue
					}
					cn, raw := cn, raw
					evs = append(evs, world.Event{Name: "user:set-config:" + cn, Apply: func(w *world.World) *world.Pass {
						w.Budget["edit"]--
						both(w, func(c map[string]any) {
							sp := c["spec"].(map[string]any)
							if raw == "" {
								delete(sp, "config")
								return
							}
							var v map[string]any
							_ = json.Unmarshal([]byte(raw), &v)
							for k, x := range v {
								if f, ok := x.(float64); ok {
									v[k] = int64(f)
								}
							}
							sp["config"] = v
						})
						return nil
					}})
				}
			}
			if w.Budget["user-pause"] > 0 {
				name := "user:pause"
				if paused {
					name = "user:unpause"
				}
				evs = append(evs, world.Event{Name: name, Apply: func(w *world.World) *world.Pass {
					w.Budget["user-pause"]--
					both(w, func(c map[string]any) {
						if paused {
							delete(c["spec"].(map[string]any), "paused")
						} else {
							c["spec"].(map[string]any)["paused"] = true
						}
					})
					return nil
				}})
			}
			return evs
		},
		Invariant: func(w *world.World) []world.Finding {
			a, b := twinProject(w, false), twinProject(w, true)
			if a == b {
				return nil
			}
			return []world.Finding{{Monitor: "cluster-twin", Identity: "clusterpackage-diverges-from-package", Message: "after this event the ClusterPackage is in another state than the Package driven through the same history:\n--- Package\n" + a + "--- ClusterPackage\n" + b}}
		},
	}
}

func twinScenarios(quick bool) []twinScenario {
	out := []twinScenario{
		{Images: []string{"v1", "v2", "name", "bad"}, Confs: []string{"none", "x1"}, Edits: 2},
		{Images: []string{"v1", "v2", "missing"}, Confs: []string{"none", "x2", "bad"}, Edits: 2, Pauses: 1},
	}
	out = append(out, twinScenario{Images: []string{"multi", "v1"}, Confs: []string{"none", "x1"}, Components: []string{"", "frontend", "backend", "nope"}, Edits: 2})
	if !quick {
		out = append(out, twinScenario{Images: []string{"v1", "v2", "name", "bad", "missing"}, Confs: []string{"none", "x1", "x2", "bad"}, Edits: 3, Pauses: 2})
	}
	return out
}

func runTwin(o checks.Opts) *report.Report {
	rep := report.New("C16", "cluster-twin")
	rep.Rule = "lockstep explicit-state BFS: Package ns/p and ClusterPackage p on the same images (manifests of both scopes) and configs, every event (reconcile of both controllers, image / config / component edit on a multi-component image, pause / unpause) applied to both; after every event the two project equally: conditions with reason and observedGeneration, whether an unpacked hash is recorded, the ObjectDeployment's paused flag and its template by phase (object names, rendered spec value, label count)"
	scs := twinScenarios(o.Quick())
	rep.Bounds["systems"] = len(scs)
	for i, sc := range scs {
		if o.Shards > 1 && i%o.Shards != o.Shard {
			continue
		}
		sys := twinSystem(sc)
		sys.MaxStates = 200000
		osw.RunBFS(rep, sys, map[string]any{"scenario": sc})
		rep.Samples = append(rep.Samples, map[string]any{"scenario": sc, "example_path": []string{"reconcile:pkg:p", "user:set-image:v2", "reconcile:pkg:p"}})
	}
	return rep
}

func replayTwin(v report.Violation) string {
	var sc twinScenario
	if err := checks.Decode(v.Params["scenario"], &sc); err != nil {
		return err.Error()
	}
	return osw.ReplayBFS(twinSystem(sc), v)
}
