// Package c17 checks property C17 (probing is a pure conjunction over selected, up-to-date
// status) by bounded-exhaustive enumeration of probe lists and objects against a reference
// evaluator transcribed from the statement (DESIGN.md Appendix A.4).
package c17

import (
	"context"
	"encoding/json"
	"fmt"
	"reflect"
	"strings"

	metav1 "k8s.io/apimachinery/pkg/apis/meta/v1"
	"k8s.io/apimachinery/pkg/apis/meta/v1/unstructured"
	"k8s.io/apimachinery/pkg/runtime"

	corev1alpha1 "package-operator.run/apis/core/v1alpha1"
	"package-operator.run/internal/packages/zzverif/checks"
	"package-operator.run/internal/packages/zzverif/report"
	internalprobing "package-operator.run/internal/probing"
)

const group = "verif.example"

// ---- probe alphabet ----

type probeSpec struct {
	Name string
	P    corev1alpha1.Probe
}

var probeAlphabet = []probeSpec{
	{"cond(Ready,True)", corev1alpha1.Probe{Condition: &corev1alpha1.ProbeConditionSpec{Type: "Ready", Status: "True"}}},
	{"cond(Ready,False)", corev1alpha1.Probe{Condition: &corev1alpha1.ProbeConditionSpec{Type: "Ready", Status: "False"}}},
	{"eq(.spec.a,.status.b)", corev1alpha1.Probe{FieldsEqual: &corev1alpha1.ProbeFieldsEqualSpec{FieldA: ".spec.a", FieldB: ".status.b"}}},
	{"eq(.spec.a,.status.missing)", corev1alpha1.Probe{FieldsEqual: &corev1alpha1.ProbeFieldsEqualSpec{FieldA: ".spec.a", FieldB: ".status.missing"}}},
	{"eq(.status.missing1,.status.missing2)", corev1alpha1.Probe{FieldsEqual: &corev1alpha1.ProbeFieldsEqualSpec{FieldA: ".status.missing1", FieldB: ".status.missing2"}}},
	{"cel(true)", corev1alpha1.Probe{CEL: &corev1alpha1.ProbeCELSpec{Rule: "true", Message: "m"}}},
	{"cel(false)", corev1alpha1.Probe{CEL: &corev1alpha1.ProbeCELSpec{Rule: "false", Message: "m"}}},
	{"cel(error)", corev1alpha1.Probe{CEL: &corev1alpha1.ProbeCELSpec{Rule: "self.nope.x == 1", Message: "m"}}},
	{"cel(false,no message)", corev1alpha1.Probe{CEL: &corev1alpha1.ProbeCELSpec{Rule: "false", Message: ""}}},
	{"empty", corev1alpha1.Probe{}},
}

type selSpec struct {
	Name string
	S    corev1alpha1.ProbeSelector
	// selects(kindMatches, labelMatches)
	Kind  string // "", "match", "mismatch"
	Label string // "", "match", "mismatch"
}

func kindSel(k string) *corev1alpha1.PackageProbeKindSpec {
	return &corev1alpha1.PackageProbeKindSpec{Group: group, Kind: k}
}

func labelSel(v string) *metav1.LabelSelector {
	return &metav1.LabelSelector{MatchLabels: map[string]string{"app": v}}
}

var selAlphabet = []selSpec{
	{"kind=Widget", corev1alpha1.ProbeSelector{Kind: kindSel("Widget")}, "match", ""},
	{"kind=Gadget", corev1alpha1.ProbeSelector{Kind: kindSel("Gadget")}, "mismatch", ""},
	{"kind=Widget,app=x", corev1alpha1.ProbeSelector{Kind: kindSel("Widget"), Selector: labelSel("x")}, "match", "x"},
	{"kind=Gadget,app=x", corev1alpha1.ProbeSelector{Kind: kindSel("Gadget"), Selector: labelSel("x")}, "mismatch", "x"},
	{"app=x", corev1alpha1.ProbeSelector{Selector: labelSel("x")}, "", "x"},
	{"all", corev1alpha1.ProbeSelector{}, "", ""},
	// selectors made of negative requirements only: they match objects without any labels
	{"kind=Widget,!tier", corev1alpha1.ProbeSelector{Kind: kindSel("Widget"), Selector: &metav1.LabelSelector{MatchExpressions: []metav1.LabelSelectorRequirement{{Key: "tier", Operator: metav1.LabelSelectorOpDoesNotExist}}}}, "match", "!tier"},
	{"app notin (y)", corev1alpha1.ProbeSelector{Selector: &metav1.LabelSelector{MatchExpressions: []metav1.LabelSelectorRequirement{{Key: "app", Operator: metav1.LabelSelectorOpNotIn, Values: []string{"y"}}}}}, "", "notin-y"},
	// the same kind name in another API group (here: the core group) is another kind
	{"kind=core/Widget", corev1alpha1.ProbeSelector{Kind: &corev1alpha1.PackageProbeKindSpec{Group: "", Kind: "Widget"}}, "mismatch", ""},
}

// ---- object alphabet ----

type objSpec struct {
	Desc string
	Obj  *unstructured.Unstructured
}

func objects() []objSpec {
	var out []objSpec
	type lbl struct {
		name string
		l    map[string]any
	}
	labelSets := []lbl{{"app=x", map[string]any{"app": "x"}}, {"app=y,tier=db", map[string]any{"app": "y", "tier": "db"}}, {"app=x,tier=db", map[string]any{"app": "x", "tier": "db"}}, {"nolabels", nil}}
	for _, gen := range []int64{1, 2} {
		other := 3 - gen // gen=1: a newer value, gen=2: an older value
		obsGens := []struct {
			n string
			v any
		}{{"absent", nil}, {"=gen", gen}, {"!=gen", other}, {"zero", int64(0)}, {"string", "1"}, {"float", 1.5}}
		conds := []struct {
			n string
			v any
		}{
			{"absent", nil}, {"scalar", "x"}, {"[]", []any{}}, {"[scalar]", []any{"x"}},
			{"[Ready=True]", []any{map[string]any{"type": "Ready", "status": "True"}}},
			{"[Ready=False]", []any{map[string]any{"type": "Ready", "status": "False"}}},
			{"[Ready=True@stale]", []any{map[string]any{"type": "Ready", "status": "True", "observedGeneration": other}}},
			{"[Ready=True@gen]", []any{map[string]any{"type": "Ready", "status": "True", "observedGeneration": gen}}},
			{"[Ready=True@0]", []any{map[string]any{"type": "Ready", "status": "True", "observedGeneration": int64(0)}}},
			{"[Other=True,Ready=True]", []any{map[string]any{"type": "Other", "status": "True"}, map[string]any{"type": "Ready", "status": "True"}}},
			{"[Ready=False,Ready=True]", []any{map[string]any{"type": "Ready", "status": "False"}, map[string]any{"type": "Ready", "status": "True"}}},
			{"[Ready=True@'x']", []any{map[string]any{"type": "Ready", "status": "True", "observedGeneration": "x"}}},
			{"[type=5]", []any{map[string]any{"type": int64(5), "status": "True"}}},
			{"[scalar,Ready=True]", []any{"x", map[string]any{"type": "Ready", "status": "True"}}},
			{"[Ready=True(no status)]", []any{map[string]any{"type": "Ready"}}},
		}
		bs := []struct {
			n string
			v any
		}{{"absent", nil}, {"=a", int64(1)}, {"!=a", int64(2)}}
		mk := func(desc string, status any, l lbl) {
			u := &unstructured.Unstructured{Object: map[string]any{
				"apiVersion": group + "/v1", "kind": "Widget",
				"metadata": map[string]any{"name": "w", "namespace": "ns", "generation": gen},
				"spec":     map[string]any{"a": int64(1)},
			}}
			if l.l != nil {
				u.Object["metadata"].(map[string]any)["labels"] = runtime.DeepCopyJSONValue(l.l)
			}
			if status != nil {
				u.Object["status"] = status
			}
			out = append(out, objSpec{fmt.Sprintf("gen=%d %s status{%s}", gen, l.name, desc), u})
		}
		for _, l := range labelSets {
			mk("absent", nil, l)
			mk("{}", map[string]any{}, l)
			mk("scalar", "x", l)
			for _, og := range obsGens {
				for _, c := range conds {
					for _, b := range bs {
						st := map[string]any{}
						if og.v != nil {
							st["observedGeneration"] = og.v
						}
						if c.v != nil {
							st["conditions"] = runtime.DeepCopyJSONValue(c.v)
						}
						if b.v != nil {
							st["b"] = b.v
						}
						mk(fmt.Sprintf("obsGen %s, conditions %s, b %s", og.n, c.n, b.n), st, l)
					}
				}
			}
		}
	}
	return out
}

// ---- reference evaluator (DESIGN.md Appendix A.4) ----

// tri: 0 false, 1 true, 2 undecided
type tri int

func isInt(v any) (int64, bool) {
	switch t := v.(type) {
	case int64:
		return t, true
	case int:
		return int64(t), true
	}
	return 0, false
}

func statusMap(o *unstructured.Unstructured) (map[string]any, bool) {
	m, ok := o.Object["status"].(map[string]any)
	return m, ok
}

// fresh: status.observedGeneration absent, or an integer equal to metadata.generation.
func fresh(o *unstructured.Unstructured) tri {
	st, ok := statusMap(o)
	if !ok {
		return 1
	}
	v, ok := st["observedGeneration"]
	if !ok {
		return 1
	}
	i, isint := isInt(v)
	if !isint {
		return 2
	}
	if i == o.GetGeneration() {
		return 1
	}
	return 0
}

func refProbe(name string, o *unstructured.Unstructured) tri {
	st, hasStatus := statusMap(o)
	switch name {
	case "cond(Ready,True)", "cond(Ready,False)":
		want := "True"
		if strings.Contains(name, "False") {
			want = "False"
		}
		if !hasStatus {
			return 0
		}
		l, ok := st["conditions"].([]any)
		if !ok {
			return 0
		}
		sawJunk := false
		for _, e := range l {
			m, ok := e.(map[string]any)
			if !ok {
				sawJunk = true
				continue
			}
			if m["type"] != "Ready" {
				continue
			}
			res := tri(0)
			if og, ok := m["observedGeneration"]; ok {
				i, isint := isInt(og)
				if isint && i != o.GetGeneration() {
					return 0
				}
				if !isint {
					// declared but not an integer: undecided unless the status is wrong anyway
					if m["status"] == want {
						return 2
					}
					return 0
				}
			}
			if m["status"] == want {
				res = 1
			}
			if sawJunk && res == 1 {
				return 2 // a malformed entry precedes the match: statement silent
			}
			return res
		}
		return 0
	case "eq(.spec.a,.status.b)":
		if !hasStatus {
			return 0
		}
		b, ok := st["b"]
		if !ok {
			return 0
		}
		if reflect.DeepEqual(b, o.Object["spec"].(map[string]any)["a"]) {
			return 1
		}
		return 0
	case "eq(.spec.a,.status.missing)", "eq(.status.missing1,.status.missing2)":
		return 0 // fieldsEqual fails on missing fields - also when both are missing
	case "cel(true)":
		return 1
	case "cel(false)", "cel(error)", "cel(false,no message)":
		return 0
	}
	panic("unknown probe " + name)
}

func selected(s selSpec, o *unstructured.Unstructured) bool {
	if s.Kind == "mismatch" {
		return false
	}
	l := o.GetLabels()
	switch s.Label {
	case "":
	case "!tier":
		if _, has := l["tier"]; has {
			return false
		}
	case "notin-y":
		if l["app"] == "y" {
			return false
		}
	default:
		if l["app"] != s.Label {
			return false
		}
	}
	return true
}

type osProbe struct {
	Sel    int
	Probes []int
}

// refEval returns expected success (tri) and, when decided, the expected number of messages.
func refEval(list []osProbe, o *unstructured.Unstructured) (tri, int) {
	res := tri(1)
	msgs := 0
	undecided := false
	for _, p := range list {
		if !selected(selAlphabet[p.Sel], o) {
			continue
		}
		switch fresh(o) {
		case 0:
			res = 0
			msgs++
			continue
		case 2:
			undecided = true
		}
		for _, qi := range p.Probes {
			q := probeAlphabet[qi]
			if q.Name == "empty" {
				continue
			}
			switch refProbe(q.Name, o) {
			case 0:
				res = 0
				msgs++
			case 2:
				undecided = true
			}
		}
	}
	if undecided {
		if res == 0 {
			return 0, -1 // fails regardless; message count undecided
		}
		return 2, -1
	}
	return res, msgs
}

func (p osProbe) api() corev1alpha1.ObjectSetProbe {
	out := corev1alpha1.ObjectSetProbe{Selector: selAlphabet[p.Sel].S, Probes: []corev1alpha1.Probe{}}
	for _, qi := range p.Probes {
		out.Probes = append(out.Probes, probeAlphabet[qi].P)
	}
	return out
}

func (p osProbe) String() string {
	var n []string
	for _, qi := range p.Probes {
		n = append(n, probeAlphabet[qi].Name)
	}
	return selAlphabet[p.Sel].Name + ":[" + strings.Join(n, ",") + "]"
}

func allOSProbes(maxProbes int) []osProbe {
	var out []osProbe
	for s := range selAlphabet {
		out = append(out, osProbe{Sel: s})
		for a := range probeAlphabet {
			out = append(out, osProbe{Sel: s, Probes: []int{a}})
			if maxProbes >= 2 {
				for b := range probeAlphabet {
					out = append(out, osProbe{Sel: s, Probes: []int{a, b}})
				}
			}
		}
	}
	return out
}

func run(o checks.Opts) *report.Report {
	rep := report.New("C17", "enumeration")
	first := allOSProbes(2)
	second := allOSProbes(1)
	if o.Quick() {
		// second element: one probe, three selectors
		var s2 []osProbe
		for _, p := range second {
			if p.Sel == 0 || p.Sel == 2 || p.Sel == 5 {
				s2 = append(s2, p)
			}
		}
		second = s2
	}
	objs := objects()
	rep.Bounds["objects"] = len(objs)
	rep.Bounds["first_probe_variants"] = len(first)
	rep.Bounds["second_probe_variants"] = len(second)
	rep.Rule = "probe lists: [] , [p] and [p,q] with p from 9 selectors (kind, the same kind name in the core group, label equality, none, negative-only requirements) x (<=2 probes from 10 kinds incl. a failing CEL rule with an empty message and fieldsEqual over two absent fields), q from selectors x (<=1 probe); objects: generation x labels x status shape (absent, {}, scalar, observedGeneration absent/=/!=/0/string/float x 15 conditions shapes x fieldsEqual operand absent/equal/different); every list is parsed by the real internal/probing.Parse and probed on every object; distinct = (success, #messages, undecided)"
	var lists [][]osProbe
	lists = append(lists, nil)
	for _, p := range first {
		lists = append(lists, []osProbe{p})
	}
	for _, p := range first {
		for _, q := range second {
			lists = append(lists, []osProbe{p, q})
		}
	}
	rep.Bounds["probe_lists"] = len(lists)
	ctx := context.Background()
	for li, list := range lists {
		if o.Shards > 1 && li%o.Shards != o.Shard {
			continue
		}
		var api []corev1alpha1.ObjectSetProbe
		for _, p := range list {
			api = append(api, p.api())
		}
		prober, err := internalprobing.Parse(ctx, api)
		if err != nil {
			rep.AddViolation(report.Violation{Identity: "parse-error", Message: fmt.Sprintf("Parse failed on a valid probe list %v: %v", list, err)})
			continue
		}
		for _, os := range objs {
			before := os.Obj.DeepCopy()
			ok, msgs := prober.Probe(os.Obj)
			rep.Executions++
			want, wantMsgs := refEval(list, os.Obj)
			rep.Outcomes[fmt.Sprintf("success=%v msgs=%d ref=%d", ok, len(msgs), want)]++
			bad := func(id, f string, a ...any) {
				rep.AddViolation(report.Violation{Identity: id, Message: fmt.Sprintf(f, a...) + fmt.Sprintf("\nprobes: %v\nobject: %s", list, os.Desc),
					Params: map[string]any{"list": list, "object": os.Desc}})
			}
			if !reflect.DeepEqual(before.Object, os.Obj.Object) {
				bad("object-mutated", "probing changed the object")
				os.Obj.Object = before.Object
			}
			if ok != (len(msgs) == 0) {
				bad("messages-inconsistent", "success=%v but %d messages", ok, len(msgs))
			}
			switch want {
			case 0:
				if ok {
					bad("passes-but-must-fail", "object passes but the reference evaluator says it must fail")
				} else if wantMsgs >= 0 && len(msgs) != wantMsgs {
					bad("not-all-failing-probes-reported", "%d failure messages, reference expects %d (all failing probes are reported): %v", len(msgs), wantMsgs, msgs)
				}
			case 1:
				if !ok {
					bad("fails-but-must-pass", "object fails (%v) but the reference evaluator says it must pass", msgs)
				}
			}
		}
	}
	rep.ImplTraces = rep.Executions
	rep.States = rep.Executions
	rep.Transitions = rep.Executions
	if o.Shard == 0 {
		rep.Samples = append(rep.Samples,
			map[string]any{"probes": "kind=Widget:[cond(Ready,True),eq(.spec.a,.status.b)] ; all:[cel(false)]", "object": objs[100].Desc},
			map[string]any{"probes": lists[len(lists)/2], "object": objs[len(objs)/3].Desc})
	}
	return rep
}

// non-boolean CEL rules must be refused at parse time.
func runCEL(o checks.Opts) *report.Report {
	rep := report.New("C17", "cel-boolean")
	rep.Rule = "CEL rules of every non-boolean result type must be rejected by Parse; boolean ones accepted - on the first parse and on every later parse of the same rule in the same process (three rounds in different orders)"
	cases := []struct {
		rule string
		ok   bool
	}{
		{"true", true}, {"self.metadata.name == 'w'", true}, {"has(self.status)", true}, {"1 < 2", true},
		{"1", false}, {"'x'", false}, {"self.spec", false}, {"self.metadata.name", false}, {"[true]", false}, {"{'a': true}", false}, {"1.5", false}, {"null", false},
		{"self.spec.a", false}, {"size(self.metadata.name)", false}, {"", false}, {"true &&", false},
	}
	// the same rule is parsed again on every reconcile (and on the retry after a rejected one):
	// three rounds over the cases in one process - forward, backward, forward - and every
	// repetition must give the verdict of the first; an accepted rule is then evaluated
	rep.Bounds["rounds"] = 3
	for round := 0; round < 3; round++ {
		for i := range cases {
			c := cases[i]
			if round == 1 {
				c = cases[len(cases)-1-i]
			}
			prober, err := internalprobing.Parse(context.Background(), []corev1alpha1.ObjectSetProbe{{Probes: []corev1alpha1.Probe{{CEL: &corev1alpha1.ProbeCELSpec{Rule: c.rule, Message: "m"}}}}})
			rep.Executions++
			rep.Outcomes[fmt.Sprintf("accepted=%v", err == nil)]++
			if (err == nil) != c.ok {
				rep.AddViolation(report.Violation{Identity: "cel-non-boolean", Message: fmt.Sprintf("CEL rule %q, parse round %d: accepted=%v, want %v (err=%v)", c.rule, round+1, err == nil, c.ok, err), Params: map[string]any{"rule": c.rule}})
			}
			if err == nil {
				func() {
					defer func() {
						if r := recover(); r != nil {
							rep.AddViolation(report.Violation{Identity: "cel-probe-panics", Message: fmt.Sprintf("probing with the accepted CEL rule %q panics: %v", c.rule, r), Params: map[string]any{"rule": c.rule}})
						}
					}()
					w := &unstructured.Unstructured{Object: map[string]any{"apiVersion": "verif.example/v1", "kind": "Widget", "metadata": map[string]any{"name": "w"}, "spec": map[string]any{"a": "s"}, "status": map[string]any{"phase": "Pending"}}}
					prober.Probe(w)
				}()
			}
		}
	}
	rep.ImplTraces, rep.States, rep.Transitions = rep.Executions, rep.Executions, rep.Executions
	rep.Samples = append(rep.Samples, "self.spec", "1 < 2")
	return rep
}

func replay(v report.Violation) string {
	b, _ := json.Marshal(v.Params["list"])
	var list []osProbe
	_ = json.Unmarshal(b, &list)
	desc, _ := v.Params["object"].(string)
	var api []corev1alpha1.ObjectSetProbe
	for _, p := range list {
		api = append(api, p.api())
	}
	prober, err := internalprobing.Parse(context.Background(), api)
	if err != nil {
		return "parse: " + err.Error()
	}
	for _, os := range objects() {
		if os.Desc == desc {
			ok, msgs := prober.Probe(os.Obj)
			want, wm := refEval(list, os.Obj)
			fmt.Printf("probe: success=%v msgs=%v; reference: %d msgs=%d\n", ok, msgs, want, wm)
			if (want == 0 && ok) || (want == 1 && !ok) || (want == 0 && wm >= 0 && wm != len(msgs)) {
				return "reproduced: real prober and reference evaluator disagree"
			}
			return ""
		}
	}
	return "object not found"
}

func init() {
	checks.Register(&checks.Check{
		ID:    "C17",
		Level: "exploration",
		Assumptions: []string{
			"observedGeneration values that are not integers and malformed condition entries preceding a match are undecided (statement silent): either outcome accepted",
		},
		Subs: []*checks.Sub{
			{Name: "enumeration", Shards: func(string) int { return 16 }, Run: run, Replay: replay},
			{Name: "cel-boolean", Run: runCEL},
		},
	})
}
