// Package c18 checks property C18 (ObjectTemplates track their sources and stay within bounds)
// by explicit-state search over source creation / edit / deletion, template edits, deletion of
// the template and operator restarts, with the real ObjectTemplate controller.
package c18

import (
	"context"
	"fmt"
	"reflect"
	"strings"

	metav1 "k8s.io/apimachinery/pkg/apis/meta/v1"
	"k8s.io/apimachinery/pkg/apis/meta/v1/unstructured"
	"k8s.io/client-go/util/workqueue"
	"sigs.k8s.io/controller-runtime/pkg/event"
	"sigs.k8s.io/controller-runtime/pkg/reconcile"

	corev1alpha1 "package-operator.run/apis/core/v1alpha1"
	"package-operator.run/internal/dynamiccache"
	"package-operator.run/internal/packages/zzverif/checks"
	"package-operator.run/internal/packages/zzverif/kmodel"
	"package-operator.run/internal/packages/zzverif/osw"
	"package-operator.run/internal/packages/zzverif/report"
	"package-operator.run/internal/packages/zzverif/world"
)

const invalidCond = "package-operator.run/Invalid"

// template alphabet
var templates = map[string]string{
	"ok":            "apiVersion: verif.example/v1\nkind: Widget\nmetadata:\n  name: out\n  labels:\n    tier: \"t{{ .config.v }}\"\n  annotations:\n    note: \"n{{ .config.v }}\"\nspec:\n  x: \"{{ .config.v }}\"\n  second: \"{{ get .config \"w\" | default \"none\" }}\"\n{{ if eq (toString .config.v) \"2\" }}  extra: present\n  list: [a, b]\n{{ else }}  list: [a]\n{{ end }}",
	"okns":          "apiVersion: verif.example/v1\nkind: Widget\nmetadata:\n  name: out\n  namespace: ns\n  labels:\n    tier: \"t{{ .config.v }}\"\n  annotations:\n    note: \"n{{ .config.v }}\"\nspec:\n  x: \"{{ .config.v }}\"\n  second: \"{{ get .config \"w\" | default \"none\" }}\"\n{{ if eq (toString .config.v) \"2\" }}  extra: present\n  list: [a, b]\n{{ else }}  list: [a]\n{{ end }}",
	"needsw":        "apiVersion: verif.example/v1\nkind: Widget\nmetadata:\n  name: out\nspec:\n  x: \"{{ .config.v }}\"\n  second: \"{{ if not (hasKey .config \"w\") }}{{ fail \"the optional value is needed\" }}{{ end }}{{ .config.w }}\"\n  list: [a]\n",
	"missingkey":    "apiVersion: verif.example/v1\nkind: Widget\nmetadata:\n  name: out\nspec:\n  x: \"{{ .config.nope.deeper }}\"\n",
	"noparse":       "apiVersion: verif.example/v1\nkind: Widget\nmetadata:\n  name: out\nspec:\n  x: \"{{ .config.v \n",
	"foreignns":     "apiVersion: verif.example/v1\nkind: Widget\nmetadata:\n  name: out\n  namespace: other\nspec:\n  x: \"{{ .config.v }}\"\n",
	"clusterkindns": "apiVersion: verif.example/v1\nkind: ClusterWidget\nmetadata:\n  name: out\n  namespace: ns\nspec:\n  x: \"{{ .config.v }}\"\n",
	"clusterkind":   "apiVersion: verif.example/v1\nkind: ClusterWidget\nmetadata:\n  name: out\nspec:\n  x: \"{{ .config.v }}\"\n",
}

type scenario struct {
	Cluster   bool     `json:"clusterTemplate"`
	Templates []string `json:"templates"`
	Sources   string   `json:"sources"` // normal | foreign-ns | cluster-kind
	Edits     int      `json:"edits"`
	Restarts  int      `json:"restarts"`
	Faults    int      `json:"faults"`
	Conflicts int      `json:"conflicts"`
	// OptionalFirst: the optional source is listed before the required one
	OptionalFirst bool `json:"optionalFirst"`
	// LongLived: all passes of a history run in one operator process (states rebuilt by path
	// replay), and a deleted template may be re-created under the same name with another text
	LongLived bool `json:"longLived"`
	// Nested: both sources write below one shared top-level key of the template context
	// (destinations .cfg.v and .cfg.w), the templates read .config.cfg.*
	Nested bool `json:"nestedDestinations"`
	// PresetLabel: sources are created by their owner with the dynamic-cache label already set, to
	// this value (anything but "True" keeps the object out of the label-filtered informers)
	PresetLabel string `json:"presetCacheLabel,omitempty"`
}

// text is the template text of the alphabet entry name for this scenario.
func (sc scenario) text(name string) string {
	t := templates[name]
	if sc.Nested {
		t = strings.NewReplacer(".config.v", ".config.cfg.v", ".config.w", ".config.cfg.w", `get .config "w"`, `get .config.cfg "w"`, `hasKey .config "w"`, `hasKey .config.cfg "w"`, ".config.nope", ".config.cfg.nope").Replace(t)
	}
	return t
}

func (sc scenario) name() string {
	return fmt.Sprintf("template cluster=%v templates=%v sources=%s edits=%d restarts=%d faults=%d conflicts=%d optionalFirst=%v longLived=%v nested=%v presetLabel=%q", sc.Cluster, sc.Templates, sc.Sources, sc.Edits, sc.Restarts, sc.Faults, sc.Conflicts, sc.OptionalFirst, sc.LongLived, sc.Nested, sc.PresetLabel)
}

func (sc scenario) tKey() kmodel.Key {
	if sc.Cluster {
		return world.PKOKey("ClusterObjectTemplate", "", "t")
	}
	return world.PKOKey("ObjectTemplate", world.NS, "t")
}

func (sc scenario) ctrl() string {
	if sc.Cluster {
		return world.CtrlClusterObjectTemplate
	}
	return world.CtrlObjectTemplate
}

func (sc scenario) sources() []corev1alpha1.ObjectTemplateSource {
	s1 := corev1alpha1.ObjectTemplateSource{APIVersion: "verif.example/v1", Kind: "Gadget", Name: "s1", Items: []corev1alpha1.ObjectTemplateSourceItem{{Key: ".data.x", Destination: ".v"}}}
	s2 := corev1alpha1.ObjectTemplateSource{APIVersion: "verif.example/v1", Kind: "Gizmo", Name: "s2", Optional: true, Items: []corev1alpha1.ObjectTemplateSourceItem{{Key: ".data.y", Destination: ".w"}}}
	if sc.Nested {
		s1.Items[0].Destination, s2.Items[0].Destination = ".cfg.v", ".cfg.w"
	}
	switch sc.Sources {
	case "foreign-ns":
		s1.Namespace = "other"
	case "cluster-kind":
		s1.Kind = "ClusterWidget"
	case "cluster-kind-in-ns":
		s1.Kind = "ClusterWidget"
		s1.Namespace = world.NS
	}
	if sc.Cluster {
		if s1.Namespace == "" && s1.Kind != "ClusterWidget" {
			s1.Namespace = world.NS
		}
		s2.Namespace = world.NS
	}
	if sc.OptionalFirst {
		return []corev1alpha1.ObjectTemplateSource{s2, s1}
	}
	return []corev1alpha1.ObjectTemplateSource{s1, s2}
}

func (sc scenario) s1Key() kmodel.Key {
	switch sc.Sources {
	case "foreign-ns":
		return world.KeyOf("Gadget", "other", "s1")
	case "cluster-kind", "cluster-kind-in-ns":
		return world.KeyOf("ClusterWidget", "", "s1")
	}
	return world.KeyOf("Gadget", world.NS, "s1")
}

var s2Key = world.KeyOf("Gizmo", world.NS, "s2")
var outKey = world.KeyOf("Widget", world.NS, "out")

func (sc scenario) currentTemplate(c map[string]any) string {
	v, _ := world.Nested(c, "spec", "template")
	s, _ := v.(string)
	for n := range templates {
		if sc.text(n) == s {
			return n
		}
	}
	return "?"
}

// fakeQueue records Add calls of the enqueue handler.
type fakeQueue struct {
	workqueue.TypedRateLimitingInterface[reconcile.Request]
	added []reconcile.Request
}

func (q *fakeQueue) Add(r reconcile.Request) { q.added = append(q.added, r) }

func check(sc scenario) func(before *world.World, ev world.Event, pass *world.Pass, after *world.World) []world.Finding {
	return func(before *world.World, ev world.Event, pass *world.Pass, after *world.World) []world.Finding {
		if pass == nil || pass.Ctrl != sc.ctrl() {
			return nil
		}
		var out []world.Finding
		bad := func(id, f string, a ...any) {
			out = append(out, world.Finding{Monitor: "object-template", Identity: id, Message: fmt.Sprintf(f, a...)})
		}
		tk := sc.tKey()
		t := before.S.Objs[tk]
		if t == nil {
			return nil
		}
		// namespace bound: every effective write of a namespaced template stays in its namespace
		if !sc.Cluster {
			for i, r := range pass.Reqs {
				if !r.IsWrite() || r.Key == tk {
					continue
				}
				info := before.S.Kinds[r.Key.GK()]
				if !info.Namespaced || r.Key.Namespace != world.NS {
					bad("template-writes-out-of-namespace "+r.Key.Kind, "request #%d %s by a namespaced ObjectTemplate targets a cluster-scoped object or another namespace", i, r)
				}
			}
		}
		if kmodel.Terminating(t.Content) {
			// deleting the ObjectTemplate releases its watches
			if pass.Err == nil && !pass.Crashed {
				uid := kmodel.UID(t.Content)
				for gvk, owners := range after.Refs {
					for _, o := range owners {
						if string(o.UID) == uid {
							bad("watch-not-released", "the ObjectTemplate is deleted but the dynamic cache still lists it as watcher of %s", gvk.Kind)
						}
					}
				}
			}
			return out
		}
		if pass.Crashed || pass.Panic != "" {
			return out
		}
		tmpl := sc.currentTemplate(t.Content)
		s1 := before.S.Objs[sc.s1Key()]
		s2 := before.S.Objs[s2Key]
		invalidWhy := ""
		switch {
		case sc.Sources == "foreign-ns" && !sc.Cluster:
			invalidWhy = "source outside the template's namespace"
		case (sc.Sources == "cluster-kind" || sc.Sources == "cluster-kind-in-ns") && !sc.Cluster:
			invalidWhy = "cluster-scoped source for a namespaced template"
		case s1 == nil:
			invalidWhy = "required source missing"
		case tmpl == "noparse":
			invalidWhy = "unparsable template"
		case tmpl == "foreignns" && !sc.Cluster:
			invalidWhy = "target outside the template's namespace"
		case (tmpl == "clusterkind" || tmpl == "clusterkindns") && !sc.Cluster:
			invalidWhy = "cluster-scoped target for a namespaced template"
		}
		var targetWrites []*kmodel.Request
		for _, r := range pass.Reqs {
			if r.IsWrite() && r.Err == nil && r.Key.Group == world.TestGroup && r.Key.Name == "out" {
				targetWrites = append(targetWrites, r)
			}
		}
		post := after.S.Objs[tk]
		if invalidWhy != "" {
			for _, r := range targetWrites {
				bad("invalid-template-wrote-target", "%s, but the pass sent %s", invalidWhy, r)
			}
			if pass.Err == nil && post != nil {
				if st, _, _, ok := world.Condition(post.Content, invalidCond); !ok || st != "True" {
					bad("invalid-not-reported", "%s, but the persisted Invalid condition is %q (present=%v)", invalidWhy, st, ok)
				}
			}
			return out
		}
		if tmpl == "needsw" && s2 == nil {
			// the template cannot render without the optional source - "missing optional sources
			// are retried" still holds: the pass has to ask for a retry
			if pass.Result.RequeueAfter <= 0 && pass.Err == nil {
				bad("optional-source-not-retried", "the optional source is missing (and the template cannot render without it) but the pass neither fails nor asks to be retried")
			}
			return out
		}
		if tmpl == "missingkey" || (sc.Cluster && (tmpl == "foreignns" || tmpl == "clusterkind" || tmpl == "clusterkindns")) {
			return out // rendering error / cluster template variants: statement silent, not judged
		}
		disturbed := strings.HasPrefix(ev.Name, "fault:") || strings.HasPrefix(ev.Name, "conflict:")
		if pass.Err != nil && disturbed {
			return out // an injected fault may fail the pass; the next undisturbed pass is judged in full
		}
		if pass.Err != nil {
			// undisturbed pass: a failing pass on valid input means the target is not produced
			bad("valid-template-pass-failed", "valid template and sources but the pass failed: %v", pass.Err)
			return out
		}
		// valid: the target equals the template rendered with the current source values
		wantX, _ := world.Nested(s1.Content, "data", "x")
		wantY := any("none")
		if s2 != nil {
			if y, ok := world.Nested(s2.Content, "data", "y"); ok {
				wantY = y
			}
		}
		o := after.S.Objs[outKey]
		if o == nil {
			bad("target-missing", "valid template and sources but the target object does not exist after the pass")
		} else {
			// reference rendering of the ok/okns templates, written from the template text
			want := map[string]any{"x": fmt.Sprint(wantX), "second": fmt.Sprint(wantY), "list": []any{"a"}}
			if fmt.Sprint(wantY) == "" {
				want["second"] = "none" // sprig default replaces the empty string
			}
			if fmt.Sprint(wantX) == "2" {
				want["extra"] = "present"
				want["list"] = []any{"a", "b"}
			}
			if tmpl == "needsw" {
				want = map[string]any{"x": fmt.Sprint(wantX), "second": fmt.Sprint(wantY), "list": []any{"a"}}
			}
			got, _ := world.Nested(o.Content, "spec")
			if !reflect.DeepEqual(got, any(want)) {
				bad("target-stale", "target spec is %v but the template rendered with the current sources (x=%v y=%v) gives %v", got, wantX, wantY, want)
			}
			if tmpl != "needsw" {
				// ... its metadata too: the ok/okns templates render a label and an annotation from the source
				if l, a := kmodel.Labels(o.Content)["tier"], kmodel.Annotations(o.Content)["note"]; l != "t"+fmt.Sprint(wantX) || a != "n"+fmt.Sprint(wantX) {
					bad("target-metadata-stale", "target carries label tier=%q and annotation note=%q but the template rendered with the current sources (x=%v) gives %q and %q", l, a, wantX, "t"+fmt.Sprint(wantX), "n"+fmt.Sprint(wantX))
				}
			}
		}
		if s2 == nil && pass.Result.RequeueAfter <= 0 {
			bad("optional-source-not-retried", "the optional source is missing but the pass does not ask to be retried")
		}
		// a change of any source re-renders: the real enqueue handler, fed by the real cache's owner
		// sets, must enqueue the template for an event on each source
		cache := dynamiccache.NewCacheForVerif(world.Scheme, nil, after.Refs)
		var wt any = &corev1alpha1.ObjectTemplate{}
		if sc.Cluster {
			wt = &corev1alpha1.ClusterObjectTemplate{}
		}
		h := dynamiccache.NewEnqueueWatchingObjects(cache, wt.(interface {
			GetObjectKind() schemaObjectKind
			DeepCopyObject() runtimeObject
		}), world.Scheme)
		for _, sk := range []kmodel.Key{sc.s1Key(), s2Key} {
			u := &unstructured.Unstructured{}
			u.SetAPIVersion("verif.example/v1")
			u.SetKind(sk.Kind)
			u.SetName(sk.Name)
			u.SetNamespace(sk.Namespace)
			q := &fakeQueue{}
			h.Update(context.Background(), event.UpdateEvent{ObjectOld: u, ObjectNew: u}, q)
			found := false
			for _, r := range q.added {
				if r.Name == "t" && r.Namespace == tk.Namespace {
					found = true
				}
			}
			if !found {
				bad("source-change-not-enqueued", "an event on source %s would not enqueue the ObjectTemplate (dynamic cache owners for %s do not include it)", sk, sk.Kind)
			}
			// ... and there must be an event in the first place: the informers are filtered by the
			// dynamic-cache label, so a source the pass has used has to carry it with the exact value
			if so := after.S.Objs[sk]; so != nil && pass.Err == nil && !world.CacheVisible(so.Content) {
				bad("source-invisible-to-informers", "the pass used source %s but left it with labels %v: the label-filtered informer does not see it, so a later change of it produces no event and is never rendered", sk, kmodel.Labels(so.Content))
			}
		}
		return out
	}
}

func system(sc scenario) *world.System {
	return &world.System{
		Name:       sc.name(),
		Persistent: sc.LongLived,
		Init: func() *world.World {
			w := osw.NewWorld()
			if sc.LongLived {
				w.LongLived()
				w.Budget["recreate"] = 1
			}
			if sc.Cluster {
				w.MustCreate(&corev1alpha1.ClusterObjectTemplate{ObjectMeta: metav1.ObjectMeta{Name: "t"}, Spec: corev1alpha1.ObjectTemplateSpec{Template: sc.text(sc.Templates[0]), Sources: sc.sources()}})
			} else {
				w.MustCreate(&corev1alpha1.ObjectTemplate{ObjectMeta: metav1.ObjectMeta{Name: "t", Namespace: world.NS}, Spec: corev1alpha1.ObjectTemplateSpec{Template: sc.text(sc.Templates[0]), Sources: sc.sources()}})
			}
			w.Budget["edit"] = sc.Edits
			w.Budget["restart"] = sc.Restarts
			w.Budget["fault"] = sc.Faults
			w.Budget["conflict"] = sc.Conflicts
			w.Budget["delete"] = 1
			return w
		},
		Events: func(w *world.World) []world.Event {
			var evs []world.Event
			tk := sc.tKey()
			t := w.S.Objs[tk]
			if t != nil {
				nn := osw.NN("t")
				if sc.Cluster {
					nn.Namespace = ""
				}
				evs = append(evs, world.Event{Name: "reconcile:template:t", Apply: func(w *world.World) *world.Pass { return w.Reconcile(sc.ctrl(), nn, nil) }})
				if !sc.Cluster {
					evs = append(evs, osw.FaultEvents(w, sc.ctrl(), "t", []world.FaultKind{world.ErrBefore, world.LostResponse, world.Crash})...)
					evs = append(evs, osw.ConflictEvents(w, sc.ctrl(), "t")...)
				}
			}
			if w.Budget["edit"] > 0 {
				tp := func(name string, f func(w *world.World)) {
					evs = append(evs, world.Event{Name: name, Apply: func(w *world.World) *world.Pass {
						w.Budget["edit"]--
						f(w)
						return nil
					}})
				}
				for _, src := range []struct {
					k     kmodel.Key
					field string
				}{{sc.s1Key(), "x"}, {s2Key, "y"}} {
					src := src
					if o := w.S.Objs[src.k]; o == nil {
						tp("user:create-source:"+src.k.Name, func(w *world.World) {
							u := world.Obj(src.k.Kind, src.k.Namespace, src.k.Name, nil)
							u.Object["data"] = map[string]any{src.field: "1"}
							if sc.PresetLabel != "" {
								v := sc.PresetLabel
								if v == "<empty>" {
									v = ""
								}
								u.SetLabels(map[string]string{"package-operator.run/cache": v})
							}
							w.MustCreate(u)
						})
					} else {
						cur, _ := world.Nested(o.Content, "data", src.field)
						for _, next := range []string{"1", "2", ""} {
							if cur == next {
								continue
							}
							next := next
							tp("user:edit-source:"+src.k.Name+"="+next, func(w *world.World) {
								_ = w.Edit(src.k, func(c map[string]any) { c["data"].(map[string]any)[src.field] = next })
							})
						}
						tp("user:delete-source:"+src.k.Name, func(w *world.World) { _ = w.S.Delete(src.k, kmodel.DeleteOpts{}) })
					}
				}
				if t != nil && !kmodel.Terminating(t.Content) {
					cur := sc.currentTemplate(t.Content)
					for _, n := range sc.Templates {
						if n == cur {
							continue
						}
						n := n
						tp("user:set-template:"+n, func(w *world.World) {
							_ = w.Edit(tk, func(c map[string]any) { c["spec"].(map[string]any)["template"] = sc.text(n) })
						})
					}
				}
			}
			if t != nil && !kmodel.Terminating(t.Content) && w.Budget["delete"] > 0 && osw.HasFinalizer(t.Content, "package-operator.run/cached") {
				evs = append(evs, world.Event{Name: "user:delete-template", Apply: func(w *world.World) *world.Pass {
					w.Budget["delete"]--
					_ = w.S.Delete(tk, kmodel.DeleteOpts{})
					return nil
				}})
			}
			if t == nil && w.Budget["recreate"] > 0 && !sc.Cluster {
				for _, n := range sc.Templates {
					n := n
					evs = append(evs, world.Event{Name: "user:re-create-template:" + n, Apply: func(w *world.World) *world.Pass {
						w.Budget["recreate"]--
						w.MustCreate(&corev1alpha1.ObjectTemplate{ObjectMeta: metav1.ObjectMeta{Name: "t", Namespace: world.NS}, Spec: corev1alpha1.ObjectTemplateSpec{Template: sc.text(n), Sources: sc.sources()}})
						return nil
					}})
				}
			}
			if w.Budget["restart"] > 0 && len(w.Refs) > 0 {
				evs = append(evs, world.Event{Name: "operator:restart", Apply: func(w *world.World) *world.Pass {
					w.Budget["restart"]--
					w.Restart()
					return nil
				}})
			}
			evs = append(evs, osw.GCEvent(w)...)
			return evs
		},
		Check: check(sc),
	}
}

// ScopeSystems are the namespaced-template systems whose sources or targets leave the template's
// namespace or are cluster-scoped (used by C11 for its ObjectTemplate clause).
func ScopeSystems(quick bool) []*world.System {
	scs := []scenario{
		{Templates: []string{"ok", "foreignns", "clusterkind", "clusterkindns"}, Sources: "normal", Edits: 2},
		{Templates: []string{"ok"}, Sources: "cluster-kind-in-ns", Edits: 2},
		{Templates: []string{"ok"}, Sources: "foreign-ns", Edits: 2},
		{Templates: []string{"ok"}, Sources: "cluster-kind", Edits: 2},
	}
	if !quick {
		scs = append(scs, scenario{Templates: []string{"ok", "foreignns", "clusterkind"}, Sources: "cluster-kind", Edits: 3, Restarts: 1, Faults: 1})
	}
	var out []*world.System
	for _, sc := range scs {
		out = append(out, system(sc))
	}
	return out
}

func scenarios(quick bool) []scenario {
	out := []scenario{
		{Templates: []string{"ok", "noparse", "foreignns", "clusterkind", "clusterkindns", "missingkey"}, Sources: "normal", Edits: 3, Restarts: 1},
		{Templates: []string{"ok"}, Sources: "cluster-kind-in-ns", Edits: 2},
		{Templates: []string{"ok"}, Sources: "foreign-ns", Edits: 2},
		{Templates: []string{"ok"}, Sources: "cluster-kind", Edits: 2},
		{Cluster: true, Templates: []string{"okns", "noparse"}, Sources: "normal", Edits: 3},
		{Templates: []string{"ok"}, Sources: "normal", Edits: 2, Faults: 1, Conflicts: 1},
		{Templates: []string{"ok", "noparse"}, Sources: "normal", Edits: 3, Restarts: 1, OptionalFirst: true},
		{Templates: []string{"needsw", "ok"}, Sources: "normal", Edits: 3},
		{Cluster: true, Templates: []string{"okns"}, Sources: "normal", Edits: 2, OptionalFirst: true},
		{Templates: []string{"ok", "noparse"}, Sources: "normal", Edits: 3, LongLived: true},
		{Templates: []string{"ok", "needsw"}, Sources: "normal", Edits: 3, Nested: true},
		{Templates: []string{"ok"}, Sources: "normal", Edits: 3, Restarts: 1, PresetLabel: "true"},
		{Templates: []string{"ok"}, Sources: "normal", Edits: 3, PresetLabel: "<empty>"},
		{Cluster: true, Templates: []string{"okns"}, Sources: "normal", Edits: 2, PresetLabel: "False"},
		{Cluster: true, Templates: []string{"okns"}, Sources: "normal", Edits: 2, Nested: true, OptionalFirst: true},
	}
	if !quick {
		out = append(out,
			scenario{Templates: []string{"ok", "noparse", "foreignns", "clusterkind"}, Sources: "normal", Edits: 5, Restarts: 1},
			scenario{Cluster: true, Templates: []string{"okns", "clusterkind"}, Sources: "cluster-kind", Edits: 4, Restarts: 1},
			scenario{Templates: []string{"ok", "noparse"}, Sources: "normal", Edits: 3, Faults: 2, Conflicts: 1, Restarts: 1},
		)
	}
	return out
}

func run(o checks.Opts) *report.Report {
	rep := report.New("C18", "bfs")
	rep.Rule = "explicit-state BFS: ObjectTemplate t (and a ClusterObjectTemplate variant) with a required source s1 (.data.x) and an optional source s2 (.data.y) listed in either order (their values stored under separate top-level keys of the template context, or under one shared key), template text from {renders both values, cannot render without the optional value, missing key, does not parse, foreign namespace, cluster-scoped kind}; events = create / edit / delete each source, switch template, reconcile, delete the template, operator restart (dynamic cache lost), garbage collector, (one system) all passes in one long-lived operator process with the template deleted and re-created under the same name with another text, every fault kind at every API call of a template pass and a foreign write landing before each of its writes (budgeted), with an edit budget; source values 1 / 2 / empty, the template has a conditional key and a list that shrinks; source variants: in namespace, in another namespace, cluster-scoped kind; monitor on every ObjectTemplate pass incl. the real EnqueueWatchingObjects handler over the cache's owner sets"
	scs := scenarios(o.Quick())
	rep.Bounds["systems"] = len(scs)
	for i, sc := range scs {
		if o.Shards > 1 && i%o.Shards != o.Shard {
			continue
		}
		sys := system(sc)
		sys.MaxStates = 300000
		osw.RunBFS(rep, sys, map[string]any{"scenario": sc})
		rep.Samples = append(rep.Samples, map[string]any{"scenario": sc, "example_path": strings.Split("reconcile:template:t user:create-source:s1 reconcile:template:t user:edit-source:s1=2 reconcile:template:t", " ")})
	}
	return rep
}

func replay(v report.Violation) string {
	var sc scenario
	if err := checks.Decode(v.Params["scenario"], &sc); err != nil {
		return err.Error()
	}
	return osw.ReplayBFS(system(sc), v)
}

func init() {
	checks.Register(&checks.Check{
		ID:    "C18",
		Level: "model_checking",
		Assumptions: []string{
			"watch-event delivery is represented by 'any reconcile at any time' plus a direct test of the enqueue handler against the cache's owner sets after every pass",
			"a template that renders but references a missing config key is a rendering error; the statement is silent on how it is reported, so only 'no write' style clauses are judged there",
		},
		Subs: []*checks.Sub{{Name: "bfs", Shards: func(t string) int {
			if t == "thorough" {
				return 14
			}
			return 12
		}, Run: run, Replay: replay, Parallel: true},
			{Name: "environment", Shards: func(t string) int {
				if t == "thorough" {
					return 4
				}
				return 3
			}, Run: runEnv, Replay: replayEnv, Parallel: true}},
	})
}
