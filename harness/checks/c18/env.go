package c18

import (
	"fmt"
	"strings"

	metav1 "k8s.io/apimachinery/pkg/apis/meta/v1"
	"k8s.io/apimachinery/pkg/types"

	corev1alpha1 "package-operator.run/apis/core/v1alpha1"
	"package-operator.run/internal/apis/manifests"
	hypershiftv1beta1 "package-operator.run/internal/controllers/hostedclusters/hypershift/v1beta1"
	"package-operator.run/internal/packages/zzverif/checks"
	"package-operator.run/internal/packages/zzverif/kmodel"
	"package-operator.run/internal/packages/zzverif/osw"
	"package-operator.run/internal/packages/zzverif/report"
	"package-operator.run/internal/packages/zzverif/world"
)

// ---- "rendered with the current values of its ... environment" ----
//
// The environment of a namespaced ObjectTemplate has a part that depends on the template's
// namespace and on cluster state: alongside HyperShift, .environment.hyperShift.hostedCluster
// describes the HostedCluster whose hosted-control-plane namespace the template lives in.
// One long-lived operator process reconciles templates in two hosted-cluster namespaces and
// in an ordinary one while HostedClusters come and go; after every completed pass the target
// carries the value that holds for that template's namespace at that moment.

const envTemplate = `apiVersion: verif.example/v1
kind: Widget
metadata:
  name: out
spec:
  x: '{{ if hasKey .environment "hyperShift" }}{{ if .environment.hyperShift.hostedCluster }}{{ .environment.hyperShift.hostedCluster.metadata.name }}@{{ .environment.hyperShift.hostedCluster.hostedClusterNamespace }}{{ else }}none{{ end }}{{ else }}no-hypershift{{ end }}'
`

type envScenario struct {
	HyperShift bool     `json:"hyperShift"`
	Namespaces []string `json:"namespaces"` // one ObjectTemplate "t" in each
	Clusters   []string `json:"hostedClusters"`
	Toggles    int      `json:"toggles"` // budget of HostedCluster creations / deletions
	LongLived  bool     `json:"longLived"`
}

func (sc envScenario) name() string {
	return fmt.Sprintf("template-environment hyperShift=%v namespaces=%v hostedClusters=%v toggles=%d longLived=%v", sc.HyperShift, sc.Namespaces, sc.Clusters, sc.Toggles, sc.LongLived)
}

func hcKey(name string) kmodel.Key {
	return kmodel.Key{Group: "hypershift.openshift.io", Kind: "HostedCluster", Namespace: "clusters", Name: name}
}

// wantEnvValue is the reference: what the template must render to in namespace ns given the store.
func wantEnvValue(sc envScenario, s *kmodel.Store, ns string) string {
	if !sc.HyperShift {
		return "no-hypershift"
	}
	for _, k := range s.SortedKeys() {
		if k.Kind == "HostedCluster" && k.Namespace+"-"+strings.ReplaceAll(k.Name, ".", "-") == ns {
			return k.Name + "@" + ns
		}
	}
	return "none"
}

func envSystem(sc envScenario) *world.System {
	return &world.System{
		Name:       sc.name(),
		Persistent: sc.LongLived,
		Init: func() *world.World {
			w := osw.NewWorld()
			if sc.LongLived {
				w.LongLived()
			}
			env := manifests.PackageEnvironment{Kubernetes: manifests.PackageEnvironmentKubernetes{Version: "v1.27.0"}}
			if sc.HyperShift {
				env.HyperShift = &manifests.PackageEnvironmentHyperShift{}
			}
			w.Pkg = &world.PackageEnv{Env: env}
			for _, ns := range sc.Namespaces {
				w.MustCreate(&corev1alpha1.ObjectTemplate{ObjectMeta: metav1.ObjectMeta{Name: "t", Namespace: ns}, Spec: corev1alpha1.ObjectTemplateSpec{Template: envTemplate}})
			}
			w.Budget["toggle"] = sc.Toggles
			return w
		},
		Events: func(w *world.World) []world.Event {
			var evs []world.Event
			for _, ns := range sc.Namespaces {
				ns := ns
				evs = append(evs, world.Event{Name: "reconcile:template:" + ns + "/t", Apply: func(w *world.World) *world.Pass {
					return w.Reconcile(world.CtrlObjectTemplate, types.NamespacedName{Namespace: ns, Name: "t"}, nil)
				}})
			}
			if w.Budget["toggle"] > 0 {
				for _, n := range sc.Clusters {
					n := n
					if w.S.Objs[hcKey(n)] == nil {
						evs = append(evs, world.Event{Name: "hypershift:create-hostedcluster:" + n, Apply: func(w *world.World) *world.Pass {
							w.Budget["toggle"]--
							w.MustCreate(&hypershiftv1beta1.HostedCluster{ObjectMeta: metav1.ObjectMeta{Name: n, Namespace: "clusters"}})
							return nil
						}})
					} else {
						evs = append(evs, world.Event{Name: "hypershift:delete-hostedcluster:" + n, Apply: func(w *world.World) *world.Pass {
							w.Budget["toggle"]--
							_ = w.S.Delete(hcKey(n), kmodel.DeleteOpts{})
							return nil
						}})
					}
				}
			}
			return evs
		},
		Check: func(before *world.World, ev world.Event, pass *world.Pass, after *world.World) []world.Finding {
			if pass == nil || pass.Ctrl != world.CtrlObjectTemplate {
				return nil
			}
			var out []world.Finding
			bad := func(id, f string, a ...any) {
				out = append(out, world.Finding{Monitor: "template-environment", Identity: id, Message: fmt.Sprintf(f, a...)})
			}
			ns := pass.Key.Namespace
			if pass.Err != nil {
				bad("environment-template-pass-fails", "the pass of ObjectTemplate %s/t failed: %v", ns, pass.Err)
				return out
			}
			want := wantEnvValue(sc, before.S, ns)
			o := after.S.Objs[world.KeyOf("Widget", ns, "out")]
			if o == nil {
				st, _ := world.Nested(after.S.Objs[world.PKOKey("ObjectTemplate", ns, "t")].Content, "status", "conditions")
				bad("environment-target-missing", "ObjectTemplate %s/t completed a pass but its target does not exist (want spec.x=%q); conditions: %v", ns, want, st)
				return out
			}
			got, _ := world.Nested(o.Content, "spec", "x")
			if fmt.Sprint(got) != want {
				bad("rendered-with-stale-or-foreign-environment", "ObjectTemplate %s/t completed a pass; its target has spec.x=%q but the environment of namespace %s at that moment gives %q (HostedClusters: %v)", ns, got, ns, want, hostedClusters(before.S))
			}
			return out
		},
	}
}

func hostedClusters(s *kmodel.Store) []string {
	var out []string
	for _, k := range s.SortedKeys() {
		if k.Kind == "HostedCluster" {
			out = append(out, k.Namespace+"/"+k.Name)
		}
	}
	return out
}

func envScenarios(quick bool) []envScenario {
	out := []envScenario{
		{HyperShift: true, Namespaces: []string{"clusters-hc1", "clusters-hc2", world.NS}, Clusters: []string{"hc1", "hc2"}, Toggles: 3, LongLived: true},
		{HyperShift: true, Namespaces: []string{"clusters-hc1", world.NS}, Clusters: []string{"hc1"}, Toggles: 3},
		{HyperShift: false, Namespaces: []string{"clusters-hc1", world.NS}, Clusters: []string{"hc1"}, Toggles: 1, LongLived: true},
	}
	if !quick {
		out = append(out, envScenario{HyperShift: true, Namespaces: []string{"clusters-hc1", "clusters-hc2", "clusters-hc-3", world.NS}, Clusters: []string{"hc1", "hc2", "hc.3"}, Toggles: 4, LongLived: true})
	}
	return out
}

func runEnv(o checks.Opts) *report.Report {
	rep := report.New("C18", "environment")
	rep.Rule = "explicit-state BFS, all passes of a history in one long-lived operator process (and one system with a fresh process per pass): ObjectTemplates t in two or three HyperShift hosted-control-plane namespaces and in an ordinary namespace render .environment.hyperShift.hostedCluster; events = reconcile of each template in any order, HostedClusters being created and deleted (budgeted); after every completed pass the target equals the template rendered with the environment that holds for that template's namespace at that moment (HostedCluster of that namespace / none / no HyperShift)"
	scs := envScenarios(o.Quick())
	rep.Bounds["systems"] = len(scs)
	for i, sc := range scs {
		if o.Shards > 1 && i%o.Shards != o.Shard {
			continue
		}
		sys := envSystem(sc)
		sys.MaxStates = 100000
		osw.RunBFS(rep, sys, map[string]any{"scenario": sc})
		rep.Samples = append(rep.Samples, map[string]any{"scenario": sc, "example_path": []string{"hypershift:create-hostedcluster:hc1", "reconcile:template:clusters-hc1/t", "reconcile:template:ns/t", "hypershift:delete-hostedcluster:hc1", "reconcile:template:clusters-hc1/t"}})
	}
	return rep
}

func replayEnv(v report.Violation) string {
	var sc envScenario
	if err := checks.Decode(v.Params["scenario"], &sc); err != nil {
		return err.Error()
	}
	return osw.ReplayBFS(envSystem(sc), v)
}
