package c18

import (
	"k8s.io/apimachinery/pkg/runtime"
	"k8s.io/apimachinery/pkg/runtime/schema"
)

type (
	schemaObjectKind = schema.ObjectKind
	runtimeObject    = runtime.Object
)
