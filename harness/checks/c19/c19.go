// Package c19 checks property C19 (no package content or cluster object state can crash
// Package Operator) by structure-aware, bounded-exhaustive enumeration of input shapes at the
// seams where untrusted data enters: managed-object status (condition mapping, probing), the
// ObjectTemplate target/source handling, and the package pipeline (paths, manifest, object
// annotations, configuration), each executed through the real code under recover().
package c19

import (
	"encoding/json"
	"fmt"
	"os"
	"regexp"
	"sort"
	"strings"

	metav1 "k8s.io/apimachinery/pkg/apis/meta/v1"
	"k8s.io/apimachinery/pkg/runtime"

	corev1alpha1 "package-operator.run/apis/core/v1alpha1"
	"package-operator.run/internal/apis/manifests"
	"package-operator.run/internal/packages/zzverif/checks"
	"package-operator.run/internal/packages/zzverif/kmodel"
	"package-operator.run/internal/packages/zzverif/osw"
	"package-operator.run/internal/packages/zzverif/pkgw"
	"package-operator.run/internal/packages/zzverif/report"
	"package-operator.run/internal/packages/zzverif/world"
)

// ---- shape grammar ----

type shape struct {
	Name string
	V    any
	Set  bool // false = absent
}

func base() []shape {
	return []shape{
		{"absent", nil, false}, {"null", nil, true}, {`""`, "", true}, {`"x"`, "x", true}, {"0", int64(0), true}, {"1.5", 1.5, true},
		{"true", true, true}, {"[]", []any{}, true}, {"{}", map[string]any{}, true},
	}
}

func depth2(keys []string) []shape {
	out := base()
	for _, b := range base() {
		if !b.Set {
			continue
		}
		out = append(out, shape{"[" + b.Name + "]", []any{b.V}, true})
		for _, k := range keys {
			out = append(out, shape{"{" + k + ":" + b.Name + "}", map[string]any{k: b.V}, true})
		}
	}
	return out
}

// conditionShapes: status.conditions values, incl. lists of condition maps with one field deviating.
func conditionShapes(twoFields bool) []shape {
	out := depth2([]string{"type", "x"})
	fields := []string{"type", "status", "reason", "message", "observedGeneration", "lastTransitionTime"}
	valid := func() map[string]any {
		return map[string]any{"type": "Ready", "status": "True", "reason": "Ok", "message": "fine", "observedGeneration": int64(1), "lastTransitionTime": "2026-01-01T00:00:00Z"}
	}
	out = append(out, shape{"[valid]", []any{valid()}, true})
	for _, f := range fields {
		for _, b := range base() {
			c := valid()
			if b.Set {
				c[f] = b.V
			} else {
				delete(c, f)
			}
			out = append(out, shape{fmt.Sprintf("[{%s:%s}]", f, b.Name), []any{c}, true})
			out = append(out, shape{fmt.Sprintf("[valid,{%s:%s}]", f, b.Name), []any{valid(), c}, true})
			if twoFields {
				for _, f2 := range fields {
					if f2 <= f {
						continue
					}
					for _, b2 := range base() {
						c2 := valid()
						if b.Set {
							c2[f] = b.V
						} else {
							delete(c2, f)
						}
						if b2.Set {
							c2[f2] = b2.V
						} else {
							delete(c2, f2)
						}
						out = append(out, shape{fmt.Sprintf("[{%s:%s,%s:%s}]", f, b.Name, f2, b2.Name), []any{c2}, true})
					}
				}
			}
		}
	}
	return out
}

func statusShapes(twoFields bool) []shape {
	var out []shape
	for _, b := range base() {
		out = append(out, shape{"status=" + b.Name, b.V, b.Set})
	}
	for _, og := range base() {
		for _, c := range conditionShapes(twoFields) {
			st := map[string]any{}
			if og.Set {
				st["observedGeneration"] = og.V
			}
			if c.Set {
				st["conditions"] = c.V
			}
			// only a few observedGeneration shapes combined with every conditions shape
			if og.Name != "absent" && og.Name != "0" && og.Name != `"x"` && og.Name != "1.5" && !strings.HasPrefix(c.Name, "[valid") && c.Name != "absent" {
				continue
			}
			out = append(out, shape{fmt.Sprintf("status{observedGeneration:%s,conditions:%s}", og.Name, c.Name), st, true})
		}
	}
	return out
}

var frameRx = regexp.MustCompile(`(package-operator\.run/[^\s(]+)\(`)

// panicIdentity extracts the first package-operator frame below the panic.
func panicIdentity(p string) string {
	for _, m := range frameRx.FindAllStringSubmatch(p, -1) {
		if strings.Contains(m[1], "zzverif") {
			continue
		}
		return "panic in " + m[1]
	}
	first := strings.SplitN(p, "\n", 2)[0]
	return "panic: " + first
}

// ---- seam 1: managed object status through an ObjectSet pass with condition mappings ----

func runManagedStatus(o checks.Opts) *report.Report {
	rep := report.New("C19", "managed-object-status")
	shapes := statusShapes(!o.Quick())
	rep.Bounds["status_shapes"] = len(shapes)
	rep.Rule = "a managed Widget (controlled by the ObjectSet from its creation, or pre-existing with that status and adopted under collisionProtection None, or pre-existing under another controller while the owner names previous revisions that no longer exist; condition mappings Ready / Progressing / Degraded => my/..., condition probe Ready=True) carries every status shape of the grammar {absent, null, \"\", \"x\", 0, 1.5, true, [], [s], {}, {k:s}} to depth 2, conditions lists with each condition field taking every base shape; three consecutive real ObjectSet passes (active and paused) and ObjectSetPhase passes per shape in one operator process under recover() (the owner's persisted status, mapped conditions included, is the next pass's input), plus lists of several well-formed conditions of which two are mapped; plus availability probe specifications the schema accepts (CEL rules valid / syntax error / non-boolean / run-time error with and without message, fieldsEqual paths, condition probes, empty probes and selectors), each reconciled three times in one long-lived operator process; distinct = persisted Available status/reason or error class"
	// several conditions of which two are mapped, in every order, alone and next to an unmapped one
	cond := func(t, st string) map[string]any {
		return map[string]any{"type": t, "status": st, "reason": "Ok", "message": "fine", "observedGeneration": int64(1), "lastTransitionTime": "2026-01-01T00:00:00Z"}
	}
	for _, l := range [][]any{
		{cond("Ready", "True"), cond("Progressing", "False")}, {cond("Progressing", "True"), cond("Ready", "False")},
		{cond("Other", "True"), cond("Ready", "True"), cond("Progressing", "True")}, {cond("Ready", "True"), cond("Ready", "False")},
		{cond("Progressing", "True")}, {cond("Ready", "True"), cond("Other", "True"), cond("Progressing", "True"), cond("Degraded", "False")},
	} {
		var names []string
		for _, c := range l {
			m := c.(map[string]any)
			names = append(names, fmt.Sprint(m["type"], "=", m["status"]))
		}
		shapes = append(shapes, shape{"status{observedGeneration:1,conditions:[" + strings.Join(names, ",") + "]}", map[string]any{"observedGeneration": int64(1), "conditions": l}, true})
	}
	rep.Bounds["status_shapes"] = len(shapes)
	rep.Bounds["passes_per_case"] = 3
	for i, sh := range shapes {
		if o.Shards > 1 && i%o.Shards != o.Shard {
			continue
		}
		for _, mode := range []string{"objectset", "objectset-paused", "phase", "objectset-adopting", "phase-adopting", "objectset-dangling-previous", "phase-dangling-previous"} {
			w := osw.NewWorld()
			w.LongLived()
			obj := world.Obj("Widget", "", "a", map[string]any{"x": int64(1)})
			oso := corev1alpha1.ObjectSetObject{Object: *obj, ConditionMappings: []corev1alpha1.ConditionMapping{{SourceType: "Ready", DestinationType: "my/Ready"}, {SourceType: "Progressing", DestinationType: "my/Progressing"}, {SourceType: "Degraded", DestinationType: "my/Degraded"}}}
			dangling := strings.HasSuffix(mode, "-dangling-previous")
			adopting := strings.HasSuffix(mode, "-adopting") || dangling
			if adopting {
				// the object is already there, status and all, before the owner's first pass
				oso.CollisionProtection = corev1alpha1.CollisionProtectionNone
				if dangling {
					// ... under another controller, while the owner names a previous revision that
					// no longer exists (pruned by the history limit; the schema accepts any name)
					oso.CollisionProtection = corev1alpha1.CollisionProtectionPrevent
				}
				pre := world.Obj("Widget", world.NS, "a", map[string]any{"x": int64(1)})
				if dangling {
					t := true
					pre.SetOwnerReferences([]metav1.OwnerReference{{APIVersion: "v1", Kind: "ConfigMap", Name: "someone", UID: "uid-someone", Controller: &t}})
				}
				if sh.Set {
					pre.Object["status"] = runtime.DeepCopyJSONValue(sh.V)
				}
				w.MustCreate(pre)
			}
			var pass *world.Pass
			var ownKey kmodel.Key
			switch {
			case strings.HasPrefix(mode, "phase"):
				ph := &corev1alpha1.ObjectSetPhase{ObjectMeta: metav1.ObjectMeta{Name: "r1", Namespace: world.NS, Labels: map[string]string{corev1alpha1.ObjectSetPhaseClassLabel: world.PhaseClass}},
					Spec: corev1alpha1.ObjectSetPhaseSpec{Revision: 1, Objects: []corev1alpha1.ObjectSetObject{oso}, AvailabilityProbes: world.StdProbes()}}
				if dangling {
					ph.Spec.Revision = 3
					ph.Spec.Previous = []corev1alpha1.PreviousRevisionReference{{Name: "gone-1"}, {Name: "gone-2"}}
				}
				w.MustCreate(ph)
				ownKey = world.PKOKey("ObjectSetPhase", world.NS, "r1")
			default:
				var prev []string
				if dangling {
					prev = []string{"gone-1", "gone-2"}
				}
				os := world.NewObjectSet("r1", []world.PhaseSpec{{Name: "p1", Objects: []corev1alpha1.ObjectSetObject{oso}}}, world.StdProbes(), prev...)
				w.MustCreate(os)
				if dangling {
					_ = w.SetStatus(osw.OSKey("r1"), map[string]any{"revision": int64(3)})
				}
				ownKey = osw.OSKey("r1")
			}
			ctrl := world.CtrlObjectSet
			if strings.HasPrefix(mode, "phase") {
				ctrl = world.CtrlPhase
			}
			k := world.KeyOf("Widget", world.NS, "a")
			if !adopting {
				w.Reconcile(ctrl, osw.NN("r1"), nil) // creates the object
				if w.S.Objs[k] == nil {
					rep.Fault = "setup: object not created in mode " + mode
					return rep
				}
				// the workload controller writes an arbitrary status
				c := runtime.DeepCopyJSON(w.S.Objs[k].Content)
				if sh.Set {
					c["status"] = runtime.DeepCopyJSONValue(sh.V)
				} else {
					delete(c, "status")
				}
				w.S.Objs[k].Content = c
			}
			if mode == "objectset-paused" {
				osw.SetLifecycle(w, "r1", "Paused")
			}
			// three passes: what one pass persisted in the owner's status (mapped conditions
			// among its own) is what the next one starts from
			out := ""
			for n := 1; n <= 3; n++ {
				pass = w.Reconcile(ctrl, osw.NN("r1"), nil)
				rep.Executions++
				rep.ImplTraces++
				out = "error"
				if pass.Panic != "" {
					out = "panic"
					rep.AddViolation(report.Violation{Identity: panicIdentity(pass.Panic) + " [" + mode + "]", Message: fmt.Sprintf("a managed object with %s crashes the %s controller in pass %d:\n%s", sh.Name, mode, n, firstLines(pass.Panic, 14)), Params: map[string]any{"shape": sh.Name, "mode": mode}})
					break
				} else if pass.Err == nil {
					st, reason, _, _ := world.Condition(w.S.Objs[ownKey].Content, "Available")
					out = st + "/" + reason
				}
			}
			rep.Outcomes[mode+" "+out]++
		}
		if o.Shard == 0 && len(rep.Samples) < 3 && i%41 == 0 {
			b, _ := json.Marshal(sh.V)
			rep.Samples = append(rep.Samples, map[string]any{"status": string(b), "set": sh.Set})
		}
	}
	probeSpecSeam(rep, o)
	rep.States, rep.Transitions = rep.Executions, rep.Executions
	return rep
}

func firstLines(s string, n int) string {
	l := strings.Split(s, "\n")
	if len(l) > n {
		l = l[:n]
	}
	return strings.Join(l, "\n")
}

// ---- seam 2: ObjectTemplate target status and source items ----

var itemStrings = []string{"", ".", "a", ".a", ".a.b", "{.a}", "{a", "a..b", ".[0]", "[*]", ".data.x", "{.data.x}", ".data", "..", ".data.", "{}", "{.}"}

func runTemplate(o checks.Opts) *report.Report {
	rep := report.New("C19", "object-template")
	shapes := statusShapes(false)
	rep.Bounds["target_status_shapes"] = len(shapes)
	rep.Bounds["item_strings"] = len(itemStrings)
	rep.Rule = "real ObjectTemplate controller passes: (a) the existing target object carries every status shape; (b) source item key x destination from a list of JSONPath-like strings incl. empty, dots only, unbalanced braces, indexes; (c) template text shapes incl. 11 recursion shapes of helper templates (self, mutual, leaf-then-descend, two descents, count-down, template action, inside range/pipeline); all under recover(), a Go runtime fatal error of the worker process (stack overflow) is attributed to the announced input; distinct = persisted Invalid condition / error class"
	tmplText := "apiVersion: verif.example/v1\nkind: Widget\nmetadata:\n  name: out\nspec:\n  x: \"{{ .config.v }}\"\n"
	mk := func(items []corev1alpha1.ObjectTemplateSourceItem, text string) *world.World {
		w := osw.NewWorld()
		src := world.Obj("Gadget", world.NS, "s1", nil)
		src.Object["data"] = map[string]any{"x": "1", "list": []any{"a", "b"}}
		src.SetLabels(map[string]string{"package-operator.run/cache": "True"})
		w.MustCreate(src)
		w.MustCreate(&corev1alpha1.ObjectTemplate{ObjectMeta: metav1.ObjectMeta{Name: "t", Namespace: world.NS},
			Spec: corev1alpha1.ObjectTemplateSpec{Template: text, Sources: []corev1alpha1.ObjectTemplateSource{{APIVersion: "verif.example/v1", Kind: "Gadget", Name: "s1", Items: items}}}})
		return w
	}
	good := []corev1alpha1.ObjectTemplateSourceItem{{Key: ".data.x", Destination: ".v"}}
	judge := func(kind, desc string, w *world.World) {
		pass := w.Reconcile(world.CtrlObjectTemplate, osw.NN("t"), nil)
		rep.Executions++
		rep.ImplTraces++
		out := "error"
		if pass.Panic != "" {
			out = "panic"
			rep.AddViolation(report.Violation{Identity: panicIdentity(pass.Panic) + " [" + kind + "]", Message: fmt.Sprintf("ObjectTemplate with %s crashes its controller:\n%s", desc, firstLines(pass.Panic, 14)), Params: map[string]any{"kind": kind, "input": desc}})
		} else if pass.Err == nil {
			st, reason, _, ok := world.Condition(w.S.Objs[world.PKOKey("ObjectTemplate", world.NS, "t")].Content, "package-operator.run/Invalid")
			out = fmt.Sprintf("ok invalid=%v %s/%s", ok, st, reason)
		}
		rep.Outcomes[kind+" "+out]++
	}
	n := 0
	for _, sh := range shapes {
		n++
		if o.Shards > 1 && n%o.Shards != o.Shard {
			continue
		}
		w := mk(good, tmplText)
		w.Reconcile(world.CtrlObjectTemplate, osw.NN("t"), nil) // creates the target
		k := world.KeyOf("Widget", world.NS, "out")
		if w.S.Objs[k] == nil {
			rep.Fault = "setup: target not created"
			return rep
		}
		c := runtime.DeepCopyJSON(w.S.Objs[k].Content)
		if sh.Set {
			c["status"] = runtime.DeepCopyJSONValue(sh.V)
		} else {
			delete(c, "status")
		}
		w.S.Objs[k].Content = c
		judge("target-status", sh.Name, w)
	}
	for _, key := range itemStrings {
		for _, dst := range itemStrings {
			n++
			if o.Shards > 1 && n%o.Shards != o.Shard {
				continue
			}
			judge("source-item", fmt.Sprintf("key=%q destination=%q", key, dst), mk([]corev1alpha1.ObjectTemplateSourceItem{{Key: key, Destination: dst}}, tmplText))
		}
	}
	for _, text := range []string{"", "{{", "{{ .config.missing }}", "x: [", "- a\n- b\n", "apiVersion: v1\nkind: 5\n", "kind: Widget\n", "null", "{{ include \"nope\" . }}", "apiVersion: verif.example/v1\nkind: Widget\nmetadata:\n  name: 5\n", "apiVersion: verif.example/v1\nkind: Widget\nmetadata: x\n"} {
		n++
		if o.Shards > 1 && n%o.Shards != o.Shard {
			continue
		}
		judge("template-text", fmt.Sprintf("template %q", text), mk(good, text))
	}
	for _, name := range sortedNames(recursionTemplates) {
		n++
		if o.Shards > 1 && n%o.Shards != o.Shard {
			continue
		}
		announce("ObjectTemplate template with recursion shape " + name)
		text := "apiVersion: verif.example/v1\nkind: Widget\nmetadata:\n  name: out\nspec:\n  x: \"" + strings.ReplaceAll(recursionTemplates[name], `"`, `\"`) + "\"\n"
		judge("template-text", "template with recursion shape "+name, mk(good, text))
		judge("template-text", "bare template with recursion shape "+name, mk(good, recursionTemplates[name]))
	}
	rep.States, rep.Transitions = rep.Executions, rep.Executions
	rep.Samples = append(rep.Samples, map[string]any{"key": "", "destination": ""}, map[string]any{"target_status": "status{conditions:[{type:absent}]}"})
	return rep
}

// recursionTemplates: helper definitions that call themselves through `include` / `template` in
// every shape that matters to a depth guard: plain self-recursion, mutual recursion, a
// terminating call followed by a descending one on every level, two descending calls, a deep but
// finite count-down, and recursion through the template action. Each must end in an error or a
// result, never in a dead process.
var recursionTemplates = map[string]string{
	"self-include":         `{{define "r"}}{{include "r" .}}{{end}}{{include "r" .}}`,
	"mutual-include":       `{{define "a"}}{{include "b" .}}{{end}}{{define "b"}}{{include "a" .}}{{end}}{{include "a" .}}`,
	"leaf-then-descend":    `{{define "r"}}{{if eq (toString .) "leaf"}}x{{else}}{{include "r" "leaf"}}{{include "r" .}}{{end}}{{end}}{{include "r" "go"}}`,
	"descend-then-leaf":    `{{define "r"}}{{if eq (toString .) "leaf"}}x{{else}}{{include "r" .}}{{include "r" "leaf"}}{{end}}{{end}}{{include "r" "go"}}`,
	"other-helper-between": `{{define "l"}}x{{end}}{{define "r"}}{{include "l" .}}{{include "r" .}}{{end}}{{include "r" .}}`,
	"two-descents":         `{{define "r"}}{{include "r" .}}{{include "r" .}}{{end}}{{include "r" .}}`,
	"countdown-5000":       `{{define "c"}}{{if gt (int .) 0}}{{include "c" (sub (int .) 1)}}{{end}}{{end}}{{include "c" 5000}}`,
	"countdown-50":         `{{define "c"}}{{if gt (int .) 0}}{{include "c" (sub (int .) 1)}}{{end}}{{end}}{{include "c" 50}}`,
	"self-template-action": `{{define "r"}}{{template "r" .}}{{end}}{{template "r" .}}`,
	"include-in-pipeline":  `{{define "r"}}{{include "r" . | indent 2}}{{end}}{{include "r" . | nindent 2}}`,
	"include-inside-range": `{{define "r"}}{{range (list 1 2)}}{{include "r" $}}{{end}}{{end}}{{include "r" .}}`,
}

func announce(input string) { fmt.Fprintln(os.Stderr, "CURRENT-INPUT: "+input) }

// ---- seam 3: package pipeline ----

func renderSafe(files map[string]string, cfg map[string]any) (res pkgw.RenderResult, pan string) {
	defer func() {
		if r := recover(); r != nil {
			pan = fmt.Sprintf("%v\n%s", r, stack())
		}
	}()
	res = pkgw.Render(files, "", pkgw.Context("inst", "ns", cfg, manifests.PackageEnvironment{Kubernetes: manifests.PackageEnvironmentKubernetes{Version: "v1.27.0"}}))
	return
}

func runPackages(o checks.Opts) *report.Report {
	rep := report.New("C19", "package-pipeline")
	rep.Rule = "package file sets through the real load -> validate -> render -> phase collection pipeline under recover(): object annotation values (condition-map, collision-protection, phase, CEL condition) from a list incl. malformed ones; path shapes (empty name, components/x, components//y, leading dot, double template suffix, deep nesting); the same with a multi-component manifest (incl. an entry named exactly 'components', as a tar directory header becomes); manifest shapes (no spec, duplicate phases, empty phase name, no phases, wrong kind, list instead of map); config shapes against an integer schema; 11 recursion shapes of helper templates inline and in _helpers.gotmpl; CEL expressions (statically bool / non-bool / dynamically typed, compile and run-time errors) at the condition annotation, named manifest conditions, path conditions and the template cel function x 3 configs; distinct = outcome class"
	base := func() map[string]string {
		return map[string]string{"manifest.yaml": pkgw.Manifest{Name: "app", Phases: []string{"p1", "p2"}, ConfigProps: map[string]string{"x": "integer"}}.YAML(),
			"a.yaml": pkgw.WidgetYAML("Widget", "a", "p1", "1", nil)}
	}
	type pcase struct {
		desc  string
		files map[string]string
		cfg   map[string]any
	}
	var cases []pcase
	add := func(desc string, f func(m map[string]string), cfg map[string]any) {
		m := base()
		f(m)
		cases = append(cases, pcase{desc, m, cfg})
	}
	annoVals := []string{"", "a", "a=>", "=>b", "a=>b", "a => b\n", "a=>b\nc", "=>", " => ", "a=>b=>c", "\n", "a => b\nc => d\n"}
	for _, an := range []string{"package-operator.run/condition-map", "package-operator.run/collision-protection", "package-operator.run/phase", "package-operator.run/condition"} {
		for _, v := range annoVals {
			an, v := an, v
			add(fmt.Sprintf("object annotation %s=%q", an, v), func(m map[string]string) {
				extra := map[string]string{an: strings.ReplaceAll(v, "\n", "\\n")}
				doc := pkgw.WidgetYAML("Widget", "z", "p2", "1", nil)
				if an == "package-operator.run/phase" {
					doc = strings.Replace(doc, "    package-operator.run/phase: p2\n", "", 1)
				}
				// write the annotation as a double-quoted YAML scalar so that newlines survive
				doc = strings.Replace(doc, "  annotations:\n", "  annotations:\n    "+an+": \""+extra[an]+"\"\n", 1)
				m["z.yaml"] = doc
			}, nil)
		}
	}
	for _, p := range []string{"", ".yaml", "components/x", "components//y.yaml", "components/c/manifest.yaml", ".hidden.yaml", "t.yaml.gotmpl.gotmpl", "a/b/c/d/e/f/g.yaml", "/abs.yaml", "../up.yaml", "dir/", "x.yml", "_h.yaml", "manifest.yml"} {
		p := p
		add(fmt.Sprintf("path %q", p), func(m map[string]string) { m[p] = pkgw.WidgetYAML("Widget", "pz", "p1", "1", nil) }, nil)
	}
	// the same path shapes under a multi-component manifest (components: {})
	for _, pth := range []string{"components", "components/", "components/x", "components/x/", "components/x/manifest.yaml", "components//y.yaml", "components/x/y/z.yaml", "Components/x/manifest.yaml", "components.yaml", "components/x/manifest.yml"} {
		pth := pth
		add(fmt.Sprintf("multi-component package with path %q", pth), func(m map[string]string) {
			m["manifest.yaml"] = pkgw.Manifest{Name: "app", Phases: []string{"p1", "p2"}, Components: true}.YAML()
			content := pkgw.WidgetYAML("Widget", "pz", "p1", "1", nil)
			if strings.HasSuffix(pth, "manifest.yaml") || strings.HasSuffix(pth, "manifest.yml") {
				content = pkgw.Manifest{Name: "sub", Phases: []string{"p1"}}.YAML()
			}
			if pth == "components" || strings.HasSuffix(pth, "/") {
				content = "" // what a tar directory header becomes in the importer: an empty entry
			}
			m[pth] = content
		}, nil)
	}
	manifestsRaw := []string{
		"", "null", "[]", "apiVersion: manifests.package-operator.run/v1alpha1\nkind: PackageManifest\n",
		"apiVersion: manifests.package-operator.run/v1alpha1\nkind: PackageManifest\nmetadata:\n  name: app\nspec: {}\n",
		"apiVersion: manifests.package-operator.run/v1alpha1\nkind: PackageManifest\nmetadata:\n  name: app\nspec:\n  scopes: [Namespaced]\n  phases:\n  - name: p1\n  - name: p1\n",
		"apiVersion: manifests.package-operator.run/v1alpha1\nkind: PackageManifest\nmetadata:\n  name: app\nspec:\n  scopes: [Namespaced]\n  phases:\n  - name: \"\"\n",
		"apiVersion: manifests.package-operator.run/v1alpha1\nkind: Other\nmetadata:\n  name: app\n",
		"apiVersion: v1\nkind: PackageManifest\n",
		"apiVersion: manifests.package-operator.run/v1alpha1\nkind: PackageManifest\nmetadata:\n  name: app\nspec:\n  scopes: [Namespaced]\n  phases: [{name: p1}]\ntest:\n  template: []\n",
		"apiVersion: manifests.package-operator.run/v1alpha1\nkind: PackageManifest\nmetadata:\n  name: app\nspec:\n  scopes: [Namespaced]\n  phases: [{name: p1}]\n  config:\n    openAPIV3Schema: {type: nonsense}\n",
		"apiVersion: manifests.package-operator.run/v1alpha1\nkind: PackageManifest\nmetadata:\n  name: app\nspec:\n  scopes: [Namespaced]\n  phases: [{name: p1}]\n  filter:\n    conditions: [{name: \"9bad\", expression: \"true\"}]\n",
		"apiVersion: manifests.package-operator.run/v1alpha1\nkind: PackageManifest\nmetadata:\n  name: app\nspec:\n  scopes: [Namespaced]\n  phases: [{name: p1}]\n  filter:\n    conditions: [{name: c, expression: \"1 +\"}]\n    paths: [{glob: \"[\", expression: \"cond.c\"}]\n",
		"apiVersion: manifests.package-operator.run/v1alpha1\nkind: PackageManifest\nmetadata:\n  name: app\nspec:\n  scopes: [Namespaced]\n  phases: [{name: p1}]\n  constraints:\n  - platformVersion: {name: Kubernetes, range: \"not a range\"}\n",
	}
	for i, mr := range manifestsRaw {
		mr := mr
		add(fmt.Sprintf("manifest shape #%d", i), func(m map[string]string) { m["manifest.yaml"] = mr }, nil)
	}
	for _, b := range base2() {
		b := b
		add("config x="+b.Name, func(m map[string]string) {
			m["t.yaml.gotmpl"] = pkgw.WidgetYAML("Widget", "t", "p2", "{{ .config.x }}", nil)
		}, map[string]any{"x": b.V})
	}
	for _, obj := range []string{"- a\n- b\n", "5\n", "kind: Widget\n", "apiVersion: 5\nkind: 6\nmetadata: 7\n", "apiVersion: v1\nkind: ConfigMap\nmetadata:\n  name: [x]\n", "apiVersion: v1\nkind: ConfigMap\nmetadata:\n  annotations: x\n", "apiVersion: v1\nkind: ConfigMap\nmetadata:\n  name: c\n  annotations:\n    package-operator.run/phase: 5\n", "---\n---\n", "\t\n"} {
		obj := obj
		add(fmt.Sprintf("object document %q", obj), func(m map[string]string) { m["o.yaml"] = obj }, nil)
	}
	for _, name := range sortedNames(recursionTemplates) {
		name := name
		add("template recursion shape "+name+" in a .gotmpl object file", func(m map[string]string) {
			m["r.yaml.gotmpl"] = pkgw.WidgetYAML("Widget", "r", "p2", "1", nil) + "# " + recursionTemplates[name] + "\n"
		}, nil)
		add("template recursion shape "+name+" with the helpers in _helpers.gotmpl", func(m map[string]string) {
			text := recursionTemplates[name]
			cut := strings.LastIndex(text, "{{end}}") + len("{{end}}")
			m["_helpers.gotmpl"] = text[:cut]
			m["r.yaml.gotmpl"] = pkgw.WidgetYAML("Widget", "r", "p2", "1", nil) + "# " + text[cut:] + "\n"
		}, nil)
	}
	// CEL filter expressions at every site that evaluates them, crossed with config values: the
	// expression grammar covers statically-bool, statically-non-bool, dynamically typed (field
	// access on the template context) with bool and non-bool values, errors at compile and at run time.
	celExprs := []string{"true", "false", "2 + 3", `"x"`, "null", "[1, 2]", "config", "config.x", "config.s", "config.b", "config.missing",
		"!config.b", "config.x == 1", "config.x > 0", "config.s == \"true\"", "has(config.x)", "has(config.missing)", "size(config) > 0",
		"package.metadata.name", "package.metadata.name == \"inst\"", "environment.kubernetes.version", "environment.openShift", "images",
		"config.x / 0 == 1", "config.s + 1", "config[0]", "1 +", "", "cond.other", "undefinedvar", "config.b ? 1 : 2", "config.b ? true : config.s", "dyn(1)", "dyn(true)"}
	celConfigs := []struct {
		name string
		cfg  map[string]any
	}{{"none", nil}, {"x=1,s=true,b=true", map[string]any{"x": int64(1), "s": "true", "b": true}}, {"x=0,s=,b=false", map[string]any{"x": int64(0), "s": "", "b": false}}}
	celManifest := func(conds, paths map[string]string) string {
		return pkgw.Manifest{Name: "app", Phases: []string{"p1", "p2"}, ConfigProps: map[string]string{"x": "integer", "s": "string", "b": "boolean"}, Conditions: conds, Paths: paths}.YAML()
	}
	for _, ex := range celExprs {
		for _, cc := range celConfigs {
			ex, cc := ex, cc
			yamlEx := strings.ReplaceAll(ex, `"`, `\"`)
			add(fmt.Sprintf("CEL condition annotation %q config %s", ex, cc.name), func(m map[string]string) {
				m["manifest.yaml"] = celManifest(nil, nil)
				doc := pkgw.WidgetYAML("Widget", "z", "p2", "1", nil)
				m["z.yaml"] = strings.Replace(doc, "  annotations:\n", "  annotations:\n    package-operator.run/condition: \""+yamlEx+"\"\n", 1)
			}, cc.cfg)
			if !strings.Contains(ex, "'") {
				add(fmt.Sprintf("CEL named condition %q config %s", ex, cc.name), func(m map[string]string) {
					m["manifest.yaml"] = celManifest(map[string]string{"c": ex}, nil)
					doc := pkgw.WidgetYAML("Widget", "z", "p2", "1", nil)
					m["z.yaml"] = strings.Replace(doc, "  annotations:\n", "  annotations:\n    package-operator.run/condition: \"cond.c\"\n", 1)
				}, cc.cfg)
				add(fmt.Sprintf("CEL path condition %q config %s", ex, cc.name), func(m map[string]string) {
					m["manifest.yaml"] = celManifest(nil, map[string]string{"sub/**": ex})
					m["sub/z.yaml"] = pkgw.WidgetYAML("Widget", "z", "p2", "1", nil)
				}, cc.cfg)
				add(fmt.Sprintf("CEL template function %q config %s", ex, cc.name), func(m map[string]string) {
					m["manifest.yaml"] = celManifest(nil, nil)
					m["t.yaml.gotmpl"] = pkgw.WidgetYAML("Widget", "t", "p2", "{{ cel `"+ex+"` }}", nil)
				}, cc.cfg)
			}
		}
	}
	rep.Bounds["cel_expressions"] = len(celExprs)
	rep.Bounds["cases"] = len(cases)
	for i, c := range cases {
		if o.Shards > 1 && i%o.Shards != o.Shard {
			continue
		}
		announce("package with " + c.desc)
		res, pan := renderSafe(c.files, c.cfg)
		rep.Executions++
		rep.ImplTraces++
		out := "ok"
		if pan != "" {
			out = "panic"
			rep.AddViolation(report.Violation{Identity: panicIdentity(pan) + " [package]", Message: fmt.Sprintf("package with %s crashes the pipeline:\n%s", c.desc, firstLines(pan, 14)), Params: map[string]any{"input": c.desc, "files": c.files}})
		} else if res.Err != nil {
			out = res.Class
		}
		rep.Outcomes[out]++
	}
	rep.States, rep.Transitions = rep.Executions, rep.Executions
	rep.Samples = append(rep.Samples, map[string]any{"input": "object annotation package-operator.run/condition-map=\"a\""}, map[string]any{"input": "path \"components//y.yaml\""})
	return rep
}

func base2() []shape {
	var out []shape
	for _, b := range base() {
		if b.Set {
			out = append(out, b)
		}
	}
	return out
}

func sortedNames(m map[string]string) []string {
	var k []string
	for x := range m {
		k = append(k, x)
	}
	sort.Strings(k)
	return k
}

func init() {
	checks.Register(&checks.Check{
		ID:    "C19",
		Level: "exploration",
		Assumptions: []string{
			"structure-aware bounded enumeration of shapes, not byte-level fuzzing (a different family); the kubectl-package CLI entry points are not driven (they share the pipeline; see DESIGN.md §8)",
			"a panic is attributed to the first package-operator.run frame on its stack",
		},
		Subs: []*checks.Sub{
			{Name: "managed-object-status", Shards: func(string) int { return 8 }, Run: runManagedStatus, CrashIsViolation: true},
			{Name: "object-template", Shards: func(string) int { return 4 }, Run: runTemplate, CrashIsViolation: true},
			{Name: "package-pipeline", Shards: func(string) int { return 4 }, Run: runPackages, CrashIsViolation: true},
			{Name: "oci-import", Shards: func(string) int { return 4 }, Run: runOCI, CrashIsViolation: true},
			{Name: "package-deploy", Shards: func(string) int { return 8 }, Run: runDeploy, CrashIsViolation: true},
		},
	})
}
