package c19

import (
	"fmt"
	"strings"

	metav1 "k8s.io/apimachinery/pkg/apis/meta/v1"

	corev1alpha1 "package-operator.run/apis/core/v1alpha1"
	"package-operator.run/internal/apis/manifests"
	"package-operator.run/internal/packages/zzverif/checks"
	"package-operator.run/internal/packages/zzverif/osw"
	"package-operator.run/internal/packages/zzverif/pkgw"
	"package-operator.run/internal/packages/zzverif/report"
	"package-operator.run/internal/packages/zzverif/world"
)

// ---- the deploy seam: manifest content the validators accept, met by every kind of cluster ----
//
// The render pipeline (package-pipeline sub) stops before the deployer; the deployer evaluates the
// manifest's constraints against the environment of the cluster it runs on, so a manifest that
// is perfectly valid meets environments that lack what it asks about (no OpenShift, no HyperShift,
// no proxy). Every constraint entry of the grammar x every environment goes through one real
// Package pass (and a second one) under recover().

type deployCase struct {
	Desc        string
	Constraints string
	Env         string
}

var deployEnvs = map[string]manifests.PackageEnvironment{
	"kubernetes":            {Kubernetes: manifests.PackageEnvironmentKubernetes{Version: "v1.27.0"}},
	"kubernetes-noversion":  {},
	"kubernetes-badversion": {Kubernetes: manifests.PackageEnvironmentKubernetes{Version: "not-a-version"}},
	"openshift":             {Kubernetes: manifests.PackageEnvironmentKubernetes{Version: "v1.25.0"}, OpenShift: &manifests.PackageEnvironmentOpenShift{Version: "4.12.0"}},
	"openshift-noversion":   {Kubernetes: manifests.PackageEnvironmentKubernetes{Version: "v1.25.0"}, OpenShift: &manifests.PackageEnvironmentOpenShift{}},
	"hypershift":            {Kubernetes: manifests.PackageEnvironmentKubernetes{Version: "v1.27.0"}, HyperShift: &manifests.PackageEnvironmentHyperShift{}},
	"proxy":                 {Kubernetes: manifests.PackageEnvironmentKubernetes{Version: "v1.27.0"}, Proxy: &manifests.PackageEnvironmentProxy{HTTPProxy: "http://p", HTTPSProxy: "http://p", NoProxy: "x"}},
}

func deployCases() []deployCase {
	platforms := map[string]string{"": "", "Kubernetes": "    platform: [Kubernetes]\n", "OpenShift": "    platform: [OpenShift]\n", "both": "    platform: [Kubernetes, OpenShift]\n", "empty": "    platform: []\n"}
	versions := map[string]string{
		"":             "",
		"k8s>=1.20":    "    platformVersion:\n      name: Kubernetes\n      range: \">=1.20.0\"\n",
		"k8s>=1.30":    "    platformVersion:\n      name: Kubernetes\n      range: \">=1.30.0\"\n",
		"ocp>=4.10":    "    platformVersion:\n      name: OpenShift\n      range: \">=4.10.0\"\n",
		"ocp>=4.20":    "    platformVersion:\n      name: OpenShift\n      range: \">=4.20.0\"\n",
		"k8s-badrange": "    platformVersion:\n      name: Kubernetes\n      range: \"not a range\"\n",
		"ocp-badrange": "    platformVersion:\n      name: OpenShift\n      range: \">=\"\n",
	}
	var out []deployCase
	for _, pn := range sortedNames(platforms) {
		for _, vn := range sortedNames(versions) {
			body := platforms[pn] + versions[vn]
			var entries []string
			if body != "" {
				entries = append(entries, "  -"+body[3:])
			}
			for _, extra := range []string{"", "  - uniqueInScope: {}\n"} {
				y := strings.Join(entries, "") + extra
				if y == "" {
					continue
				}
				for _, en := range sortedEnvNames() {
					out = append(out, deployCase{Desc: fmt.Sprintf("constraints {platform %q, version %q, unique %v} on a %s cluster", pn, vn, extra != "", en), Constraints: y, Env: en})
				}
			}
		}
	}
	return out
}

func sortedEnvNames() []string {
	m := map[string]string{}
	for k := range deployEnvs {
		m[k] = ""
	}
	return sortedNames(m)
}

func runDeploy(o checks.Opts) *report.Report {
	rep := report.New("C19", "package-deploy")
	cases := deployCases()
	rep.Bounds["cases"] = len(cases)
	rep.Rule = "manifest constraint entries {no platform, [Kubernetes], [OpenShift], both, empty list} x {no version, Kubernetes / OpenShift range met / unmet / unparsable} x uniqueInScope, each deployed by two consecutive real Package passes on clusters whose environment is {Kubernetes, Kubernetes without / with an unparsable version, OpenShift, OpenShift without version, HyperShift, proxy} under recover(); distinct = persisted Invalid / Unpacked condition or error class"
	for i, c := range cases {
		if o.Shards > 1 && i%o.Shards != o.Shard {
			continue
		}
		announce("package-deploy: " + c.Desc)
		w := osw.NewWorld()
		w.LongLived()
		files := map[string]string{"manifest.yaml": pkgw.Manifest{Name: "app", Phases: []string{"p1"}, Constraints: c.Constraints}.YAML(), "a.yaml": pkgw.WidgetYAML("Widget", "a", "p1", "1", nil)}
		w.Pkg = &world.PackageEnv{Images: map[string]map[string]string{"img": files}, Env: deployEnvs[c.Env]}
		w.MustCreate(&corev1alpha1.Package{ObjectMeta: metav1.ObjectMeta{Name: "p", Namespace: world.NS}, Spec: corev1alpha1.PackageSpec{Image: "img"}})
		out := ""
		for n := 1; n <= 2; n++ {
			pass := w.Reconcile(world.CtrlPackage, osw.NN("p"), nil)
			rep.Executions++
			rep.ImplTraces++
			if pass.Panic != "" {
				out = "panic"
				rep.AddViolation(report.Violation{Identity: panicIdentity(pass.Panic) + " [package-deploy]", Message: fmt.Sprintf("a package with %s crashes the Package controller in pass %d:\n%s", c.Desc, n, firstLines(pass.Panic, 14)), Params: map[string]any{"input": c.Desc}})
				break
			}
			out = "error"
			if pass.Err != nil {
				e := pass.Err.Error()
				if len(e) > 60 {
					e = e[:60]
				}
				out = "error: " + e
			}
			if pass.Err == nil {
				pk := w.S.Objs[world.PKOKey("Package", world.NS, "p")].Content
				inv, _, _, _ := world.Condition(pk, "Invalid")
				unp, _, _, _ := world.Condition(pk, "Unpacked")
				out = fmt.Sprintf("Invalid=%s Unpacked=%s", inv, unp)
			}
		}
		rep.Outcomes[out]++
	}
	rep.States, rep.Transitions = rep.Executions, rep.Executions
	rep.Samples = append(rep.Samples, map[string]any{"input": "constraints {platform \"OpenShift\", version \"ocp>=4.10\"} on a kubernetes cluster"})
	return rep
}
