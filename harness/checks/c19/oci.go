package c19

import (
	"archive/tar"
	"bytes"
	"context"
	"fmt"
	"io"

	containerregistrypkgv1 "github.com/google/go-containerregistry/pkg/v1"
	"github.com/google/go-containerregistry/pkg/v1/empty"
	"github.com/google/go-containerregistry/pkg/v1/mutate"
	"github.com/google/go-containerregistry/pkg/v1/tarball"

	"package-operator.run/internal/packages/internal/packageimport"
	"package-operator.run/internal/packages/zzverif/checks"
	"package-operator.run/internal/packages/zzverif/pkgw"
	"package-operator.run/internal/packages/zzverif/report"
)

// ---- seam 4: the OCI / tar importer ----
//
// Images whose single layer is (a) a well-formed tar of every entry shape in the list below,
// (b) the reference tar truncated after every prefix length that is a multiple of 64 bytes plus
// the lengths one byte before / after each 512-byte block boundary, (c) the reference tar with
// one header field overwritten (size, type flag, name, checksum), (d) not a tar at all. Each
// image goes through the real packageimport.FromOCI and, if that succeeds, on into the load /
// validate / render pipeline, all under recover().

type tarEntry struct {
	Name string
	Type byte
	Body string
	Link string
}

func buildTar(entries []tarEntry) []byte {
	var buf bytes.Buffer
	tw := tar.NewWriter(&buf)
	for _, e := range entries {
		h := &tar.Header{Name: e.Name, Typeflag: e.Type, Mode: 0o644, Size: int64(len(e.Body)), Linkname: e.Link}
		if e.Type == tar.TypeDir || e.Type == tar.TypeSymlink || e.Type == tar.TypeLink {
			h.Size = 0
		}
		if err := tw.WriteHeader(h); err != nil {
			continue
		}
		if h.Size > 0 {
			_, _ = tw.Write([]byte(e.Body))
		}
	}
	_ = tw.Close()
	return buf.Bytes()
}

func imageOf(layer []byte) (containerregistrypkgv1.Image, error) {
	l, err := tarball.LayerFromOpener(func() (io.ReadCloser, error) { return io.NopCloser(bytes.NewReader(layer)), nil })
	if err != nil {
		return nil, err
	}
	return mutate.AppendLayers(empty.Image, l)
}

func importSafe(layer []byte) (out string, pan string) {
	defer func() {
		if r := recover(); r != nil {
			pan = fmt.Sprintf("%v\n%s", r, stack())
		}
	}()
	img, err := imageOf(layer)
	if err != nil {
		return "image-build-error", ""
	}
	raw, err := packageimport.FromOCI(context.Background(), img)
	if err != nil {
		return "import-error", ""
	}
	files := map[string]string{}
	for k, v := range raw.Files {
		files[k] = string(v)
	}
	res, p := renderSafe(files, nil)
	if p != "" {
		return "", p
	}
	if res.Err != nil {
		return "imported, " + res.Class, ""
	}
	return "imported, rendered", ""
}

func runOCI(o checks.Opts) *report.Report {
	rep := report.New("C19", "oci-import")
	rep.Rule = "images whose single layer is: a well-formed tar with every entry shape (regular files under package/, directory headers incl. package/ and package/components/, files outside package/, '../' and absolute names, symlink / hardlink / fifo / char-device entries, empty files, dot files, a 300-character name, duplicate names), the reference tar truncated at every multiple of 64 bytes and one byte around every 512-byte block boundary, the reference tar with single header fields overwritten (size, type flag, name terminator, checksum), random non-tar bytes, an empty layer; each through the real packageimport.FromOCI and on into load / validate / render under recover(); distinct = outcome class"
	manifest := pkgw.Manifest{Name: "app", Phases: []string{"p1", "p2"}}.YAML()
	multi := pkgw.Manifest{Name: "app", Phases: []string{"p1", "p2"}, Components: true}.YAML()
	obj := pkgw.WidgetYAML("Widget", "a", "p1", "1", nil)
	ref := []tarEntry{{Name: "package/", Type: tar.TypeDir}, {Name: "package/manifest.yaml", Type: tar.TypeReg, Body: manifest}, {Name: "package/a.yaml", Type: tar.TypeReg, Body: obj}, {Name: "package/sub/", Type: tar.TypeDir}, {Name: "package/sub/b.yaml", Type: tar.TypeReg, Body: pkgw.WidgetYAML("Widget", "b", "p2", "1", nil)}}
	type icase struct {
		desc  string
		layer []byte
	}
	var cases []icase
	add := func(desc string, entries []tarEntry) { cases = append(cases, icase{desc, buildTar(entries)}) }
	add("reference package", ref)
	extra := []tarEntry{
		{Name: "package/components/", Type: tar.TypeDir}, {Name: "package/components", Type: tar.TypeReg, Body: ""},
		{Name: "outside.yaml", Type: tar.TypeReg, Body: obj}, {Name: "../up.yaml", Type: tar.TypeReg, Body: obj}, {Name: "/abs.yaml", Type: tar.TypeReg, Body: obj},
		{Name: "package/link.yaml", Type: tar.TypeSymlink, Link: "a.yaml"}, {Name: "package/hard.yaml", Type: tar.TypeLink, Link: "package/a.yaml"},
		{Name: "package/fifo", Type: tar.TypeFifo}, {Name: "package/dev", Type: tar.TypeChar},
		{Name: "package/empty.yaml", Type: tar.TypeReg, Body: ""}, {Name: "package/.hidden.yaml", Type: tar.TypeReg, Body: obj},
		{Name: "package/" + string(bytes.Repeat([]byte("n"), 300)) + ".yaml", Type: tar.TypeReg, Body: obj}, {Name: "package/a.yaml", Type: tar.TypeReg, Body: obj},
		{Name: "package", Type: tar.TypeReg, Body: "x"}, {Name: "", Type: tar.TypeReg, Body: "x"}, {Name: "package/./a.yaml", Type: tar.TypeReg, Body: obj}, {Name: "package//c.yaml", Type: tar.TypeReg, Body: obj},
	}
	for _, e := range extra {
		add(fmt.Sprintf("reference package + entry %q type %q", e.Name, string(e.Type)), append(append([]tarEntry{}, ref...), e))
		multiRef := append([]tarEntry{}, ref...)
		multiRef[1].Body = multi
		add(fmt.Sprintf("multi-component package + entry %q type %q", e.Name, string(e.Type)), append(multiRef, e))
		add(fmt.Sprintf("only entry %q type %q", e.Name, string(e.Type)), []tarEntry{e})
	}
	add("empty tar", nil)
	refTar := buildTar(ref)
	cuts := map[int]bool{}
	for n := 0; n <= len(refTar); n += 64 {
		cuts[n] = true
	}
	for n := 512; n <= len(refTar); n += 512 {
		cuts[n-1], cuts[n+1] = true, true
	}
	for n := range cuts {
		if n >= 0 && n <= len(refTar) {
			cases = append(cases, icase{fmt.Sprintf("reference tar truncated after %d of %d bytes", n, len(refTar)), append([]byte{}, refTar[:n]...)})
		}
	}
	// single header fields overwritten in each header block of the reference tar
	for blk := 0; blk+512 <= len(refTar); blk += 512 {
		if refTar[blk] == 0 || refTar[blk+257] != 'u' { // not a ustar header block
			continue
		}
		for _, m := range []struct {
			name string
			off  int
			val  []byte
		}{{"size=77777777777", 124, []byte("77777777777\x00")}, {"size=garbage", 124, []byte("zzzzzzzzzzz\x00")}, {"typeflag=Z", 156, []byte("Z")}, {"typeflag=x (pax)", 156, []byte("x")}, {"typeflag=L (gnu long name)", 156, []byte("L")}, {"checksum=0", 148, []byte("000000\x00 ")}, {"name without terminator", 0, bytes.Repeat([]byte("A"), 100)}, {"magic broken", 257, []byte("xstar\x00")}} {
			mut := append([]byte{}, refTar...)
			copy(mut[blk+m.off:], m.val)
			cases = append(cases, icase{fmt.Sprintf("reference tar, header block at %d: %s", blk, m.name), mut})
		}
	}
	for _, g := range [][]byte{{}, []byte("not a tar"), bytes.Repeat([]byte{0xff}, 1024), bytes.Repeat([]byte{0}, 1536), []byte("package/manifest.yaml")} {
		cases = append(cases, icase{fmt.Sprintf("layer of %d non-tar bytes", len(g)), g})
	}
	rep.Bounds["cases"] = len(cases)
	for i, c := range cases {
		if o.Shards > 1 && i%o.Shards != o.Shard {
			continue
		}
		announce("OCI image with layer: " + c.desc)
		out, pan := importSafe(c.layer)
		rep.Executions++
		rep.ImplTraces++
		if pan != "" {
			out = "panic"
			rep.AddViolation(report.Violation{Identity: panicIdentity(pan) + " [oci import]", Message: fmt.Sprintf("an image whose layer is %s crashes the importer / pipeline:\n%s", c.desc, firstLines(pan, 14)), Params: map[string]any{"input": c.desc}})
		}
		rep.Outcomes[out]++
	}
	rep.States, rep.Transitions = rep.Executions, rep.Executions
	rep.Samples = append(rep.Samples, map[string]any{"input": "reference tar truncated after 1023 bytes"}, map[string]any{"input": "reference package + entry \"package/components/\" type \"5\""})
	return rep
}
