package c19

import (
	"fmt"
	"sort"

	metav1 "k8s.io/apimachinery/pkg/apis/meta/v1"

	corev1alpha1 "package-operator.run/apis/core/v1alpha1"
	"package-operator.run/internal/packages/zzverif/checks"
	"package-operator.run/internal/packages/zzverif/osw"
	"package-operator.run/internal/packages/zzverif/report"
	"package-operator.run/internal/packages/zzverif/world"
)

// probeSpecSeam: availability probe specifications the API schema accepts - CEL rules (valid /
// syntax error / non-boolean / run-time error, with and without message), fieldsEqual paths and
// condition probes with odd strings, empty probes and selectors. Each ObjectSet / ObjectSetPhase
// is reconciled three times in ONE long-lived operator process against a matching Widget (what
// the first pass leaves in memory is there for the next).
func probeSpecSeam(rep *report.Report, o checks.Opts) {
	n := 0
	shapes := probeSpecShapes()
	rep.Bounds["probe_specs"] = len(shapes)
	for _, pr := range shapes {
		for _, mode := range []string{"objectset", "phase"} {
			n++
			if o.Shards > 1 && n%o.Shards != o.Shard {
				continue
			}
			announce("availability probe " + pr.Name + " in mode " + mode)
			w := osw.NewWorld()
			w.LongLived()
			obj := world.Obj("Widget", "", "a", map[string]any{"x": int64(1), "vals": valueKinds()})
			oso := corev1alpha1.ObjectSetObject{Object: *obj}
			probes := []corev1alpha1.ObjectSetProbe{{Selector: pr.Sel, Probes: pr.Probes}}
			ctrl := world.CtrlObjectSet
			if mode == "phase" {
				ctrl = world.CtrlPhase
				w.MustCreate(&corev1alpha1.ObjectSetPhase{ObjectMeta: metav1.ObjectMeta{Name: "r1", Namespace: world.NS, Labels: map[string]string{corev1alpha1.ObjectSetPhaseClassLabel: world.PhaseClass}},
					Spec: corev1alpha1.ObjectSetPhaseSpec{Revision: 1, Objects: []corev1alpha1.ObjectSetObject{oso}, AvailabilityProbes: probes}})
			} else {
				w.MustCreate(world.NewObjectSet("r1", []world.PhaseSpec{{Name: "p1", Objects: []corev1alpha1.ObjectSetObject{oso}}}, probes))
			}
			out := "ok"
			for passNo := 0; passNo < 3; passNo++ {
				pass := w.Reconcile(ctrl, osw.NN("r1"), nil)
				rep.Executions++
				rep.ImplTraces++
				if k := world.KeyOf("Widget", world.NS, "a"); passNo == 0 && w.S.Objs[k] != nil {
					_ = w.SetStatus(k, osw.StatusFor(w.S.Objs[k].Content, "ready"))
				}
				if pass.Panic != "" {
					out = "panic"
					rep.AddViolation(report.Violation{Identity: panicIdentity(pass.Panic) + " [probe spec, " + mode + "]", Message: fmt.Sprintf("an %s with availability probe %s crashes its controller in pass %d:\n%s", mode, pr.Name, passNo+1, firstLines(pass.Panic, 14)), Params: map[string]any{"probe": pr.Name, "mode": mode}})
					break
				}
				if pass.Err != nil {
					out = "error"
				}
			}
			rep.Outcomes["probe-spec "+mode+" "+out]++
		}
	}
}

// valueKinds: one field per kind of JSON value (and equal twins of the composite ones).
func valueKinds() map[string]any {
	return map[string]any{
		"int": int64(1), "int2": int64(1), "str": "1", "bool": true, "float": 1.5,
		"list": []any{int64(1), int64(2)}, "list2": []any{int64(1), int64(2)}, "mixed": []any{int64(1), "a", map[string]any{}},
		"map": map[string]any{"a": int64(1)}, "map2": map[string]any{"a": int64(1)}, "emptylist": []any{}, "emptymap": map[string]any{},
		"nested": []any{[]any{int64(1)}, []any{int64(2)}},
	}
}

type probeSpecShape struct {
	Name   string
	Sel    corev1alpha1.ProbeSelector
	Probes []corev1alpha1.Probe
}

func probeSpecShapes() []probeSpecShape {
	widget := corev1alpha1.ProbeSelector{Kind: &corev1alpha1.PackageProbeKindSpec{Group: world.TestGroup, Kind: "Widget"}}
	ready := []corev1alpha1.Probe{{Condition: &corev1alpha1.ProbeConditionSpec{Type: "Ready", Status: "True"}}}
	var out []probeSpecShape
	for _, rule := range []string{"true", "false", "self.status.x == 1", "has(self.status)", "self.status.x", "self.metadata.name", "1 +", "", "2 + 3", "self.nope.deeper == 1", `self.status.conditions.exists(c, c.type == "Ready")`, "[1,2]", "null", "self"} {
		for _, msg := range []string{"m", ""} {
			out = append(out, probeSpecShape{fmt.Sprintf("cel(rule=%q,message=%q)", rule, msg), widget, []corev1alpha1.Probe{{CEL: &corev1alpha1.ProbeCELSpec{Rule: rule, Message: msg}}}})
		}
	}
	for _, f := range []string{"", ".", "..", ".status", ".status.x", "status.x", ".spec.x", ".a[0]", ".a[", "{.status}", ".status..x"} {
		out = append(out, probeSpecShape{fmt.Sprintf("fieldsEqual(%q,.spec.x)", f), widget, []corev1alpha1.Probe{{FieldsEqual: &corev1alpha1.ProbeFieldsEqualSpec{FieldA: f, FieldB: ".spec.x"}}}})
		out = append(out, probeSpecShape{fmt.Sprintf("fieldsEqual(.spec.x,%q)", f), widget, []corev1alpha1.Probe{{FieldsEqual: &corev1alpha1.ProbeFieldsEqualSpec{FieldA: ".spec.x", FieldB: f}}}})
	}
	// every ordered pair of JSON value kinds as the two compared fields
	var kinds []string
	for k := range valueKinds() {
		kinds = append(kinds, k)
	}
	sort.Strings(kinds)
	for _, a := range kinds {
		for _, b := range kinds {
			out = append(out, probeSpecShape{fmt.Sprintf("fieldsEqual(.spec.vals.%s,.spec.vals.%s)", a, b), widget, []corev1alpha1.Probe{{FieldsEqual: &corev1alpha1.ProbeFieldsEqualSpec{FieldA: ".spec.vals." + a, FieldB: ".spec.vals." + b}}}})
		}
	}
	for _, t := range []string{"", "Ready", "a/b/c", " "} {
		out = append(out, probeSpecShape{fmt.Sprintf("condition(type=%q,status=\"\")", t), widget, []corev1alpha1.Probe{{Condition: &corev1alpha1.ProbeConditionSpec{Type: t, Status: ""}}}})
	}
	out = append(out,
		probeSpecShape{"empty probe", widget, []corev1alpha1.Probe{{}}},
		probeSpecShape{"no probes", widget, nil},
		probeSpecShape{"empty selector", corev1alpha1.ProbeSelector{}, ready},
		probeSpecShape{"selector with empty kind", corev1alpha1.ProbeSelector{Kind: &corev1alpha1.PackageProbeKindSpec{}}, ready},
		probeSpecShape{"label selector with an invalid operator", corev1alpha1.ProbeSelector{Kind: widget.Kind, Selector: &metav1.LabelSelector{MatchExpressions: []metav1.LabelSelectorRequirement{{Key: "a", Operator: "Nope", Values: []string{"b"}}}}}, ready},
	)
	return out
}
