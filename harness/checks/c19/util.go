package c19

import "runtime"

func stack() string {
	buf := make([]byte, 16384)
	n := runtime.Stack(buf, false)
	return string(buf[:n])
}
