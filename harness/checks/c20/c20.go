// Package c20 checks property C20 (de-duplicated image pulls) by exploring all
// interleavings (up to a preemption bound) of the real RequestManager, whose
// sync/go/channel operations are routed through vsched by the build overlay.
package c20

import (
	"context"
	"errors"
	"fmt"
	"sort"
	"strings"
	"sync"
	"sync/atomic"
	"time"

	"package-operator.run/internal/packages/internal/packageimport"
	"package-operator.run/internal/packages/internal/packagetypes"
	"package-operator.run/internal/packages/zzverif/checks"
	"package-operator.run/internal/packages/zzverif/explore"
	"package-operator.run/internal/packages/zzverif/report"
	"package-operator.run/internal/packages/zzverif/vsched"
)

// scenario: callers[i] is the list of images caller i pulls, one after the other.
// failPull: the n-th pull (0-based, in start order) that fails with an error (-1: none).
type scenario struct {
	Name     string     `json:"name"`
	Callers  [][]string `json:"callers"`
	FailPull int        `json:"failPull"`
	// Cancel: callers whose context is cancelled by a separate thread at a point the explorer
	// chooses (before, while or after they wait). The registry pull itself does not watch the context.
	Cancel []int `json:"cancel,omitempty"`
}

var scenarios = []scenario{
	{"3x1-same", [][]string{{"i1"}, {"i1"}, {"i1"}}, -1, nil},
	{"2x2-same", [][]string{{"i1", "i1"}, {"i1", "i1"}}, -1, nil},
	{"3x1-two-images", [][]string{{"i1"}, {"i1"}, {"i2"}}, -1, nil},
	{"2x1-same-error", [][]string{{"i1"}, {"i1"}}, 0, nil},
	{"2+1-repeat", [][]string{{"i1", "i1"}, {"i1"}}, 1, nil},
	// a caller whose reconcile is cancelled while others ask for the same image
	{"2x1-first-cancelled", [][]string{{"i1"}, {"i1"}}, -1, []int{0}},
	{"1+2-repeat-cancelled", [][]string{{"i1"}, {"i1", "i1"}}, -1, []int{0}},
	// images that differ only in tag / in digest within one repository, and in registry only
	{"3x1-same-repo-two-tags", [][]string{{"quay.io/org/pkg:v1"}, {"quay.io/org/pkg:v2"}, {"quay.io/org/pkg:v1"}}, -1, nil},
	{"2x2-tag-digest-registry", [][]string{{"quay.io/org/pkg:v1", "ghcr.io/org/pkg:v1"}, {"quay.io/org/pkg@sha256:" + strings.Repeat("a", 64), "quay.io/org/pkg:v1"}}, -1, nil},
}

var thoroughScenarios = []scenario{
	{"4x1-same", [][]string{{"i1"}, {"i1"}, {"i1"}, {"i1"}}, -1, nil},
	{"3x2-mixed", [][]string{{"i1", "i2"}, {"i2", "i1"}, {"i1", "i1"}}, -1, nil},
	{"3x1-two-cancelled", [][]string{{"i1"}, {"i1"}, {"i1"}}, -1, []int{0, 1}},
}

type pullRec struct {
	id         int
	image      string
	start, end int64
	fail       bool
}

type callRec struct {
	caller, idx int
	image       string
	start, end  int64
	gotPull     int // pull id the response came from, -1 = error response
	gotErr      string
	gaveUp      bool
	done        bool
	files       packagetypes.Files
}

type run struct {
	sc       scenario
	mu       sync.Mutex // only for free-running mode
	clock    atomic.Int64
	pulls    []*pullRec
	inflight map[string]int
	calls    []*callRec
	viol     []string
	source   map[int]packagetypes.Files // original package of each pull (must stay unmodified)
}

func (r *run) tick() int64 { return r.clock.Add(1) }

func (r *run) violate(f string, a ...any) {
	r.viol = append(r.viol, fmt.Sprintf(f, a...))
}

var errPull = errors.New("scripted pull error")

func (r *run) pull(_ context.Context, image string) (*packagetypes.RawPackage, error) {
	r.mu.Lock()
	p := &pullRec{id: len(r.pulls), image: image, start: r.tick()}
	p.fail = p.id == r.sc.FailPull
	r.pulls = append(r.pulls, p)
	r.inflight[image]++
	if r.inflight[image] > 1 {
		r.violate("more than one registry pull in flight for image %s (pull #%d started while another is running)", image, p.id)
	}
	// a regular file, and an empty file as the tar importer produces it (zero length, spare capacity)
	files := packagetypes.Files{"manifest.yaml": []byte(fmt.Sprintf("pull-%d-%s", p.id, image)), "empty.yaml": make([]byte, 0, 16), "nil.yaml": nil}
	orig := files.DeepCopy()
	r.source[p.id] = orig
	r.mu.Unlock()

	vsched.Yield("pull-in-progress") // the pull takes time: other threads may run

	r.mu.Lock()
	r.inflight[image]--
	p.end = r.tick()
	r.mu.Unlock()
	if p.fail {
		return nil, fmt.Errorf("pull %d: %w", p.id, errPull)
	}
	return &packagetypes.RawPackage{Files: files}, nil
}

func (r *run) cancelled(ci int) bool {
	for _, c := range r.sc.Cancel {
		if c == ci {
			return true
		}
	}
	return false
}

func (r *run) caller(rm *packageimport.RequestManager, ci int) {
	cctx := context.Background()
	if r.cancelled(ci) {
		var cancel context.CancelFunc
		cctx, cancel = context.WithCancel(cctx)
		vsched.GoNamed(fmt.Sprintf("canceller%d", ci), func() {
			vsched.Yield("before-cancel")
			cancel()
		})
	}
	for k, image := range r.sc.Callers[ci] {
		r.mu.Lock()
		c := &callRec{caller: ci, idx: k, image: image, start: r.tick(), gotPull: -1}
		r.calls = append(r.calls, c)
		r.mu.Unlock()
		pkg, err := rm.Pull(cctx, image)
		r.mu.Lock()
		c.end = r.tick()
		c.done = true
		switch {
		case err != nil && pkg == nil && errors.Is(err, context.Canceled) && r.cancelled(ci):
			// the caller's own cancellation: a legitimate answer to a caller that gave up
			c.gaveUp = true
		case err != nil && pkg != nil:
			r.violate("caller %d got both a package and an error", ci)
		case err != nil:
			c.gotErr = err.Error()
			var id int
			if _, e := fmt.Sscanf(err.Error(), "pull %d:", &id); e == nil {
				c.gotPull = id
			}
		case pkg == nil:
			r.violate("caller %d call %d got neither package nor error", ci, k)
		default:
			c.files = pkg.Files
			var id int
			var img string
			if _, e := fmt.Sscanf(string(pkg.Files["manifest.yaml"]), "pull-%d-%s", &id, &img); e != nil {
				r.violate("caller %d call %d received content %q that no pull produced (mutated by another caller?)", ci, k, pkg.Files["manifest.yaml"])
			} else {
				c.gotPull = id
			}
		}
		r.mu.Unlock()
		// mutate the private copy (callers are allowed to)
		if pkg != nil {
			vsched.Yield("before-mutate")
			if b := pkg.Files["manifest.yaml"]; len(b) > 0 {
				b[0] = byte('A' + ci)
			}
			pkg.Files[fmt.Sprintf("added-by-%d-%d", ci, k)] = []byte{1}
			// grow the empty files in place (append within capacity does not reallocate)
			pkg.Files["empty.yaml"] = append(pkg.Files["empty.yaml"], byte('A'+ci))
			pkg.Files["nil.yaml"] = append(pkg.Files["nil.yaml"], byte('A'+ci))
		}
	}
}

func (r *run) finalCheck(deadlock string) {
	if deadlock != "" {
		r.violate("deadlock: a caller never received a response (%s)", deadlock)
	}
	for _, c := range r.calls {
		if !c.done {
			if deadlock == "" {
				r.violate("caller %d call %d never returned", c.caller, c.idx)
			}
			continue
		}
		if c.gaveUp {
			continue
		}
		if c.gotPull < 0 || c.gotPull >= len(r.pulls) {
			r.violate("caller %d call %d: response does not stem from any pull", c.caller, c.idx)
			continue
		}
		p := r.pulls[c.gotPull]
		if p.image != c.image {
			r.violate("caller %d asked for %s but received the result of a pull of %s", c.caller, c.image, p.image)
		}
		// The response must come from a pull that was in flight while the caller waited. Neither the
		// registration instant (somewhere in [c.start,c.end]) nor the broadcast is observable from
		// outside, so the judge is the weakest sound one: pull p was certainly broadcast before a
		// later pull p' of the same image started; if p' started before the call was even made, the
		// caller received a stale response.
		for _, q := range r.pulls {
			if q.image == c.image && q.id > p.id && q.start < c.start {
				r.violate("caller %d call %d [%d,%d] received the stale result of pull #%d [%d,%d] although pull #%d of the same image had already started at %d before it asked", c.caller, c.idx, c.start, c.end, p.id, p.start, p.end, q.id, q.start)
			}
		}
		if p.end > c.end {
			r.violate("caller %d call %d returned at %d before pull #%d finished at %d", c.caller, c.idx, c.end, p.id, p.end)
		}
		if p.fail != (c.gotErr != "") {
			r.violate("caller %d call %d: pull #%d fail=%v but caller error=%q", c.caller, c.idx, p.id, p.fail, c.gotErr)
		}
		if c.files != nil {
			// privacy: only own mutations visible
			want := fmt.Sprintf("pull-%d-%s", p.id, p.image)
			wb := []byte(want)
			wb[0] = byte('A' + c.caller)
			if string(c.files["manifest.yaml"]) != string(wb) {
				r.violate("caller %d call %d: its copy reads %q, expected %q: another caller's mutation is visible (shared backing array)", c.caller, c.idx, c.files["manifest.yaml"], wb)
			}
			for _, f := range []string{"empty.yaml", "nil.yaml"} {
				if got := c.files[f]; len(got) != 1 || got[0] != byte('A'+c.caller) {
					r.violate("caller %d call %d: its copy of the initially empty file %s reads %q, expected its own single byte %q: another caller's write is visible (shared backing array)", c.caller, c.idx, f, got, string(rune('A'+c.caller)))
				}
			}
			for k := range c.files {
				if strings.HasPrefix(k, "added-by-") && k != fmt.Sprintf("added-by-%d-%d", c.caller, c.idx) {
					r.violate("caller %d call %d sees key %s added by another caller (shared Files map)", c.caller, c.idx, k)
				}
			}
		}
	}
	nCalls := 0
	for _, cs := range r.sc.Callers {
		nCalls += len(cs)
	}
	if deadlock == "" && len(r.calls) != nCalls {
		r.violate("only %d of %d calls were made", len(r.calls), nCalls)
	}
	if len(r.pulls) > nCalls {
		r.violate("%d pulls for %d requests", len(r.pulls), nCalls)
	}
}

func (r *run) outcome() string {
	per := map[string]int{}
	for _, p := range r.pulls {
		per[p.image]++
	}
	var ks []string
	for k, v := range per {
		ks = append(ks, fmt.Sprintf("%s=%d", k, v))
	}
	sort.Strings(ks)
	var who []string
	for _, c := range r.calls {
		who = append(who, fmt.Sprintf("c%d.%d<-p%d", c.caller, c.idx, c.gotPull))
	}
	sort.Strings(who)
	return "pulls{" + strings.Join(ks, ",") + "} " + strings.Join(who, " ")
}

func newRun(sc scenario) (*run, *packageimport.RequestManager) {
	r := &run{sc: sc, inflight: map[string]int{}, source: map[int]packagetypes.Files{}}
	rm := packageimport.NewRequestManager(nil, nil, nil, nnHelper{}.toNN())
	packageimport.VerifSetPull(rm, r.pull)
	return r, rm
}

func body(sc scenario) explore.Body {
	return func(ctx *explore.Ctx) (string, string) {
		r, rm := newRun(sc)
		s := vsched.Run(ctx, 5000, func() {
			for ci := range sc.Callers {
				ci := ci
				vsched.GoNamed(fmt.Sprintf("caller%d", ci), func() { r.caller(rm, ci) })
			}
		})
		if s.Panic != "" {
			r.violate("panic: %s", s.Panic)
		}
		if s.Overrun {
			r.violate("step horizon exceeded (livelock?)")
		}
		r.finalCheck(s.Deadlock)
		for k, v := range packageimport.VerifInFlight(rm) {
			if s.Deadlock == "" && v > 0 {
				r.violate("request manager still lists %d receivers for %s after all calls returned", v, k)
			}
		}
		msg := ""
		if len(r.viol) > 0 {
			msg = strings.Join(r.viol, "\n")
		}
		return msg, r.outcome()
	}
}

func identity(msg string) string {
	first := strings.SplitN(msg, "\n", 2)[0]
	for _, key := range []string{"deadlock", "more than one registry pull", "shared", "stale result", "never returned", "panic"} {
		if strings.Contains(first, key) {
			return key
		}
	}
	return "other"
}

func runSched(o checks.Opts) *report.Report {
	rep := report.New("C20", "sched")
	bound := 2
	scs := scenarios
	if !o.Quick() {
		bound = 3
		scs = append(append([]scenario{}, scenarios...), thoroughScenarios...)
	}
	rep.Bounds["preemptions"] = bound
	rep.Bounds["scenarios"] = len(scs)
	rep.Rule = "every interleaving of the real RequestManager.Pull callers with at most `preemptions` preemptions at lock/channel/spawn/pull points, per scenario; distinct = distinct (pull count per image, who got which pull)"
	for _, sc := range scs {
		// determinism proof: the default execution twice
		c1, _, o1 := explore.RunOnce(body(sc), nil, nil)
		c2, _, o2 := explore.RunOnce(body(sc), nil, nil)
		if o1 != o2 || len(c1.Points) != len(c2.Points) {
			rep.Fault = "nondeterministic default execution in scenario " + sc.Name
			return rep
		}
		b := bound
		if len(sc.Callers) >= 4 && b > 2 {
			b = 2
		}

		e := &explore.Explorer{Bound: b, Shard: o.Shard, Shards: o.Shards, ShardLvl: 2}
		if !o.Quick() {
			// the thorough tier is capped per scenario and shard (reported, exhaustive=false when hit)
			e.MaxExec = 1500000
		}
		st := e.Explore(body(sc))
		if st.Capped {
			rep.CapsHit = append(rep.CapsHit, fmt.Sprintf("%s: execution cap %d reached in shard %d at bound %d (bound %d is complete in the quick tier)", sc.Name, e.MaxExec, o.Shard, b, 2))
			rep.Exhaustive = false
		}
		if len(st.Divergences) > 0 {
			rep.Fault = "replay divergence: " + st.Divergences[0]
			return rep
		}
		rep.Executions += st.Executions
		rep.ImplTraces += st.Executions
		rep.Transitions += st.Points
		rep.States += st.Executions
		for k, v := range st.Outcomes {
			rep.Outcomes[sc.Name+" "+k] += v
		}
		for _, v := range st.Violations {
			rep.AddViolation(report.Violation{
				Identity: identity(v.Message), Message: v.Message,
				Params:  map[string]any{"scenario": sc},
				Choices: v.Choices, Labels: v.Labels,
			})
		}
		rep.NViolations += st.NViolations - int64(len(st.Violations))
		if o.Shard == 0 {
			rep.Samples = append(rep.Samples, map[string]any{"scenario": sc, "default_schedule_outcome": o1, "choice_points": len(c1.Points)})
		}
	}
	return rep
}

// wideScenarios: more distinct images in flight at once than any plausible internal limit. Twelve
// threads are beyond a complete enumeration even without preemptions (every blocking point has
// many successors), so the depth-first enumeration is cut after a fixed number of executions and
// reported as capped.
var wideScenarios = []scenario{
	{"6x1-distinct", [][]string{{"d1"}, {"d2"}, {"d3"}, {"d4"}, {"d5"}, {"d6"}}, -1, nil},
	{"9x1-distinct", [][]string{{"d1"}, {"d2"}, {"d3"}, {"d4"}, {"d5"}, {"d6"}, {"d7"}, {"d8"}, {"d9"}}, -1, nil},
}

func runWide(o checks.Opts) *report.Report {
	rep := report.New("C20", "sched-wide")
	rep.Exhaustive = false
	rep.Bounds["auxiliary"] = true // a capped enumeration: does not count towards the check's exhaustive flag
	rep.Bounds["preemptions"] = 1
	rep.Bounds["scenarios"] = len(wideScenarios)
	capExec := int64(20000)
	if !o.Quick() {
		capExec = 400000
	}
	rep.Bounds["executions_per_scenario"] = capExec
	rep.Rule = "6 and 9 callers pulling pairwise distinct images: depth-first enumeration of the interleavings (<= 1 preemption) of the real RequestManager.Pull callers in canonical order, cut after `executions_per_scenario` executions (capped, not exhaustive); same oracle as sched"
	for i, sc := range wideScenarios {
		if o.Shards > 1 && i%o.Shards != o.Shard {
			continue
		}
		e := &explore.Explorer{Bound: 1, MaxExec: capExec}
		st := e.Explore(body(sc))
		if len(st.Divergences) > 0 {
			rep.Fault = "replay divergence: " + st.Divergences[0]
			return rep
		}
		rep.Executions += st.Executions
		rep.ImplTraces += st.Executions
		rep.Transitions += st.Points
		rep.States += st.Executions
		for k, v := range st.Outcomes {
			rep.Outcomes[sc.Name+" "+k] += v
		}
		if st.Capped {
			rep.CapsHit = append(rep.CapsHit, fmt.Sprintf("%s: cut after %d executions", sc.Name, capExec))
		}
		for _, v := range st.Violations {
			rep.AddViolation(report.Violation{Identity: identity(v.Message), Message: v.Message, Params: map[string]any{"scenario": sc}, Choices: v.Choices, Labels: v.Labels})
		}
		rep.NViolations += st.NViolations - int64(len(st.Violations))
	}
	return rep
}

func replaySched(v report.Violation) string {
	b, _ := jsonRoundTrip(v.Params["scenario"])
	c, msg, _ := explore.RunOnce(body(b), v.Choices, v.Labels)
	if c.Divergence != "" {
		return "DIVERGENCE (harness fault): " + c.Divergence
	}
	return msg
}

// free-running pass for the race detector: same bodies, no scheduler.
func runRace(o checks.Opts) *report.Report {
	rep := report.New("C20", "race")
	iters := 200
	if !o.Quick() {
		iters = 2000
	}
	rep.Bounds["iterations_per_scenario"] = iters
	rep.Bounds["auxiliary"] = true
	rep.Exhaustive = false
	rep.Rule = "free-running goroutines under the Go race detector (cannot be exhaustive; complements the scheduler exploration, whose hand-offs hide races from the detector)"
	for _, sc := range append(append([]scenario{}, scenarios...), thoroughScenarios...) {
		for i := 0; i < iters; i++ {
			r, rm := newRun(sc)
			var wg sync.WaitGroup
			for ci := range sc.Callers {
				wg.Add(1)
				go func(ci int) { defer wg.Done(); r.caller(rm, ci) }(ci)
			}
			done := make(chan struct{})
			go func() { wg.Wait(); close(done) }()
			select {
			case <-done:
			case <-time.After(30 * time.Second):
				// never an alarm by wall clock: deadlocks are decided by the scheduler exploration
				rep.CapsHit = append(rep.CapsHit, "free-running iteration did not finish within 30 s in scenario "+sc.Name+" (possible deadlock; decided by sub sched)")
				rep.States, rep.Transitions = rep.Executions, rep.Executions
				return rep
			}
			r.finalCheck("")
			rep.Executions++
			rep.ImplTraces++
			rep.Outcomes[sc.Name+" "+r.outcome()]++
			if len(r.viol) > 0 {
				msg := strings.Join(r.viol, "\n")
				rep.AddViolation(report.Violation{Identity: identity(msg), Message: msg, Params: map[string]any{"scenario": sc, "free_running": true}})
			}
		}
	}
	rep.States = rep.Executions
	rep.Transitions = rep.Executions
	return rep
}

func init() {
	checks.Register(&checks.Check{
		ID:    "C20",
		Level: "model_checking",
		Assumptions: []string{
			"scheduling points are the lock, channel, goroutine-spawn operations of request_manager.go plus one point inside the scripted pull; code between them is thread-local (checked separately by the free-running -race pass)",
			"the registry pull is replaced by a scripted function through an overlay-added accessor; imageprefix/override handling is not exercised",
		},
		Subs: []*checks.Sub{
			{Name: "sched", Shards: func(t string) int {
				if t == "thorough" {
					return 16
				}
				return 8
			}, Run: runSched, Replay: replaySched},
			{Name: "race", Run: runRace, Race: true},
			{Name: "sched-wide", Shards: func(string) int { return 2 }, Run: runWide, Replay: replaySched},
		},
	})
}
