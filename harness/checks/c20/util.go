package c20

import (
	"encoding/json"

	"k8s.io/apimachinery/pkg/types"
)

type nnHelper [2]string

func (n nnHelper) toNN() types.NamespacedName {
	return types.NamespacedName{Namespace: n[0], Name: n[1]}
}

func jsonRoundTrip(in any) (scenario, error) {
	var sc scenario
	b, err := json.Marshal(in)
	if err != nil {
		return sc, err
	}
	err = json.Unmarshal(b, &sc)
	return sc, err
}
