// Package checks holds the registry of property checks run by cmd/worker.
package checks

import (
	"encoding/json"

	"package-operator.run/internal/packages/zzverif/report"
)

// Opts are the parameters of one sub-check run.
type Opts struct {
	Tier   string // quick | thorough
	Shard  int
	Shards int
	Seed   int64
}

// Quick reports whether the quick tier is requested.
func (o Opts) Quick() bool { return o.Tier != "thorough" }

// Sub is one independently runnable part of a property check.
type Sub struct {
	Name string
	// Shards returns how many worker processes this sub is split over.
	Shards func(tier string) int
	Run    func(o Opts) *report.Report
	// Replay re-executes one recorded violation and returns its message ("" = passes now).
	Replay func(v report.Violation) string
	// Race: run free-running in the -race binary instead of under the scheduler.
	Race bool
	// Parallel: the sub uses goroutine parallelism itself (no GOMAXPROCS=1).
	Parallel bool
	// CrashIsViolation: a Go runtime fatal error in the shard process (stack overflow, concurrent
	// map access, ...) is a violation of the property, attributed to the last input the shard
	// announced on stderr with a "CURRENT-INPUT: " line - not a harness fault.
	CrashIsViolation bool
}

// Check is everything registered for one property.
type Check struct {
	ID    string
	Level string // evidence level
	Subs  []*Sub
	// Assumptions common to all subs.
	Assumptions []string
}

// Registry of checks by property id.
var Registry = map[string]*Check{}

// Register adds a check.
func Register(c *Check) { Registry[c.ID] = c }

// One is a helper for Shards.
func One(string) int { return 1 }

// Decode converts a JSON-decoded value (map) back into a typed struct.
func Decode(in any, out any) error {
	b, err := json.Marshal(in)
	if err != nil {
		return err
	}
	return json.Unmarshal(b, out)
}
