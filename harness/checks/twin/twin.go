// Package twin is the lockstep differential between the namespaced API kinds (ObjectSet,
// ObjectSetPhase, ObjectDeployment) and their cluster-scoped variants (ClusterObjectSet,
// ClusterObjectSetPhase, ClusterObjectDeployment). The properties speak of "an ObjectSet";
// the product ships every kind twice and the two variants share the generic controllers but
// not the accessors underneath them (internal/adapters), so a slip in one accessor breaks a
// property for one variant only.
//
// One world holds both halves side by side: the namespaced objects in namespace ns managing
// Widgets/Gadgets in ns, the cluster-scoped ones managing the same objects in namespace cns.
// Every event is applied to both halves at once (reconcile of the paired controllers, the same
// status change on both copies of an object, the same user action on both owners); after every
// event the projection of the namespaced half must equal the projection of the cluster-scoped
// half (kinds without the Cluster prefix, namespaces dropped, generated names replaced by
// their position). The search is the ordinary explicit-state BFS over the combined state.
package twin

import (
	"fmt"
	"sort"
	"strconv"
	"strings"

	"k8s.io/apimachinery/pkg/apis/meta/v1/unstructured"
	"k8s.io/apimachinery/pkg/types"
	"sigs.k8s.io/controller-runtime/pkg/client"

	corev1 "k8s.io/api/core/v1"
	metav1 "k8s.io/apimachinery/pkg/apis/meta/v1"
	corev1alpha1 "package-operator.run/apis/core/v1alpha1"
	"package-operator.run/internal/packages/zzverif/checks"
	"package-operator.run/internal/packages/zzverif/kmodel"
	"package-operator.run/internal/packages/zzverif/osw"
	"package-operator.run/internal/packages/zzverif/report"
	"package-operator.run/internal/packages/zzverif/world"
)

const (
	pko = "package-operator.run"
	// CNS is the namespace the cluster-scoped half manages its objects in.
	CNS = "cns"
	// ANS is the namespace of the annotation-strategy half (its PKO objects and its managed objects).
	ANS = "ans"
)

// half describes one of the two variants.
type half struct {
	cluster bool
	// anno: the half's delegated phases are served by the phase controller that keeps ownership in
	// the owners annotation (the multi-cluster constructor); its objects live in namespace ANS
	anno bool
}

// halvesOf: the two variants a scenario compares - namespaced vs cluster-scoped kinds, or (Variant
// "annotation") native owner references vs the owners annotation, both on the namespaced kinds.
func halvesOf(sc Scenario) []half {
	if sc.Variant == "annotation" {
		return []half{{}, {anno: true}}
	}
	return []half{{}, {cluster: true}}
}

func (h half) kind(k string) string {
	if h.cluster {
		return "Cluster" + k
	}
	return k
}

func (h half) pkoNS() string {
	switch {
	case h.cluster:
		return ""
	case h.anno:
		return ANS
	}
	return world.NS
}

func (h half) objNS() string {
	switch {
	case h.cluster:
		return CNS
	case h.anno:
		return ANS
	}
	return world.NS
}

func (h half) key(kind, name string) kmodel.Key { return world.PKOKey(h.kind(kind), h.pkoNS(), name) }

func (h half) ctrl(kind string) string {
	switch kind {
	case "ObjectSet":
		if h.cluster {
			return world.CtrlClusterObjectSet
		}
		return world.CtrlObjectSet
	case "ObjectSetPhase":
		if h.cluster {
			return world.CtrlClusterPhase
		}
		if h.anno {
			return world.CtrlPhaseAnno
		}
		return world.CtrlPhase
	case "ObjectDeployment":
		if h.cluster {
			return world.CtrlClusterObjectDeploy
		}
		return world.CtrlObjectDeployment
	}
	panic("twin: no controller for " + kind)
}

// toHalf converts a typed namespaced PKO object into this half's variant (the Cluster kinds
// have the same JSON shape: other kind, no namespace).
func toHalf(h half, typed client.Object) *unstructured.Unstructured {
	c, gvk, err := kmodel.ToContent(typed, world.Scheme)
	if err != nil {
		panic(err)
	}
	c["apiVersion"] = gvk.GroupVersion().String()
	c["kind"] = h.kind(gvk.Kind)
	md := c["metadata"].(map[string]any)
	if h.cluster {
		delete(md, "namespace")
	} else {
		md["namespace"] = h.pkoNS()
	}
	return &unstructured.Unstructured{Object: c}
}

// phases builds the API phases of a layout for this half: every object names its namespace.
func (h half) phases(cfg []osw.PhaseCfg, x int64) []world.PhaseSpec {
	ps := osw.PhaseSpecs(cfg, x)
	for pi := range ps {
		for oi := range ps[pi].Objects {
			ps[pi].Objects[oi].Object.SetNamespace(h.objNS())
		}
	}
	return ps
}

// ---- pairing ----

type pair struct {
	Kind   string // ObjectSet | ObjectSetPhase | ObjectDeployment
	Label  string // normalised name (generated ObjectSets: "<od>#<i>")
	N, C   string // stored names in the two halves ("" when that half has no such object)
	suffix string
}

func uidNum(c map[string]any) int {
	n, _ := strconv.Atoi(strings.TrimPrefix(kmodel.UID(c), "uid-"))
	return n
}

// names lists the objects of kind in half h: hand-made ones by name, generated ObjectSets
// (label app=<od>) by creation order with a positional label.
func names(w *world.World, h half, kind string) (plain []string, generated map[string][]string) {
	generated = map[string][]string{}
	type gen struct {
		name string
		uid  int
	}
	g := map[string][]gen{}
	for _, k := range w.S.SortedKeys() {
		if k.Group != pko || k.Kind != h.kind(kind) || k.Namespace != h.pkoNS() {
			continue
		}
		c := w.S.Objs[k].Content
		if app := kmodel.Labels(c)["app"]; kind == "ObjectSet" && app != "" {
			g[app] = append(g[app], gen{k.Name, uidNum(c)})
			continue
		}
		plain = append(plain, k.Name)
	}
	for app, l := range g {
		sort.Slice(l, func(i, j int) bool { return l[i].uid < l[j].uid })
		for _, e := range l {
			generated[app] = append(generated[app], e.name)
		}
	}
	return
}

// pairs lists, in a canonical order, the paired PKO objects of the two halves.
func pairs(w *world.World, halves []half) []pair {
	var out []pair
	zip := func(kind string, label func(i int, n string) string, a, b []string, byName bool) {
		if byName {
			seen := map[string]bool{}
			all := append(append([]string{}, a...), b...)
			sort.Strings(all)
			in := func(l []string, n string) string {
				for _, e := range l {
					if e == n {
						return n
					}
				}
				return ""
			}
			for _, n := range all {
				if seen[n] {
					continue
				}
				seen[n] = true
				out = append(out, pair{Kind: kind, Label: n, N: in(a, n), C: in(b, n)})
			}
			return
		}
		for i := 0; i < len(a) || i < len(b); i++ {
			p := pair{Kind: kind}
			if i < len(a) {
				p.N = a[i]
			}
			if i < len(b) {
				p.C = b[i]
			}
			p.Label = label(i, p.N)
			out = append(out, p)
		}
	}
	nOD, _ := names(w, halves[0], "ObjectDeployment")
	cOD, _ := names(w, halves[1], "ObjectDeployment")
	zip("ObjectDeployment", nil, nOD, cOD, true)
	nOS, nGen := names(w, halves[0], "ObjectSet")
	cOS, cGen := names(w, halves[1], "ObjectSet")
	zip("ObjectSet", nil, nOS, cOS, true)
	apps := map[string]bool{}
	for a := range nGen {
		apps[a] = true
	}
	for a := range cGen {
		apps[a] = true
	}
	var appl []string
	for a := range apps {
		appl = append(appl, a)
	}
	sort.Strings(appl)
	for _, a := range appl {
		a := a
		zip("ObjectSet", func(i int, _ string) string { return fmt.Sprintf("%s#%d", a, i+1) }, nGen[a], cGen[a], false)
	}
	// phase objects hang off their ObjectSet pair
	nPh, _ := names(w, halves[0], "ObjectSetPhase")
	cPh, _ := names(w, halves[1], "ObjectSetPhase")
	used := map[string]bool{}
	for _, p := range append([]pair{}, out...) {
		if p.Kind != "ObjectSet" {
			continue
		}
		sfx := map[string]bool{}
		for _, n := range nPh {
			if p.N != "" && strings.HasPrefix(n, p.N+"-") {
				sfx[strings.TrimPrefix(n, p.N+"-")] = true
			}
		}
		for _, n := range cPh {
			if p.C != "" && strings.HasPrefix(n, p.C+"-") {
				sfx[strings.TrimPrefix(n, p.C+"-")] = true
			}
		}
		var sl []string
		for s := range sfx {
			sl = append(sl, s)
		}
		sort.Strings(sl)
		has := func(l []string, n string) string {
			for _, e := range l {
				if e == n {
					return n
				}
			}
			return ""
		}
		for _, s := range sl {
			pp := pair{Kind: "ObjectSetPhase", Label: p.Label + "-" + s}
			if p.N != "" {
				pp.N = has(nPh, p.N+"-"+s)
			}
			if p.C != "" {
				pp.C = has(cPh, p.C+"-"+s)
			}
			used["n:"+pp.N], used["c:"+pp.C] = true, true
			out = append(out, pp)
		}
	}
	for _, n := range nPh {
		if !used["n:"+n] {
			out = append(out, pair{Kind: "ObjectSetPhase", Label: "stray:" + n, N: n})
		}
	}
	for _, n := range cPh {
		if !used["c:"+n] {
			out = append(out, pair{Kind: "ObjectSetPhase", Label: "stray:" + n, C: n})
		}
	}
	return out
}

func (p pair) name(h half) string {
	if h.cluster || h.anno {
		return p.C
	}
	return p.N
}

// ---- projection ----

func conds(c map[string]any) []string {
	var out []string
	st, _ := c["status"].(map[string]any)
	l, _ := st["conditions"].([]any)
	for _, e := range l {
		m, _ := e.(map[string]any)
		out = append(out, fmt.Sprintf("%v=%v/%v@%v", m["type"], m["status"], m["reason"], m["observedGeneration"]))
	}
	sort.Strings(out)
	return out
}

func project(w *world.World, halves []half, h half) string {
	ps := pairs(w, halves)
	label := map[string]string{} // "<kind>/<stored name>" -> normalised label
	for _, p := range ps {
		if n := p.name(h); n != "" {
			label[p.Kind+"/"+n] = p.Kind + "/" + p.Label
		}
	}
	norm := func(kind, name string) string {
		kind = strings.TrimPrefix(kind, "Cluster")
		if l, ok := label[kind+"/"+name]; ok {
			return l
		}
		if kind == "ObjectSet" || kind == "ObjectSetPhase" || kind == "ObjectDeployment" {
			return kind + "/(not present)" // generated names differ between the halves (template hash over the objects' namespace)
		}
		return kind + "/" + name
	}
	var sb strings.Builder
	for _, k := range w.S.SortedKeys() {
		if k.Group != world.TestGroup || k.Namespace != h.objNS() {
			continue
		}
		c := w.S.Objs[k].Content
		x, _ := world.Nested(c, "spec", "x")
		var owners []string
		all := world.Owners(c, false)
		if h.anno {
			all = append(all, world.Owners(c, true)...) // objects of in-process phases carry ownerReferences in this half too
		}
		for _, o := range all {
			if halves[1].anno && !o.Controller {
				continue // former controllers stay plain owners in ownerReferences and are dropped from the owners annotation: by design
			}
			owners = append(owners, fmt.Sprintf("%s ctrl=%v", norm(o.Kind, o.Name), o.Controller))
		}
		sort.Strings(owners)
		cacheLabel := kmodel.Labels(c)["package-operator.run/cache"]
		if halves[1].anno {
			// a former controller that is torn down strips the label together with its plain owner
			// entry; with the annotation strategy it is no owner any more and leaves the object alone
			// (the controlling revision re-applies the label on its next pass)
			cacheLabel = "-"
		}
		fmt.Fprintf(&sb, "%s/%s x=%v rev=%s owners=%v cacheLabel=%q terminating=%v status=%s\n", k.Kind, k.Name, x, kmodel.Annotations(c)[world.RevisionAnnotation], owners,
			cacheLabel, kmodel.Terminating(c), osw.StatusClass(c))
	}
	for _, p := range ps {
		n := p.name(h)
		if n == "" {
			fmt.Fprintf(&sb, "%s/%s absent\n", p.Kind, p.Label)
			continue
		}
		c := w.S.Objs[h.key(p.Kind, n)].Content
		spec, _ := c["spec"].(map[string]any)
		st, _ := c["status"].(map[string]any)
		var ctl []string
		if l, ok := st["controllerOf"].([]any); ok {
			for _, e := range l {
				m, _ := e.(map[string]any)
				kind, _ := m["kind"].(string)
				name, _ := m["name"].(string)
				if g, _ := m["group"].(string); g == pko {
					ctl = append(ctl, norm(kind, name))
				} else {
					ctl = append(ctl, kind+"/"+name)
				}
			}
		}
		var prev []string
		if l, ok := spec["previous"].([]any); ok {
			for _, e := range l {
				m, _ := e.(map[string]any)
				name, _ := m["name"].(string)
				prev = append(prev, norm("ObjectSet", name))
			}
		}
		var rprev []string
		if l, ok := st["remotePhases"].([]any); ok {
			for _, e := range l {
				m, _ := e.(map[string]any)
				name, _ := m["name"].(string)
				rprev = append(rprev, norm("ObjectSetPhase", name))
			}
		}
		fins := kmodel.Finalizers(c)
		sort.Strings(fins)
		fmt.Fprintf(&sb, "%s/%s lifecycle=%v paused=%v pausedByParent=%q revision=%v specRevision=%v terminating=%v finalizers=%v conditions=%v controllerOf=%v previous=%v remotePhases=%v statusRevision=%v\n",
			p.Kind, p.Label, spec["lifecycleState"], spec["paused"], kmodel.Annotations(c)["package-operator.run/paused-by-parent"], st["revision"], spec["revision"],
			kmodel.Terminating(c), fins, conds(c), ctl, prev, rprev, st["revision"])
	}
	return sb.String()
}

// invariant: the two halves project to the same thing.
func invariant(w *world.World, halves []half) []world.Finding {
	a, b := project(w, halves, halves[0]), project(w, halves, halves[1])
	if a == b {
		return nil
	}
	la, lb := strings.Split(a, "\n"), strings.Split(b, "\n")
	var diff []string
	for i := 0; i < len(la) || i < len(lb); i++ {
		var x, y string
		if i < len(la) {
			x = la[i]
		}
		if i < len(lb) {
			y = lb[i]
		}
		if x != y {
			diff = append(diff, "  namespaced:     "+x, "  cluster-scoped: "+y)
		}
	}
	if halves[1].anno {
		return []world.Finding{{Monitor: "strategy-twin", Identity: "annotation-strategy-diverges", Message: "after this event the phases served with the owners annotation are in another state than the ones served with native owner references, driven through the same history (first line of each pair: native):\n" + strings.Join(diff, "\n")}}
	}
	id := "cluster-scoped-variant-diverges"
	return []world.Finding{{Monitor: "cluster-twin", Identity: id, Message: "after this event the cluster-scoped kinds are in another state than the namespaced ones driven through the same history:\n" + strings.Join(diff, "\n")}}
}

// ---- scenarios ----

// Scenario is one lockstep system.
type Scenario struct {
	Kind string `json:"kind"` // chain | deployment
	N    int    `json:"phases"`
	Mask uint   `json:"delegated"`
	// Successor: r2 (same objects, previous r1) exists from the start
	Successor bool     `json:"successor"`
	Classes   []string `json:"classes"`
	Users     int      `json:"userEvents"`
	Third     int      `json:"thirdParty"`
	Edits     int      `json:"edits"`
	Pauses    int      `json:"pauses"`
	Limit     int      `json:"revisionHistoryLimit"`
	// Variant: "" compares namespaced with cluster-scoped kinds, "annotation" compares delegated
	// phases served with native owner references with ones served with the owners annotation
	Variant string `json:"variant"`
}

func (sc Scenario) name() string {
	return fmt.Sprintf("twin"+sc.Variant+" %s phases=%d delegated=%03b successor=%v statuses=%d users=%d third=%d edits=%d pauses=%d limit=%d", sc.Kind, sc.N, sc.Mask, sc.Successor, len(sc.Classes), sc.Users, sc.Third, sc.Edits, sc.Pauses, sc.Limit)
}

var tmplObjs = [][]string{{"a", "b"}, {"a", "c"}, {"a", "b"}}

func (sc Scenario) template(h half, i int) corev1alpha1.ObjectSetTemplateSpec {
	return world.TemplateSpec(h.phases(osw.OnePhase(tmplObjs[i]...), int64(i+1)), world.StdProbes())
}

// System builds the lockstep system of a scenario.
func System(sc Scenario) *world.System {
	cfg := osw.B1(sc.N, sc.Mask)
	halves := halvesOf(sc)
	return &world.System{
		Name: sc.name(),
		Init: func() *world.World {
			w := osw.NewWorld()
			w.MustCreate(&corev1.Namespace{ObjectMeta: metav1.ObjectMeta{Name: halves[1].objNS()}})
			for _, h := range halves {
				switch sc.Kind {
				case "chain":
					w.MustCreate(toHalf(h, world.NewObjectSet("r1", h.phases(cfg, 1), world.StdProbes())))
					if sc.Successor {
						w.MustCreate(toHalf(h, world.NewObjectSet("r2", h.phases(cfg, 2), world.StdProbes(), "r1")))
					}
				case "deployment":
					var lim *int32
					if sc.Limit >= 0 {
						l := int32(sc.Limit)
						lim = &l
					}
					w.MustCreate(toHalf(h, osw.NewOD("d", sc.template(h, 0), lim)))
				}
			}
			w.Budget["user"] = sc.Users
			w.Budget["third-party"] = sc.Third
			w.Budget["edit"] = sc.Edits
			w.Budget["user-pause"] = sc.Pauses
			return w
		},
		Events: func(w *world.World) []world.Event {
			var evs []world.Event
			both := func(f func(w *world.World, h half)) func(w *world.World) {
				return func(w *world.World) {
					for _, h := range halves {
						f(w, h)
					}
				}
			}
			// reconcile of every pair (both controllers, namespaced first)
			for _, p := range pairs(w, halves) {
				p := p
				evs = append(evs, world.Event{Name: "reconcile:" + p.Kind + "/" + p.Label, Apply: func(w *world.World) *world.Pass {
					var last *world.Pass
					for _, h := range halves {
						n := p.name(h)
						if n == "" {
							continue
						}
						pass := w.Reconcile(h.ctrl(p.Kind), types.NamespacedName{Namespace: h.pkoNS(), Name: n}, nil)
						if last != nil {
							// one Pass record for the engine: keep both traces
							pass.Reqs = append(append([]*kmodel.Request{}, last.Reqs...), pass.Reqs...)
							if pass.Panic == "" {
								pass.Panic = last.Panic
							}
						}
						last = pass
					}
					return last
				}})
			}
			// workload status changes on both copies of an object
			seen := map[string]bool{}
			for _, k := range w.S.SortedKeys() {
				if k.Group != world.TestGroup || seen[k.Kind+"/"+k.Name] {
					continue
				}
				seen[k.Kind+"/"+k.Name] = true
				kind, name := k.Kind, k.Name
				for _, cls := range sc.Classes {
					cls := cls
					differs := false
					for _, h := range halves {
						if o := w.S.Objs[world.KeyOf(kind, h.objNS(), name)]; o != nil && !kmodel.Terminating(o.Content) && osw.StatusClass(o.Content) != cls {
							differs = true
						}
					}
					if !differs {
						continue
					}
					evs = append(evs, world.Event{Name: fmt.Sprintf("workload:%s/%s=%s", kind, name, cls), Apply: func(w *world.World) *world.Pass {
						both(func(w *world.World, h half) {
							ok := world.KeyOf(kind, h.objNS(), name)
							if o := w.S.Objs[ok]; o != nil && !kmodel.Terminating(o.Content) {
								_ = w.SetStatus(ok, osw.StatusFor(o.Content, cls))
							}
						})(w)
						return nil
					}})
				}
				if w.Budget["third-party"] > 0 {
					evs = append(evs, world.Event{Name: fmt.Sprintf("third-party:delete:%s/%s", kind, name), Apply: func(w *world.World) *world.Pass {
						w.Budget["third-party"]--
						both(func(w *world.World, h half) { _ = w.S.Delete(world.KeyOf(kind, h.objNS(), name), kmodel.DeleteOpts{}) })(w)
						return nil
					}})
				}
			}
			evs = append(evs, world.Event{Name: "gc", Apply: func(w *world.World) *world.Pass { w.GC(); return nil }})
			edit := func(kind, name string, f func(c map[string]any)) func(w *world.World) {
				return both(func(w *world.World, h half) { _ = w.Edit(h.key(kind, name), f) })
			}
			if sc.Kind == "chain" && w.Budget["user"] > 0 {
				for _, n := range []string{"r1", "r2"} {
					n := n
					o := w.S.Objs[halves[0].key("ObjectSet", n)]
					if o == nil || kmodel.Terminating(o.Content) {
						continue
					}
					add := func(ev string, f func(w *world.World)) {
						evs = append(evs, world.Event{Name: "user:" + ev + ":" + n, Apply: func(w *world.World) *world.Pass {
							w.Budget["user"]--
							f(w)
							return nil
						}})
					}
					lc := osw.Lifecycle(o.Content)
					set := func(state string) func(w *world.World) {
						return edit("ObjectSet", n, func(c map[string]any) { c["spec"].(map[string]any)["lifecycleState"] = state })
					}
					if lc == "Active" {
						add("pause", set("Paused"))
					}
					if lc == "Paused" {
						add("unpause", set("Active"))
					}
					if lc != "Archived" {
						add("archive", set("Archived"))
					}
					add("delete", both(func(w *world.World, h half) { _ = w.S.Delete(h.key("ObjectSet", n), kmodel.DeleteOpts{}) }))
				}
			}
			if sc.Kind == "deployment" {
				od := w.S.Objs[halves[0].key("ObjectDeployment", "d")]
				if od != nil && w.Budget["edit"] > 0 {
					i := sc.Edits - w.Budget["edit"] + 1
					evs = append(evs, world.Event{Name: "user:edit-template:" + strings.Join(tmplObjs[i], ""), Apply: func(w *world.World) *world.Pass {
						w.Budget["edit"]--
						for _, h := range halves {
							c, _, err := kmodel.ToContent(&corev1alpha1.ObjectSet{Spec: corev1alpha1.ObjectSetSpec{ObjectSetTemplateSpec: sc.template(h, i)}}, world.Scheme)
							if err != nil {
								panic(err)
							}
							spec := c["spec"].(map[string]any)
							delete(spec, "lifecycleState")
							_ = w.Edit(h.key("ObjectDeployment", "d"), func(oc map[string]any) {
								oc["spec"].(map[string]any)["template"].(map[string]any)["spec"] = spec
							})
						}
						return nil
					}})
				}
				if od != nil && w.Budget["user-pause"] > 0 {
					pv, _ := world.Nested(od.Content, "spec", "paused")
					p, _ := pv.(bool)
					name := "user:pause-od"
					if p {
						name = "user:unpause-od"
					}
					evs = append(evs, world.Event{Name: name, Apply: func(w *world.World) *world.Pass {
						w.Budget["user-pause"]--
						edit("ObjectDeployment", "d", func(oc map[string]any) {
							if p {
								delete(oc["spec"].(map[string]any), "paused")
							} else {
								oc["spec"].(map[string]any)["paused"] = true
							}
						})(w)
						return nil
					}})
				}
			}
			return evs
		},
		Invariant: func(w *world.World) []world.Finding { return invariant(w, halves) },
	}
}

// Run explores the scenarios for property prop and reports under sub "cluster-twin".
func Run(prop string, scs []Scenario, o checks.Opts) *report.Report {
	return runNamed("cluster-twin", prop, scs, o)
}

func runNamed(sub, prop string, scs []Scenario, o checks.Opts) *report.Report {
	rep := report.New(prop, sub)
	rep.Rule = "lockstep explicit-state BFS to closure over one world that holds the namespaced kinds (ObjectSet / ObjectSetPhase / ObjectDeployment managing objects in ns) and their cluster-scoped variants (ClusterObjectSet / ClusterObjectSetPhase / ClusterObjectDeployment managing the same objects in cns) side by side: every event - reconcile of a pair of controllers, workload status change, user pause / unpause / archive / delete / template edit, third-party delete, garbage collector - is applied to both halves; after every event the projections of the two halves (kinds without the Cluster prefix, namespaces dropped, generated names by position; objects with owners, revision, status; every PKO object's lifecycle, finalizers, conditions with reason and observedGeneration, revision, controllerOf, previous) must be equal"
	if sub == "strategy-twin" {
		rep.Rule = "lockstep explicit-state BFS to closure over one world that holds the same ObjectSets twice - in ns their delegated phases are served by the phase controller using native owner references, in ans by the one keeping ownership in the owners annotation (the multi-cluster constructor): every event - reconcile of a pair of controllers, workload status change, user pause / unpause / archive / delete, third-party delete, garbage collector - is applied to both halves; after every event the projections of the two halves (objects with their controller, revision, status; every PKO object's lifecycle, finalizers, conditions with reason and observedGeneration, revision, controllerOf, previous, remote phases) must be equal; plain (non-controller) owners are left out: former controllers stay in ownerReferences and are dropped from the annotation by design"
	}
	rep.Bounds["systems"] = len(scs)
	for i, sc := range scs {
		if o.Shards > 1 && i%o.Shards != o.Shard {
			continue
		}
		sys := System(sc)
		// (a lockstep state costs two passes and two projections; the thorough systems are cut at
		// this many states and reported as capped when they are larger)
		sys.MaxStates = 25000
		osw.RunBFS(rep, sys, map[string]any{"scenario": sc})
		rep.Samples = append(rep.Samples, map[string]any{"scenario": sc, "example_path": []string{"reconcile:ObjectSet/r1", "workload:Widget/a=ready", "reconcile:ObjectSet/r1", "user:pause:r1", "reconcile:ObjectSet/r1"}})
	}
	return rep
}

// Replay replays a violation of Run.
func Replay(v report.Violation) string {
	var sc Scenario
	if err := checks.Decode(v.Params["scenario"], &sc); err != nil {
		return err.Error()
	}
	return osw.ReplayBFS(System(sc), v)
}

// Sub is the registration of the lockstep sub for property prop.
func Sub(prop string, scenarios func(quick bool) []Scenario) *checks.Sub {
	return &checks.Sub{Name: "cluster-twin", Shards: func(t string) int { return len(scenarios(t != "thorough")) },
		Run:    func(o checks.Opts) *report.Report { return Run(prop, scenarios(o.Quick()), o) },
		Replay: Replay, Parallel: true}
}

// StrategySub is the registration of the native-vs-annotation owner strategy lockstep sub.
func StrategySub(prop string, scenarios func(quick bool) []Scenario) *checks.Sub {
	return &checks.Sub{Name: "strategy-twin", Shards: func(t string) int { return len(scenarios(t != "thorough")) },
		Run:    func(o checks.Opts) *report.Report { return runNamed("strategy-twin", prop, scenarios(o.Quick()), o) },
		Replay: Replay, Parallel: true}
}
