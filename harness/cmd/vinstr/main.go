// vinstr generates a `go build -overlay` directory from /repo's working tree:
//   - "sync" -> shim, go statements -> vsched.Go, channel types/ops -> vsched.Chan
//     in the listed files (syntactic rewrite; anything it cannot translate is a
//     hard error, never a silent skip);
//   - files added to PKO packages (accessors/constructors for the harness);
//   - optionally one catalogue mutation (for detection demos) applied first.
package main

import (
	"bytes"
	"encoding/json"
	"flag"
	"fmt"
	"go/ast"
	"go/format"
	"go/parser"
	"go/token"
	"os"
	"path/filepath"
	"strconv"
	"strings"

	"go/types"

	"golang.org/x/tools/go/ast/astutil"
	"golang.org/x/tools/go/packages"
)

const (
	shimSync  = "package-operator.run/internal/packages/zzverif/vsched/vsync"
	shimSched = "package-operator.run/internal/packages/zzverif/vsched"
	shimOrder = "package-operator.run/internal/packages/zzverif/vorder"
)

type config struct {
	// files whose sync/go/chan constructs are rewritten
	Concurrency []string `json:"concurrency"`
	// files in which `range` over the named map expressions is routed through vorder
	MapRange map[string][]string `json:"mapRange"`
	// packages (import paths) in whose non-test files EVERY `range` over a map-typed expression is
	// routed through vorder; the sites are found by type-checking the current (possibly mutated)
	// source, so refactorings that rename or add map ranges are still covered
	MapRangeAuto []string `json:"mapRangeAuto"`
	// dst (relative to repo) -> src (relative to verif/harness/hooks)
	Add map[string]string `json:"add"`
}

type mutation struct {
	ID   string `json:"id"`
	File string `json:"file"`
	Old  string `json:"old"`
	New  string `json:"new"`
}

func fatal(code int, f string, a ...any) {
	fmt.Fprintf(os.Stderr, "vinstr: "+f+"\n", a...)
	os.Exit(code)
}

func main() {
	repo := flag.String("repo", "/repo", "repository root")
	out := flag.String("out", "/verif/.work/overlay", "overlay output dir")
	cfgPath := flag.String("config", "/verif/harness/hooks/vinstr.json", "config")
	hooks := flag.String("hooks", "/verif/harness/hooks", "dir with files to add")
	mutID := flag.String("mutate", "", "catalogue mutation id(s) to apply, comma separated")
	cat := flag.String("catalogue", "/verif/mutations/catalogue.json", "mutation catalogue")
	flag.Parse()

	var cfg config
	b, err := os.ReadFile(*cfgPath)
	if err != nil {
		fatal(2, "%v", err)
	}
	if err := json.Unmarshal(b, &cfg); err != nil {
		fatal(2, "config: %v", err)
	}
	if err := os.RemoveAll(*out); err != nil {
		fatal(2, "%v", err)
	}
	if err := os.MkdirAll(*out, 0o755); err != nil {
		fatal(2, "%v", err)
	}

	// file -> current content (after mutation)
	content := map[string][]byte{}
	load := func(rel string) []byte {
		if c, ok := content[rel]; ok {
			return c
		}
		c, err := os.ReadFile(filepath.Join(*repo, rel))
		if err != nil {
			fatal(2, "%v", err)
		}
		content[rel] = c
		return c
	}
	touched := map[string]bool{}
	if *mutID != "" {
		var c struct {
			Mutations []mutation `json:"mutations"`
		}
		b, err := os.ReadFile(*cat)
		if err != nil {
			fatal(2, "%v", err)
		}
		if err := json.Unmarshal(b, &c); err != nil {
			fatal(2, "catalogue: %v", err)
		}
		for _, id := range strings.Split(*mutID, ",") {
			found := false
			for _, m := range c.Mutations {
				if m.ID != id {
					continue
				}
				found = true
				src := load(m.File)
				if n := bytes.Count(src, []byte(m.Old)); n != 1 {
					fatal(2, "mutation %s: old text occurs %d times in %s", id, n, m.File)
				}
				content[m.File] = bytes.Replace(src, []byte(m.Old), []byte(m.New), 1)
				touched[m.File] = true
			}
			if !found {
				fatal(2, "mutation %s not in catalogue", id)
			}
		}
	}

	for _, rel := range cfg.Concurrency {
		src := load(rel)
		res, err := rewriteConcurrency(rel, src)
		if err != nil {
			fatal(2, "%s: %v", rel, err)
		}
		content[rel] = res
		touched[rel] = true
	}
	if len(cfg.MapRangeAuto) > 0 {
		auto, err := findMapRanges(*repo, cfg.MapRangeAuto, content)
		if err != nil {
			fatal(2, "map range discovery: %v", err)
		}
		if cfg.MapRange == nil {
			cfg.MapRange = map[string][]string{}
		}
		for rel, exprs := range auto {
			have := map[string]bool{}
			for _, e := range cfg.MapRange[rel] {
				have[strings.TrimPrefix(e, "any:")] = true
			}
			for _, e := range exprs {
				if !have[strings.TrimPrefix(e, "any:")] {
					cfg.MapRange[rel] = append(cfg.MapRange[rel], e)
				}
			}
		}
	}
	for rel, exprs := range cfg.MapRange {
		src := load(rel)
		if prev, ok := content[rel]; ok {
			src = prev // already rewritten for concurrency: chain
		}
		res, err := rewriteMapRange(rel, src, exprs)
		if err != nil {
			fatal(2, "%s: %v", rel, err)
		}
		content[rel] = res
		touched[rel] = true
	}

	replace := map[string]string{}
	i := 0
	for rel := range touched {
		dst := filepath.Join(*out, fmt.Sprintf("f%03d_%s", i, strings.ReplaceAll(rel, "/", "_")))
		i++
		if err := os.WriteFile(dst, content[rel], 0o644); err != nil {
			fatal(2, "%v", err)
		}
		replace[filepath.Join(*repo, rel)] = dst
	}
	for dstRel, srcRel := range cfg.Add {
		replace[filepath.Join(*repo, dstRel)] = filepath.Join(*hooks, srcRel)
	}
	ov, _ := json.MarshalIndent(map[string]any{"Replace": replace}, "", " ")
	if err := os.WriteFile(filepath.Join(*out, "overlay.json"), ov, 0o644); err != nil {
		fatal(2, "%v", err)
	}
}

func sel(pkg, name string) *ast.SelectorExpr {
	return &ast.SelectorExpr{X: ast.NewIdent(pkg), Sel: ast.NewIdent(name)}
}

func chanType(elem ast.Expr) ast.Expr {
	return &ast.StarExpr{X: &ast.IndexExpr{X: sel("vsched", "Chan"), Index: elem}}
}

func rewriteConcurrency(name string, src []byte) ([]byte, error) {
	fset := token.NewFileSet()
	f, err := parser.ParseFile(fset, name, src, parser.ParseComments)
	if err != nil {
		return nil, err
	}
	needSched := false
	var rerr error
	tmp := 0
	astutil.Apply(f, func(c *astutil.Cursor) bool {
		switch n := c.Node().(type) {
		case *ast.RangeStmt:
			if _, ok := n.X.(*ast.UnaryExpr); ok {
				rerr = fmt.Errorf("%s: range over channel receive cannot be translated", fset.Position(n.Pos()))
			}
		}
		return true
	}, func(c *astutil.Cursor) bool {
		switch n := c.Node().(type) {
		case *ast.ChanType:
			needSched = true
			c.Replace(chanType(n.Value))
		case *ast.SendStmt:
			needSched = true
			c.Replace(&ast.ExprStmt{X: &ast.CallExpr{
				Fun:  &ast.SelectorExpr{X: n.Chan, Sel: ast.NewIdent("Send")},
				Args: []ast.Expr{n.Value},
			}})
		case *ast.UnaryExpr:
			if n.Op == token.ARROW {
				needSched = true
				if isDoneCall(n.X) {
					c.Replace(&ast.CallExpr{Fun: sel("vsched", "WaitDone"), Args: []ast.Expr{n.X}})
				} else {
					c.Replace(&ast.CallExpr{Fun: &ast.SelectorExpr{X: n.X, Sel: ast.NewIdent("Recv")}})
				}
			}
		case *ast.CallExpr:
			if id, ok := n.Fun.(*ast.Ident); ok && id.Name == "make" && len(n.Args) >= 1 {
				// the ChanType child has already been replaced (post-order)
				if st, ok := n.Args[0].(*ast.StarExpr); ok {
					if ix, ok := st.X.(*ast.IndexExpr); ok {
						if s, ok := ix.X.(*ast.SelectorExpr); ok && s.Sel.Name == "Chan" {
							c.Replace(&ast.CallExpr{
								Fun:  &ast.IndexExpr{X: sel("vsched", "MakeChan"), Index: ix.Index},
								Args: n.Args[1:],
							})
						}
					}
				}
			}
			if id, ok := n.Fun.(*ast.Ident); ok && id.Name == "close" && len(n.Args) == 1 {
				needSched = true
				c.Replace(&ast.CallExpr{Fun: sel("vsched", "Close"), Args: n.Args})
			}
		case *ast.SelectStmt:
			// post-order: the clauses' sends / receives have already been rewritten into calls
			repl, err := translateSelect(fset, n, &tmp)
			if err != nil {
				rerr = err
				return true
			}
			needSched = true
			c.Replace(repl)
		case *ast.GoStmt:
			needSched = true
			var stmts []ast.Stmt
			call := *n.Call
			args := make([]ast.Expr, len(call.Args))
			for i, a := range call.Args {
				id := ast.NewIdent("vgoarg" + strconv.Itoa(tmp))
				tmp++
				stmts = append(stmts, &ast.AssignStmt{Lhs: []ast.Expr{id}, Tok: token.DEFINE, Rhs: []ast.Expr{a}})
				args[i] = id
			}
			call.Args = args
			stmts = append(stmts, &ast.ExprStmt{X: &ast.CallExpr{
				Fun: sel("vsched", "Go"),
				Args: []ast.Expr{&ast.FuncLit{
					Type: &ast.FuncType{Params: &ast.FieldList{}},
					Body: &ast.BlockStmt{List: []ast.Stmt{&ast.ExprStmt{X: &call}}},
				}},
			}})
			c.Replace(&ast.BlockStmt{List: stmts})
		}
		return true
	})
	if rerr != nil {
		return nil, rerr
	}
	// import rewrite
	for _, im := range f.Imports {
		if im.Path.Value == `"sync"` {
			im.Path.Value = strconv.Quote(shimSync)
			im.Name = ast.NewIdent("sync")
		}
	}
	if needSched {
		astutil.AddNamedImport(fset, f, "vsched", shimSched)
	}
	var buf bytes.Buffer
	if err := format.Node(&buf, fset, f); err != nil {
		return nil, err
	}
	return buf.Bytes(), nil
}

// findMapRanges type-checks the given packages of repo (with the current, possibly mutated,
// content as overlay) and returns, per file (relative path), the textual range expressions
// whose type is a map ("any:" prefix when the key type is not ordered). An expression text that
// is ranged over both as a map and as something else in one file is an error.
func findMapRanges(repo string, pkgs []string, content map[string][]byte) (map[string][]string, error) {
	overlay := map[string][]byte{}
	for rel, c := range content {
		overlay[filepath.Join(repo, rel)] = c
	}
	env := []string{}
	for _, e := range os.Environ() {
		if strings.HasPrefix(e, "GOFLAGS=") || strings.HasPrefix(e, "GOWORK=") || strings.HasPrefix(e, "GOTOOLCHAIN=") || strings.HasPrefix(e, "GOSUMDB=") {
			continue
		}
		env = append(env, e)
	}
	env = append(env, "GOPROXY=off") // as the repository's own test suite is run
	cfg := &packages.Config{
		Mode: packages.NeedName | packages.NeedFiles | packages.NeedSyntax | packages.NeedTypes | packages.NeedTypesInfo | packages.NeedCompiledGoFiles,
		Dir:  repo, Env: env, Overlay: overlay,
	}
	loaded, err := packages.Load(cfg, pkgs...)
	if err != nil {
		return nil, err
	}
	out := map[string][]string{}
	for _, p := range loaded {
		if len(p.Errors) > 0 {
			return nil, fmt.Errorf("%s: %v", p.PkgPath, p.Errors[0])
		}
		for i, f := range p.Syntax {
			file := p.CompiledGoFiles[i]
			rel, err := filepath.Rel(repo, file)
			if err != nil || strings.HasPrefix(rel, "..") || strings.HasSuffix(rel, "_test.go") {
				continue
			}
			isMap := map[string]string{} // expr text -> "" | "any:"
			other := map[string]bool{}
			ast.Inspect(f, func(n ast.Node) bool {
				rs, ok := n.(*ast.RangeStmt)
				if !ok {
					return true
				}
				var eb bytes.Buffer
				_ = format.Node(&eb, p.Fset, rs.X)
				tv, ok := p.TypesInfo.Types[rs.X]
				if !ok {
					return true
				}
				m, ok := tv.Type.Underlying().(*types.Map)
				if !ok {
					other[eb.String()] = true
					return true
				}
				prefix := "any:"
				if b, ok := m.Key().Underlying().(*types.Basic); ok && b.Info()&types.IsOrdered != 0 {
					prefix = ""
				}
				isMap[eb.String()] = prefix
				return true
			})
			for e, prefix := range isMap {
				if other[e] {
					return nil, fmt.Errorf("%s: %q is ranged over as a map and as a non-map", rel, e)
				}
				out[rel] = append(out[rel], prefix+e)
			}
		}
	}
	return out, nil
}

// isDoneCall: x.Done() - a real channel from another package (context), not a shim channel.
func isDoneCall(e ast.Expr) bool {
	c, ok := e.(*ast.CallExpr)
	if !ok || len(c.Args) != 0 {
		return false
	}
	s, ok := c.Fun.(*ast.SelectorExpr)
	return ok && s.Sel.Name == "Done"
}

// commOp classifies an already rewritten communication: ch.Send(v), ch.Recv(), vsched.WaitDone(ch).
func commOp(e ast.Expr) (op string, ch ast.Expr, val ast.Expr) {
	c, ok := e.(*ast.CallExpr)
	if !ok {
		return "", nil, nil
	}
	if s, ok := c.Fun.(*ast.SelectorExpr); ok {
		if x, ok := s.X.(*ast.Ident); ok && x.Name == "vsched" && s.Sel.Name == "WaitDone" && len(c.Args) == 1 {
			return "done", c.Args[0], nil
		}
		switch {
		case s.Sel.Name == "Send" && len(c.Args) == 1:
			return "send", s.X, c.Args[0]
		case s.Sel.Name == "Recv" && len(c.Args) == 0:
			return "recv", s.X, nil
		}
	}
	return "", nil, nil
}

// translateSelect turns a select statement over shim channels (and context done-channels) into
//
//	{ c0 := vsched.RecvCaseOf(ch); c1 := vsched.DoneCase(ctx.Done()); c2 := vsched.SendCaseOf(ch2, v)
//	  switch vsched.Select(hasDefault, c0, c1, c2) { case 0: v := c0.V; ...; case 1: ...; default: ... } }
func translateSelect(fset *token.FileSet, n *ast.SelectStmt, tmp *int) (ast.Stmt, error) {
	var decls []ast.Stmt
	var args []ast.Expr
	var clauses []ast.Stmt
	hasDefault := false
	for _, cs := range n.Body.List {
		cc := cs.(*ast.CommClause)
		if cc.Comm == nil {
			hasDefault = true
			clauses = append(clauses, &ast.CaseClause{Body: cc.Body})
			continue
		}
		id := ast.NewIdent("vselcase" + strconv.Itoa(*tmp))
		*tmp++
		idx := len(args)
		var pre []ast.Stmt
		mk := func(fn string, a ...ast.Expr) {
			decls = append(decls, &ast.AssignStmt{Lhs: []ast.Expr{id}, Tok: token.DEFINE, Rhs: []ast.Expr{&ast.CallExpr{Fun: sel("vsched", fn), Args: a}}})
		}
		switch cm := cc.Comm.(type) {
		case *ast.ExprStmt:
			switch op, ch, val := commOp(cm.X); op {
			case "send":
				mk("SendCaseOf", ch, val)
			case "recv":
				mk("RecvCaseOf", ch)
			case "done":
				mk("DoneCase", ch)
			default:
				return nil, fmt.Errorf("%s: unsupported select clause", fset.Position(cc.Pos()))
			}
		case *ast.AssignStmt:
			op, ch, _ := commOp(cm.Rhs[0])
			if op != "recv" || len(cm.Rhs) != 1 {
				return nil, fmt.Errorf("%s: unsupported select clause", fset.Position(cc.Pos()))
			}
			mk("RecvCaseOf", ch)
			rhs := []ast.Expr{&ast.SelectorExpr{X: id, Sel: ast.NewIdent("V")}}
			if len(cm.Lhs) == 2 {
				rhs = append(rhs, &ast.SelectorExpr{X: id, Sel: ast.NewIdent("OK")})
			}
			pre = append(pre, &ast.AssignStmt{Lhs: cm.Lhs, Tok: cm.Tok, Rhs: rhs})
			if cm.Tok == token.DEFINE {
				for _, l := range cm.Lhs {
					if lid, ok := l.(*ast.Ident); ok && lid.Name != "_" {
						pre = append(pre, &ast.AssignStmt{Lhs: []ast.Expr{ast.NewIdent("_")}, Tok: token.ASSIGN, Rhs: []ast.Expr{ast.NewIdent(lid.Name)}})
					}
				}
			}
		default:
			return nil, fmt.Errorf("%s: unsupported select clause", fset.Position(cc.Pos()))
		}
		args = append(args, id)
		clauses = append(clauses, &ast.CaseClause{List: []ast.Expr{&ast.BasicLit{Kind: token.INT, Value: strconv.Itoa(idx)}}, Body: append(pre, cc.Body...)})
	}
	hd := "false"
	if hasDefault {
		hd = "true"
	} else {
		// keeps the statement terminating where the select was (a select without default whose
		// clauses all return ends a function)
		clauses = append(clauses, &ast.CaseClause{Body: []ast.Stmt{&ast.ExprStmt{X: &ast.CallExpr{Fun: ast.NewIdent("panic"), Args: []ast.Expr{&ast.BasicLit{Kind: token.STRING, Value: `"vsched: select returned no clause"`}}}}}})
	}
	call := &ast.CallExpr{Fun: sel("vsched", "Select"), Args: append([]ast.Expr{ast.NewIdent(hd)}, args...)}
	sw := &ast.SwitchStmt{Tag: call, Body: &ast.BlockStmt{List: clauses}}
	return &ast.BlockStmt{List: append(decls, sw)}, nil
}

// rewriteMapRange turns `for k, v := range <expr>` (expr textually one of exprs)
// into an iteration over vorder.Keys(<expr>, site).
func rewriteMapRange(name string, src []byte, exprs []string) ([]byte, error) {
	fset := token.NewFileSet()
	f, err := parser.ParseFile(fset, name, src, parser.ParseComments)
	if err != nil {
		return nil, err
	}
	// an expression prefixed "any:" has a non-ordered key type and goes through vorder.KeysAny
	want := map[string]bool{}
	anyKey := map[string]bool{}
	for _, e := range exprs {
		if strings.HasPrefix(e, "any:") {
			e = strings.TrimPrefix(e, "any:")
			anyKey[e] = true
		}
		want[e] = true
	}
	found := map[string]int{}
	astutil.Apply(f, nil, func(c *astutil.Cursor) bool {
		rs, ok := c.Node().(*ast.RangeStmt)
		if !ok {
			return true
		}
		var eb bytes.Buffer
		_ = format.Node(&eb, fset, rs.X)
		et := eb.String()
		if !want[et] {
			return true
		}
		found[et]++
		site := fmt.Sprintf("%s:%d", filepath.Base(name), fset.Position(rs.Pos()).Line)
		keyIdent := ast.NewIdent("vkey")
		if rs.Key != nil {
			if id, ok := rs.Key.(*ast.Ident); ok && id.Name != "_" {
				keyIdent = ast.NewIdent(id.Name)
			}
		}
		body := rs.Body
		if rs.Value != nil {
			if id, ok := rs.Value.(*ast.Ident); !ok || id.Name != "_" {
				assign := &ast.AssignStmt{
					Lhs: []ast.Expr{rs.Value}, Tok: rs.Tok,
					Rhs: []ast.Expr{&ast.IndexExpr{X: rs.X, Index: keyIdent}},
				}
				use := &ast.AssignStmt{Lhs: []ast.Expr{ast.NewIdent("_")}, Tok: token.ASSIGN, Rhs: []ast.Expr{rs.Value}}
				body = &ast.BlockStmt{List: append([]ast.Stmt{assign, use}, rs.Body.List...)}
			}
		}
		tok := token.DEFINE
		if rs.Tok == token.ASSIGN && rs.Key != nil {
			tok = token.ASSIGN
		}
		c.Replace(&ast.RangeStmt{
			Key: ast.NewIdent("_"), Value: keyIdent, Tok: tok,
			X: &ast.CallExpr{Fun: sel("vorder", map[bool]string{false: "Keys", true: "KeysAny"}[anyKey[et]]), Args: []ast.Expr{
				rs.X, &ast.BasicLit{Kind: token.STRING, Value: strconv.Quote(site)},
			}},
			Body: body,
		})
		return true
	})
	for e := range want {
		if found[e] == 0 {
			return nil, fmt.Errorf("map range site %q not found", e)
		}
	}
	astutil.AddNamedImport(fset, f, "vorder", shimOrder)
	var buf bytes.Buffer
	if err := format.Node(&buf, fset, f); err != nil {
		return nil, err
	}
	return buf.Bytes(), nil
}
