// worker is both the coordinator (`worker run <id>`) and the shard process
// (`worker shard <id> <sub>`) of every check. It is rebuilt from /repo's working
// tree (through the overlay) by /verif/check before every run.
package main

import (
	"bytes"
	"context"
	"crypto/sha256"
	"encoding/json"
	"flag"
	"fmt"
	"os"
	"os/exec"
	"path/filepath"
	"runtime"
	"runtime/debug"
	"sort"
	"strconv"
	"strings"
	"sync"
	"time"

	"package-operator.run/internal/packages/zzverif/checks"
	_ "package-operator.run/internal/packages/zzverif/checks/all"
	"package-operator.run/internal/packages/zzverif/report"
	"package-operator.run/internal/packages/zzverif/world"
)

const verifDir = "/verif"

type knownFinding struct {
	Property    string `json:"property"`
	Identity    string `json:"identity"`
	Description string `json:"description"`
}

type knownFile struct {
	Known []knownFinding `json:"known"`
	Fixed []string       `json:"fixed"`
}

func main() {
	if len(os.Args) < 3 {
		fmt.Fprintln(os.Stderr, "usage: worker run|shard|replay <id> ...")
		os.Exit(2)
	}
	switch os.Args[1] {
	case "run":
		os.Exit(runCheck(os.Args[2], os.Args[3:]))
	case "shard":
		os.Exit(runShard(os.Args[2], os.Args[3:]))
	case "replay":
		os.Exit(runReplay(os.Args[2], os.Args[3:]))
	case "list":
		for id := range checks.Registry {
			fmt.Println(id)
		}
	default:
		fmt.Fprintln(os.Stderr, "unknown command")
		os.Exit(2)
	}
}

func runShard(id string, args []string) int {
	debug.SetMaxStack(256 << 20) // unbounded recursion in the code under test dies quickly, not after 1 GB
	fs := flag.NewFlagSet("shard", flag.ExitOnError)
	tier := fs.String("tier", "quick", "")
	sub := fs.String("sub", "", "")
	shard := fs.Int("shard", 0, "")
	shards := fs.Int("shards", 1, "")
	seed := fs.Int64("seed", 0, "")
	_ = fs.Parse(args)
	c := checks.Registry[id]
	if c == nil {
		fmt.Fprintln(os.Stderr, "no such check", id)
		return 2
	}
	known := loadKnown()
	world.Tolerated = func(identity string) bool { return matchKnown(known, id, identity) != nil }
	for _, s := range c.Subs {
		if s.Name == *sub {
			r := s.Run(checks.Opts{Tier: *tier, Shard: *shard, Shards: *shards, Seed: *seed})
			r.Property, r.Sub = id, s.Name
			for i := range r.Violations {
				r.Violations[i].Property, r.Violations[i].Sub = id, s.Name
			}
			b, _ := json.Marshal(r)
			os.Stdout.Write(b)
			return 0
		}
	}
	fmt.Fprintln(os.Stderr, "no such sub", *sub)
	return 2
}

func runReplay(id string, args []string) int {
	fs := flag.NewFlagSet("replay", flag.ExitOnError)
	file := fs.String("file", "", "")
	_ = fs.Parse(args)
	b, err := os.ReadFile(*file)
	if err != nil {
		fmt.Fprintln(os.Stderr, err)
		return 2
	}
	var v report.Violation
	if err := json.Unmarshal(b, &v); err != nil {
		fmt.Fprintln(os.Stderr, err)
		return 2
	}
	c := checks.Registry[id]
	if c == nil {
		return 2
	}
	for _, s := range c.Subs {
		if s.Name == v.Sub {
			if s.Replay == nil {
				fmt.Println("sub has no replay function")
				return 2
			}
			msg := s.Replay(v)
			if msg != "" {
				fmt.Printf("replay reproduces: %s\n", msg)
				fmt.Printf("VIOLATION property=%s replay=%s\n", id, *file)
				return 1
			}
			fmt.Println("replay passes (no violation)")
			return 0
		}
	}
	return 2
}

type job struct {
	sub    *checks.Sub
	shard  int
	shards int
}

func runCheck(id string, args []string) int {
	fs := flag.NewFlagSet("run", flag.ExitOnError)
	tier := fs.String("tier", "quick", "")
	only := fs.String("sub", "", "run only this sub (debugging; evidence is still written)")
	noEvidence := fs.Bool("no-evidence", false, "")
	_ = fs.Parse(args)
	if t := os.Getenv("VERIF_TIER"); t != "" && *tier == "" {
		*tier = t
	}
	seed, _ := strconv.ParseInt(os.Getenv("VERIF_SEED"), 10, 64)
	c := checks.Registry[id]
	if c == nil {
		fmt.Fprintln(os.Stderr, "no such check", id)
		return 2
	}
	start := time.Now()
	self, _ := os.Executable()
	raceBin := filepath.Join(filepath.Dir(self), "worker-race")

	var jobs []job
	for _, s := range c.Subs {
		if *only != "" && s.Name != *only {
			continue
		}
		n := 1
		if s.Shards != nil {
			n = s.Shards(*tier)
		}
		for k := 0; k < n; k++ {
			jobs = append(jobs, job{s, k, n})
		}
	}
	results := make([]*report.Report, len(jobs))
	errs := make([]string, len(jobs))
	sem := make(chan struct{}, runtime.NumCPU())
	var wg sync.WaitGroup
	for i, j := range jobs {
		wg.Add(1)
		go func(i int, j job) {
			defer wg.Done()
			sem <- struct{}{}
			defer func() { <-sem }()
			bin := self
			env := append(os.Environ(), "GOMAXPROCS=1", "GOMEMLIMIT=3GiB")
			if j.sub.Parallel {
				env = append(os.Environ(), "GOMAXPROCS=6", "GOMEMLIMIT=6GiB")
			}
			if j.sub.Race {
				bin = raceBin
				env = append(os.Environ(), "GORACE=halt_on_error=1 exitcode=66")
			}
			limit := 25 * time.Minute
			if *tier == "thorough" {
				limit = 8 * time.Hour
			}
			cctx, cancel := context.WithTimeout(context.Background(), limit)
			defer cancel()
			cmd := exec.CommandContext(cctx, bin, "shard", id, "--sub", j.sub.Name, "--tier", *tier,
				"--shard", strconv.Itoa(j.shard), "--shards", strconv.Itoa(j.shards), "--seed", strconv.FormatInt(seed, 10))
			cmd.Env = env
			var out, errb bytes.Buffer
			cmd.Stdout, cmd.Stderr = &out, &errb
			err := cmd.Run()
			if err != nil {
				code := -1
				if ee, ok := err.(*exec.ExitError); ok {
					code = ee.ExitCode()
				}
				if j.sub.Race && code == 66 {
					r := report.New(id, j.sub.Name)
					r.Executions = 1
					r.AddViolation(report.Violation{Identity: "data-race", Message: "data race reported by the race detector:\n" + tail(errb.String(), 4000)})
					results[i] = r
					return
				}
				if j.sub.CrashIsViolation && strings.Contains(errb.String(), "fatal error:") {
					es := errb.String()
					input := "(unknown)"
					if k := strings.LastIndex(es, "CURRENT-INPUT: "); k >= 0 {
						input = strings.SplitN(es[k+len("CURRENT-INPUT: "):], "\n", 2)[0]
					}
					fatal := es[strings.Index(es, "fatal error:"):]
					r := report.New(id, j.sub.Name)
					r.Executions = 1
					r.AddViolation(report.Violation{Identity: "process-crash " + strings.SplitN(fatal, "\n", 2)[0], Message: "the process died with a Go runtime fatal error while handling input " + input + ":\n" + head(fatal, 1500), Params: map[string]any{"input": input}})
					results[i] = r
					return
				}
				errs[i] = fmt.Sprintf("sub %s shard %d: %v\n%s", j.sub.Name, j.shard, err, tail(errb.String(), 3000))
				return
			}
			var r report.Report
			if err := json.Unmarshal(out.Bytes(), &r); err != nil {
				errs[i] = fmt.Sprintf("sub %s shard %d: bad report: %v\n%s", j.sub.Name, j.shard, err, tail(out.String(), 1000))
				return
			}
			results[i] = &r
		}(i, j)
	}
	wg.Wait()

	// merge per sub
	merged := map[string]*report.Report{}
	var order []string
	fault := ""
	for i, j := range jobs {
		if errs[i] != "" {
			fault += errs[i] + "\n"
			continue
		}
		r := results[i]
		if m, ok := merged[j.sub.Name]; ok {
			m.Merge(r)
		} else {
			merged[j.sub.Name] = r
			order = append(order, j.sub.Name)
		}
		if r.Fault != "" {
			fault += fmt.Sprintf("sub %s: %s\n", j.sub.Name, r.Fault)
		}
	}
	if fault != "" {
		fmt.Fprintf(os.Stderr, "HARNESS FAULT property=%s\n%s", id, fault)
		return 2
	}

	known := loadKnown()
	exit := 0
	nviol := 0
	printedKnown := map[string]bool{}
	for _, name := range order {
		r := merged[name]
		for _, v := range r.Violations {
			if kf := matchKnown(known, id, v.Identity); kf != nil {
				if !printedKnown[kf.Identity] {
					fmt.Printf("KNOWN-FINDING: property=%s %s\n", id, kf.Description)
					printedKnown[kf.Identity] = true
				}
				continue
			}
			nviol++
			path := writeReplay(id, v)
			fmt.Printf("VIOLATION property=%s replay=%s\n", id, path)
			fmt.Printf("  sub=%s identity=%s\n  %s\n", v.Sub, v.Identity, strings.ReplaceAll(firstLines(v.Message, 12), "\n", "\n  "))
			exit = 1
		}
	}
	wall := time.Since(start).Seconds()
	if !*noEvidence {
		writeEvidence(c, *tier, seed, order, merged, wall, nviol)
	}
	for _, name := range order {
		r := merged[name]
		fmt.Printf("%s/%s: executions=%d transitions=%d states=%d outcomes=%d violations=%d exhaustive=%v bounds=%v\n",
			id, name, r.Executions, r.Transitions, r.States, len(r.Outcomes), r.NViolations, r.Exhaustive, r.Bounds)
	}
	fmt.Printf("%s: wall=%.1fs exit=%d\n", id, wall, exit)
	return exit
}

func head(s string, n int) string {
	if len(s) > n {
		return s[:n] + "..."
	}
	return s
}

func tail(s string, n int) string {
	if len(s) > n {
		return s[len(s)-n:]
	}
	return s
}

func firstLines(s string, n int) string {
	l := strings.Split(s, "\n")
	if len(l) > n {
		l = l[:n]
	}
	return strings.Join(l, "\n")
}

func loadKnown() *knownFile {
	var k knownFile
	b, err := os.ReadFile(filepath.Join(verifDir, "known-findings.json"))
	if err == nil {
		_ = json.Unmarshal(b, &k)
	}
	return &k
}

func matchKnown(k *knownFile, prop, identity string) *knownFinding {
	for i := range k.Known {
		if k.Known[i].Property == prop && k.Known[i].Identity == identity {
			return &k.Known[i]
		}
	}
	return nil
}

func writeReplay(id string, v report.Violation) string {
	b, _ := json.MarshalIndent(v, "", " ")
	h := sha256.Sum256(b)
	dir := filepath.Join(verifDir, "replays")
	_ = os.MkdirAll(dir, 0o755)
	p := filepath.Join(dir, fmt.Sprintf("%s-%x.json", id, h[:5]))
	_ = os.WriteFile(p, b, 0o644)
	return p
}

func writeEvidence(c *checks.Check, tier string, seed int64, order []string, merged map[string]*report.Report, wall float64, nviol int) {
	var execs, trans, states, impl int64
	outcomes := map[string]bool{}
	exhaustive := true
	var caps []string
	var samples []any
	var rules []string
	assumptions := append([]string{}, c.Assumptions...)
	subs := map[string]any{}
	for _, name := range order {
		r := merged[name]
		execs += r.Executions
		trans += r.Transitions
		states += r.States
		impl += r.ImplTraces
		for k := range r.Outcomes {
			outcomes[name+":"+k] = true
		}
		if aux, _ := r.Bounds["auxiliary"].(bool); !aux {
			exhaustive = exhaustive && r.Exhaustive
		}
		for _, ch := range r.CapsHit {
			caps = append(caps, name+": "+ch)
		}
		for i, s := range r.Samples {
			if i < 3 {
				samples = append(samples, map[string]any{"sub": name, "case": s})
			}
		}
		if r.Rule != "" {
			rules = append(rules, name+": "+r.Rule)
		}
		for _, a := range r.Assumptions {
			assumptions = append(assumptions, a)
		}
		subs[name] = map[string]any{
			"executions": r.Executions, "transitions": r.Transitions, "states": r.States,
			"distinct_outcomes": len(r.Outcomes), "bounds": r.Bounds, "exhaustive": r.Exhaustive,
			"monitor_antecedents": r.Monitors, "violations": r.NViolations, "caps_hit": r.CapsHit,
		}
	}
	if states == 0 {
		states = execs
	}
	sort.Strings(caps)
	cov := map[string]any{
		"evaluations":                   execs,
		"distinct_nontrivial":           len(outcomes),
		"rule":                          strings.Join(rules, " | "),
		"samples":                       samples,
		"states":                        states,
		"transitions":                   trans,
		"traces_validated_against_impl": impl,
		"exhaustive":                    exhaustive,
		"caps_hit":                      caps,
		"subchecks":                     subs,
	}
	ev := map[string]any{
		"property_id": c.ID,
		"tier":        tier,
		"seed":        seed,
		"level":       c.Level,
		"coverage":    cov,
		"assumptions": assumptions,
		"wall_s":      wall,
		"violations":  nviol,
	}
	b, _ := json.MarshalIndent(ev, "", " ")
	dir := filepath.Join(verifDir, "evidence")
	_ = os.MkdirAll(dir, 0o755)
	_ = os.WriteFile(filepath.Join(dir, c.ID+".json"), b, 0o644)
}
