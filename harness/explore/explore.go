// Package explore is the choice-DFS core shared by all checks.
//
// A harness body asks a *Ctx for decisions (Choose). The core runs the body with
// a prefix of recorded choices and choice 0 afterwards, then explores every
// alternative at every later choice point, subject to a deviation budget:
// choice 0 is the default (free), any other choice at a point costs `cost`
// deviations (0 or 1). Executions always run to completion.
package explore

import (
	"fmt"
	"strings"
)

// PointInfo records one choice point of an execution.
type PointInfo struct {
	N     int    // number of alternatives offered
	Cost  int    // deviation cost of choosing an alternative != 0
	Label string // what was decided (checked on replay)
}

// Ctx is handed to the harness body.
type Ctx struct {
	prefix  []int
	labels  []string // expected labels for the prefix (may be nil)
	Choices []int
	Points  []PointInfo
	// Divergence is set when a replayed prefix met a different n/label.
	Divergence string
	// Log is a free-form observation log of the execution.
	Log []string
}

// Choose returns a decision in [0,n). cost is the deviation cost of any non-default
// alternative at this point.
func (c *Ctx) Choose(n int, cost int, label string) int {
	if n <= 0 {
		panic("explore: Choose with n<=0: " + label)
	}
	i := len(c.Choices)
	ch := 0
	if i < len(c.prefix) {
		ch = c.prefix[i]
		if ch >= n {
			c.Divergence = fmt.Sprintf("replay divergence at point %d (%s): recorded choice %d but only %d alternatives", i, label, ch, n)
			ch = 0
		}
		if c.labels != nil && i < len(c.labels) && c.labels[i] != label && c.Divergence == "" {
			c.Divergence = fmt.Sprintf("replay divergence at point %d: recorded label %q, now %q", i, c.labels[i], label)
		}
	}
	c.Choices = append(c.Choices, ch)
	c.Points = append(c.Points, PointInfo{N: n, Cost: cost, Label: label})
	return ch
}

// Logf appends to the observation log.
func (c *Ctx) Logf(format string, a ...any) {
	c.Log = append(c.Log, fmt.Sprintf(format, a...))
}

// Deviations returns the number of deviations spent in this execution.
func (c *Ctx) Deviations() int {
	d := 0
	for i, ch := range c.Choices {
		if ch != 0 {
			d += c.Points[i].Cost
		}
	}
	return d
}

// Body is one harness execution. It returns a violation message ("" = ok) and
// an outcome string used for the distinct-outcome count.
type Body func(c *Ctx) (violation string, outcome string)

// Violation is a failing execution.
type Violation struct {
	Choices []int
	Labels  []string
	Message string
	Log     []string
}

// Stats are the totals of an exploration.
type Stats struct {
	Executions  int64
	Points      int64 // choice points met in counted executions (transitions)
	MaxDepth    int
	Outcomes    map[string]int64
	Violations  []Violation
	NViolations int64
	Bound       int
	Capped      bool // stopped by MaxExec before completing
	Divergences []string
}

// Explorer configuration.
type Explorer struct {
	Bound     int   // deviation budget
	MaxExec   int64 // 0 = unlimited; reaching it sets Capped
	MaxViol   int   // stop collecting details after this many violations (default 5)
	Shard     int   // this worker's index
	Shards    int   // number of workers (<=1: no sharding)
	ShardLvl  int   // tree depth at which nodes are dealt to shards (default 1)
	StopFirst bool  // stop at first violation
	stats     *Stats
	body      Body
	nodeCtr   int64
	stop      bool
}

// RunOnce executes body with the given choices (replay).
func RunOnce(body Body, choices []int, labels []string) (*Ctx, string, string) {
	c := &Ctx{prefix: choices, labels: labels}
	v, o := body(c)
	return c, v, o
}

// Explore enumerates all executions within the bound.
func (e *Explorer) Explore(body Body) *Stats {
	e.body = body
	e.stats = &Stats{Outcomes: map[string]int64{}, Bound: e.Bound}
	if e.MaxViol == 0 {
		e.MaxViol = 5
	}
	if e.ShardLvl == 0 {
		e.ShardLvl = 1
	}
	e.node(nil, 0, true)
	return e.stats
}

// node runs the execution for prefix; depth is the tree depth (number of
// deviations-from-default edges taken, not choice depth). mine says whether this
// subtree belongs to this shard.
func (e *Explorer) node(prefix []int, depth int, mine bool) {
	if e.stop {
		return
	}
	sharded := e.Shards > 1
	counted := mine
	if sharded {
		if depth < e.ShardLvl {
			counted = e.Shard == 0
		} else if depth == e.ShardLvl {
			id := e.nodeCtr
			e.nodeCtr++
			mine = int(id%int64(e.Shards)) == e.Shard
			counted = mine
			if !mine {
				return
			}
		}
	}
	c := &Ctx{prefix: prefix}
	v, o := e.body(c)
	if c.Divergence != "" {
		e.stats.Divergences = append(e.stats.Divergences, c.Divergence)
		e.stop = true
		return
	}
	if counted {
		st := e.stats
		st.Executions++
		st.Points += int64(len(c.Points))
		if len(c.Points) > st.MaxDepth {
			st.MaxDepth = len(c.Points)
		}
		st.Outcomes[o]++
		if v != "" {
			st.NViolations++
			if len(st.Violations) < e.MaxViol {
				labels := make([]string, len(c.Points))
				for i, p := range c.Points {
					labels[i] = p.Label
				}
				st.Violations = append(st.Violations, Violation{
					Choices: append([]int{}, c.Choices...), Labels: labels, Message: v, Log: c.Log,
				})
			}
			if e.StopFirst {
				e.stop = true
				return
			}
		}
		if e.MaxExec > 0 && st.Executions >= e.MaxExec {
			st.Capped = true
			e.stop = true
			return
		}
	}
	// enumerate alternatives at later points
	dev := 0
	for i := 0; i < len(prefix) && i < len(c.Choices); i++ {
		if c.Choices[i] != 0 {
			dev += c.Points[i].Cost
		}
	}
	for i := len(prefix); i < len(c.Points); i++ {
		p := c.Points[i]
		if dev+p.Cost <= e.Bound {
			for alt := 1; alt < p.N; alt++ {
				np := make([]int, i+1)
				copy(np, c.Choices[:i])
				np[i] = alt
				e.node(np, depth+1, mine)
				if e.stop {
					return
				}
			}
		}
		// choices after len(prefix) are all 0 in this execution: no dev added
	}
}

// FormatChoices renders a choice list with labels.
func FormatChoices(choices []int, labels []string) string {
	var sb strings.Builder
	for i, ch := range choices {
		l := ""
		if i < len(labels) {
			l = labels[i]
		}
		fmt.Fprintf(&sb, "%3d: %d  %s\n", i, ch, l)
	}
	return sb.String()
}
