package explore

import (
	"fmt"
	"testing"
)

// A body with d binary choice points, every alternative costing 1: within bound b the explorer
// must run exactly sum_{i<=b} C(d,i) executions, each distinct.
func TestBoundedCounts(t *testing.T) {
	binom := func(n, k int) int {
		r := 1
		for i := 0; i < k; i++ {
			r = r * (n - i) / (i + 1)
		}
		return r
	}
	for d := 1; d <= 6; d++ {
		for b := 0; b <= d; b++ {
			seen := map[string]bool{}
			e := &Explorer{Bound: b}
			st := e.Explore(func(c *Ctx) (string, string) {
				s := ""
				for i := 0; i < d; i++ {
					s += fmt.Sprint(c.Choose(2, 1, fmt.Sprintf("p%d", i)))
				}
				seen[s] = true
				return "", s
			})
			want := 0
			for i := 0; i <= b; i++ {
				want += binom(d, i)
			}
			if int(st.Executions) != want || len(seen) != want || len(st.Outcomes) != want {
				t.Fatalf("d=%d b=%d: executions=%d distinct=%d want %d", d, b, st.Executions, len(seen), want)
			}
		}
	}
}

// Free choices (cost 0) are enumerated completely whatever the bound; the tree may depend on
// earlier choices.
func TestFreeChoicesAndDependentTree(t *testing.T) {
	e := &Explorer{Bound: 0}
	st := e.Explore(func(c *Ctx) (string, string) {
		a := c.Choose(3, 0, "a")
		s := fmt.Sprint(a)
		for i := 0; i < a; i++ { // a further points
			s += fmt.Sprint(c.Choose(2, 0, "b"))
		}
		return "", s
	})
	if st.Executions != 1+2+4 {
		t.Fatalf("executions=%d want 7", st.Executions)
	}
}

// Sharding partitions the executions: the union over shards equals the unsharded run.
func TestShardsPartition(t *testing.T) {
	body := func(c *Ctx) (string, string) {
		s := ""
		for i := 0; i < 5; i++ {
			s += fmt.Sprint(c.Choose(3, 1, "p"))
		}
		return "", s
	}
	full := (&Explorer{Bound: 2}).Explore(body)
	for _, lvl := range []int{1, 2} {
		union := map[string]int64{}
		var total int64
		for sh := 0; sh < 4; sh++ {
			st := (&Explorer{Bound: 2, Shards: 4, Shard: sh, ShardLvl: lvl}).Explore(body)
			total += st.Executions
			for k, v := range st.Outcomes {
				union[k] += v
			}
		}
		if total != full.Executions || len(union) != len(full.Outcomes) {
			t.Fatalf("level %d: shards ran %d executions / %d outcomes, unsharded %d / %d", lvl, total, len(union), full.Executions, len(full.Outcomes))
		}
		for k, v := range union {
			if v != 1 {
				t.Fatalf("outcome %s explored %d times", k, v)
			}
		}
	}
}

// A violation is reported with choices that replay to the same violation; a replay whose
// program changed is flagged as divergence.
func TestReplayAndDivergence(t *testing.T) {
	body := func(c *Ctx) (string, string) {
		x := c.Choose(2, 1, "x")
		y := c.Choose(3, 1, "y")
		if x == 1 && y == 2 {
			return "boom", "bad"
		}
		return "", "ok"
	}
	st := (&Explorer{Bound: 2}).Explore(body)
	if st.NViolations != 1 {
		t.Fatalf("violations=%d", st.NViolations)
	}
	v := st.Violations[0]
	_, msg, _ := RunOnce(body, v.Choices, v.Labels)
	if msg != "boom" {
		t.Fatalf("replay gave %q", msg)
	}
	if st1 := (&Explorer{Bound: 1}).Explore(body); st1.NViolations != 0 {
		t.Fatal("the violation needs two deviations and must not be found at bound 1")
	}
	changed := func(c *Ctx) (string, string) {
		c.Choose(2, 1, "x")
		c.Choose(2, 1, "z")
		return "", ""
	}
	c, _, _ := RunOnce(changed, v.Choices, v.Labels)
	if c.Divergence == "" {
		t.Fatal("replaying against a changed program must be reported as divergence")
	}
}
