module package-operator.run/internal/packages/zzverif

go 1.23.0

require (
	github.com/evanphx/json-patch/v5 v5.9.11
	github.com/go-logr/logr v1.4.2
	github.com/google/go-containerregistry v0.20.3
	golang.org/x/tools v0.32.0
	k8s.io/api v0.32.3
	k8s.io/apimachinery v0.32.3
	k8s.io/client-go v0.32.3
	package-operator.run v0.0.0
	package-operator.run/apis v1.17.1
	package-operator.run/pkg v1.17.1
	sigs.k8s.io/controller-runtime v0.20.4
	sigs.k8s.io/yaml v1.4.0
)

require (
	cel.dev/expr v0.23.1 // indirect
	dario.cat/mergo v1.0.1 // indirect
	github.com/Masterminds/goutils v1.1.1 // indirect
	github.com/Masterminds/semver/v3 v3.3.1 // indirect
	github.com/Masterminds/sprig/v3 v3.3.0 // indirect
	github.com/antlr4-go/antlr/v4 v4.13.1 // indirect
	github.com/asaskevich/govalidator v0.0.0-20230301143203-a9d515a09cc2 // indirect
	github.com/beorn7/perks v1.0.1 // indirect
	github.com/blang/semver/v4 v4.0.0 // indirect
	github.com/bmatcuk/doublestar v1.3.4 // indirect
	github.com/cenkalti/backoff/v4 v4.3.0 // indirect
	github.com/cespare/xxhash/v2 v2.3.0 // indirect
	github.com/containerd/stargz-snapshotter/estargz v0.16.3 // indirect
	github.com/davecgh/go-spew v1.1.2-0.20180830191138-d8f796af33cc // indirect
	github.com/docker/cli v28.0.4+incompatible // indirect
	github.com/docker/distribution v2.8.3+incompatible // indirect
	github.com/docker/docker-credential-helpers v0.9.3 // indirect
	github.com/emicklei/go-restful/v3 v3.12.2 // indirect
	github.com/felixge/httpsnoop v1.0.4 // indirect
	github.com/fsnotify/fsnotify v1.9.0 // indirect
	github.com/fxamacker/cbor/v2 v2.8.0 // indirect
	github.com/go-air/gini v1.0.4 // indirect
	github.com/go-logr/stdr v1.2.2 // indirect
	github.com/go-openapi/jsonpointer v0.21.1 // indirect
	github.com/go-openapi/jsonreference v0.21.0 // indirect
	github.com/go-openapi/swag v0.23.1 // indirect
	github.com/gobwas/glob v0.2.3 // indirect
	github.com/gogo/protobuf v1.3.2 // indirect
	github.com/golang/protobuf v1.5.4 // indirect
	github.com/google/btree v1.1.3 // indirect
	github.com/google/cel-go v0.22.1 // indirect
	github.com/google/gnostic-models v0.6.9 // indirect
	github.com/google/go-cmp v0.7.0 // indirect
	github.com/google/gofuzz v1.2.0 // indirect
	github.com/google/uuid v1.6.0 // indirect
	github.com/grpc-ecosystem/grpc-gateway/v2 v2.26.3 // indirect
	github.com/hashicorp/go-cleanhttp v0.5.2 // indirect
	github.com/hashicorp/go-retryablehttp v0.7.7 // indirect
	github.com/huandu/xstrings v1.5.0 // indirect
	github.com/joeycumines/go-dotnotation v0.0.0-20180131115956-2d3612e36c5d // indirect
	github.com/josharian/intern v1.0.0 // indirect
	github.com/json-iterator/go v1.1.12 // indirect
	github.com/klauspost/compress v1.18.0 // indirect
	github.com/mailru/easyjson v0.9.0 // indirect
	github.com/mitchellh/copystructure v1.2.0 // indirect
	github.com/mitchellh/go-homedir v1.1.0 // indirect
	github.com/mitchellh/reflectwalk v1.0.2 // indirect
	github.com/modern-go/concurrent v0.0.0-20180306012644-bacd9c7ef1dd // indirect
	github.com/modern-go/reflect2 v1.0.2 // indirect
	github.com/munnerz/goautoneg v0.0.0-20191010083416-a7dc8b61c822 // indirect
	github.com/opencontainers/go-digest v1.0.0 // indirect
	github.com/opencontainers/image-spec v1.1.1 // indirect
	github.com/openshift/api v0.0.0-20250320170726-75d64d71980b // indirect
	github.com/operator-framework/api v0.30.0 // indirect
	github.com/operator-framework/deppy v0.3.0 // indirect
	github.com/pkg/errors v0.9.1 // indirect
	github.com/pmezard/go-difflib v1.0.1-0.20181226105442-5d4384ee4fb2 // indirect
	github.com/prometheus/client_golang v1.22.0 // indirect
	github.com/prometheus/client_model v0.6.2 // indirect
	github.com/prometheus/common v0.63.0 // indirect
	github.com/prometheus/procfs v0.16.0 // indirect
	github.com/santhosh-tekuri/jsonschema/v5 v5.3.1 // indirect
	github.com/shopspring/decimal v1.4.0 // indirect
	github.com/sirupsen/logrus v1.9.3 // indirect
	github.com/spf13/cast v1.7.1 // indirect
	github.com/spf13/cobra v1.9.1 // indirect
	github.com/spf13/pflag v1.0.6 // indirect
	github.com/stoewer/go-strcase v1.3.0 // indirect
	github.com/stretchr/objx v0.5.2 // indirect
	github.com/stretchr/testify v1.10.0 // indirect
	github.com/vbatts/tar-split v0.12.1 // indirect
	github.com/x448/float16 v0.8.4 // indirect
	github.com/yannh/kubeconform v0.6.7 // indirect
	go.opentelemetry.io/auto/sdk v1.1.0 // indirect
	go.opentelemetry.io/contrib/instrumentation/net/http/otelhttp v0.60.0 // indirect
	go.opentelemetry.io/otel v1.35.0 // indirect
	go.opentelemetry.io/otel/exporters/otlp/otlptrace v1.35.0 // indirect
	go.opentelemetry.io/otel/exporters/otlp/otlptrace/otlptracegrpc v1.35.0 // indirect
	go.opentelemetry.io/otel/metric v1.35.0 // indirect
	go.opentelemetry.io/otel/sdk v1.35.0 // indirect
	go.opentelemetry.io/otel/trace v1.35.0 // indirect
	go.opentelemetry.io/proto/otlp v1.5.0 // indirect
	golang.org/x/crypto v0.37.0 // indirect
	golang.org/x/exp v0.0.0-20250305212735-054e65f0b394 // indirect
	golang.org/x/mod v0.24.0 // indirect
	golang.org/x/net v0.39.0 // indirect
	golang.org/x/oauth2 v0.29.0 // indirect
	golang.org/x/sync v0.13.0 // indirect
	golang.org/x/sys v0.32.0 // indirect
	golang.org/x/term v0.31.0 // indirect
	golang.org/x/text v0.24.0 // indirect
	golang.org/x/time v0.11.0 // indirect
	gomodules.xyz/jsonpatch/v2 v2.5.0 // indirect
	google.golang.org/genproto/googleapis/api v0.0.0-20250313205543-e70fdf4c4cb4 // indirect
	google.golang.org/genproto/googleapis/rpc v0.0.0-20250313205543-e70fdf4c4cb4 // indirect
	google.golang.org/grpc v1.71.1 // indirect
	google.golang.org/protobuf v1.36.6 // indirect
	gopkg.in/evanphx/json-patch.v4 v4.12.0 // indirect
	gopkg.in/inf.v0 v0.9.1 // indirect
	gopkg.in/yaml.v3 v3.0.1 // indirect
	k8s.io/apiextensions-apiserver v0.32.3 // indirect
	k8s.io/apiserver v0.32.3 // indirect
	k8s.io/component-base v0.32.3 // indirect
	k8s.io/klog/v2 v2.130.1 // indirect
	k8s.io/kube-openapi v0.0.0-20250318190949-c8a335a9a2ff // indirect
	k8s.io/utils v0.0.0-20241210054802-24370beab758 // indirect
	pkg.package-operator.run/boxcutter v0.1.0 // indirect
	pkg.package-operator.run/cardboard/kubeutils v0.0.4 // indirect
	pkg.package-operator.run/semver v0.0.0-20231211161337-aa8390953339 // indirect
	sigs.k8s.io/apiserver-network-proxy/konnectivity-client v0.32.0 // indirect
	sigs.k8s.io/json v0.0.0-20241014173422-cfa47c3a1cc8 // indirect
	sigs.k8s.io/randfill v1.0.0 // indirect
	sigs.k8s.io/structured-merge-diff/v4 v4.7.0 // indirect
)

replace (
	package-operator.run => /repo
	package-operator.run/apis => /repo/apis
	package-operator.run/pkg => /repo/pkg
)
