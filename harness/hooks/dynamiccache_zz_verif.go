package dynamiccache

import (
	"context"
	"sort"

	"k8s.io/apimachinery/pkg/runtime"
	"k8s.io/apimachinery/pkg/runtime/schema"
	"k8s.io/client-go/tools/cache"
	"sigs.k8s.io/controller-runtime/pkg/client"
)

// VerifInformerMap is the exported twin of informerMap (verification hook, overlay only).
type VerifInformerMap interface {
	Get(ctx context.Context, gvk schema.GroupVersionKind, obj runtime.Object) (cache.SharedIndexInformer, client.Reader, error)
	Delete(ctx context.Context, gvk schema.GroupVersionKind) error
}

// NewCacheForVerif builds a Cache around a scripted informer map and a real cacheSource,
// pre-populated with the given owner sets.
func NewCacheForVerif(
	scheme *runtime.Scheme, im VerifInformerMap, refs map[schema.GroupVersionKind][]OwnerReference,
) *Cache {
	c := &Cache{
		scheme:             scheme,
		informerReferences: map[schema.GroupVersionKind]map[OwnerReference]struct{}{},
		cacheSource:        &cacheSource{},
		informerMap:        im,
	}
	for gvk, owners := range refs {
		c.informerReferences[gvk] = map[OwnerReference]struct{}{}
		for _, o := range owners {
			c.informerReferences[gvk][o] = struct{}{}
		}
	}
	return c
}

// VerifDumpRefs returns the owner sets in canonical order.
func VerifDumpRefs(c *Cache) map[schema.GroupVersionKind][]OwnerReference {
	out := map[schema.GroupVersionKind][]OwnerReference{}
	for gvk, refs := range c.informerReferences {
		l := make([]OwnerReference, 0, len(refs))
		for r := range refs {
			l = append(l, r)
		}
		sort.Slice(l, func(i, j int) bool {
			a, b := l[i], l[j]
			if a.Kind != b.Kind {
				return a.Kind < b.Kind
			}
			if a.Namespace != b.Namespace {
				return a.Namespace < b.Namespace
			}
			if a.Name != b.Name {
				return a.Name < b.Name
			}
			return a.UID < b.UID
		})
		out[gvk] = l
	}
	return out
}
