package packageimport

import (
	"context"

	"github.com/google/go-containerregistry/pkg/crane"
	"k8s.io/apimachinery/pkg/types"
	"sigs.k8s.io/controller-runtime/pkg/client"

	"package-operator.run/internal/packages/internal/packagetypes"
)

// VerifSetPull replaces the registry pull function of a RequestManager (verification hook,
// present only through the build overlay).
func VerifSetPull(r *RequestManager, fn func(ctx context.Context, image string) (*packagetypes.RawPackage, error)) {
	r.pullImage = func(
		ctx context.Context, _ client.Client, _ types.NamespacedName, ref string, _ ...crane.Option,
	) (*packagetypes.RawPackage, error) {
		return fn(ctx, ref)
	}
}

// VerifInFlight reports the number of receivers registered per image.
func VerifInFlight(r *RequestManager) map[string]int {
	out := map[string]int{}
	for k, v := range r.inFlight {
		out[k] = len(v)
	}
	return out
}
