package kmodel

import (
	"context"
	"fmt"
	jsonpatch "github.com/evanphx/json-patch/v5"
	"reflect"
	"sort"
	"strings"

	apierrors "k8s.io/apimachinery/pkg/api/errors"
	apimeta "k8s.io/apimachinery/pkg/api/meta"
	"k8s.io/apimachinery/pkg/apis/meta/v1/unstructured"
	"k8s.io/apimachinery/pkg/labels"
	"k8s.io/apimachinery/pkg/runtime"
	"k8s.io/apimachinery/pkg/runtime/schema"
	"k8s.io/apimachinery/pkg/types"
	kjson "k8s.io/apimachinery/pkg/util/json"
	"sigs.k8s.io/controller-runtime/pkg/client"
	"sigs.k8s.io/controller-runtime/pkg/client/apiutil"
	"sigs.k8s.io/yaml"
)

// Request is the record of one client call, handed to the Hook before and after its effect.
type Request struct {
	Actor     string
	Verb      string // get list create update patch delete
	Sub       string // "" | status
	PatchType string // apply | merge | json
	Key       Key
	GVK       schema.GroupVersionKind
	DryRun    bool
	Force     bool
	Manager   string
	PreUID    *string
	PreRV     *string
	Propag    string
	Body      map[string]any
	ViaCache  bool
	ListNS    string
	ListSel   string

	// filled in after the effect
	Pre  map[string]any // stored content before (nil = absent)
	Post map[string]any // stored content after (nil = absent)
	Resp map[string]any // answer returned to the caller (objects only)
	Err  error
}

// IsWrite reports whether the request can change the store (dry runs cannot).
func (r *Request) IsWrite() bool {
	return !r.DryRun && (r.Verb == "create" || r.Verb == "update" || r.Verb == "patch" || r.Verb == "delete")
}

// Changed reports whether the request changed the stored object.
func (r *Request) Changed() bool {
	return r.IsWrite() && r.Err == nil && Digest(r.Pre) != Digest(r.Post)
}

func (r *Request) String() string {
	v := r.Verb
	if r.PatchType != "" {
		v += "-" + r.PatchType
	}
	if r.Sub != "" {
		v += "/" + r.Sub
	}
	if r.DryRun {
		v += "(dry)"
	}
	if r.ViaCache {
		v += "(cache)"
	}
	e := "ok"
	if r.Err != nil {
		e = string(apierrors.ReasonForError(r.Err))
		if e == "" {
			e = "err"
		}
	}
	return fmt.Sprintf("%s %s %s -> %s", r.Actor, v, r.Key, e)
}

// Hook observes and steers every client call.
type Hook interface {
	// Before may return an error that is returned to the caller without any effect.
	Before(r *Request) error
	// After may replace the error returned to the caller (the effect has happened).
	After(r *Request) error
}

// Client implements client.Client on a Store.
type Client struct {
	S     *Store
	Sch   *runtime.Scheme
	Map   apimeta.RESTMapper
	Hook  Hook
	Actor string
	// Manager is the field manager the API server derives from the client's user agent for
	// writes that name none (binary name, e.g. package-operator-manager).
	Manager string
	Cached  bool // marks requests as served from a cache view (informational)
	// Filter, when set, hides objects for which it returns false (cache label selector).
	Filter func(c map[string]any) bool
	// ListHide hides the given keys from List and Get answers (a lagging informer cache).
	ListHide map[Key]bool
	// Stale: keys for which Get answers with the content before the object's latest write (an
	// informer cache one event behind); has no effect on objects written once only.
	// (the value counts how many more Gets are answered that way: the cache catches up)
	Stale map[Key]int
}

var _ client.Client = (*Client)(nil)

// With returns a copy of the client for another actor.
func (c *Client) With(actor string) *Client {
	n := *c
	n.Actor = actor
	return &n
}

func (c *Client) before(r *Request) error {
	r.Actor = c.Actor
	r.ViaCache = c.Cached
	if o := c.S.Objs[r.Key]; o != nil {
		r.Pre = o.Content
	}
	if c.Hook != nil {
		err := c.Hook.Before(r)
		// the hook may have yielded to other actors: Pre is the content at the instant of effect
		r.Pre = nil
		if o := c.S.Objs[r.Key]; o != nil {
			r.Pre = o.Content
		}
		if err != nil {
			r.Post = r.Pre
		}
		return err
	}
	return nil
}

func (c *Client) after(r *Request, err error) error {
	r.Err = err
	if o := c.S.Objs[r.Key]; o != nil {
		r.Post = o.Content
	}
	if c.Hook != nil {
		return c.Hook.After(r)
	}
	return err
}

// answer is what a read or write response carries for stored object o: its content plus the
// metadata.managedFields of the model (the stored content itself never holds them).
func answer(o *Obj) map[string]any {
	mf := o.ManagedFields()
	if len(mf) == 0 {
		return o.Content
	}
	c := runtime.DeepCopyJSON(o.Content)
	meta(c)["managedFields"] = mf
	return c
}

// ToContent converts any client.Object into JSON content plus its GVK.
func ToContent(obj runtime.Object, sch *runtime.Scheme) (map[string]any, schema.GroupVersionKind, error) {
	if u, ok := obj.(*unstructured.Unstructured); ok {
		return runtime.DeepCopyJSON(u.Object), u.GroupVersionKind(), nil
	}
	gvk, err := apiutil.GVKForObject(obj, sch)
	if err != nil {
		return nil, gvk, err
	}
	b, err := kjson.Marshal(obj)
	if err != nil {
		return nil, gvk, err
	}
	var m map[string]any
	if err := kjson.Unmarshal(b, &m); err != nil {
		return nil, gvk, err
	}
	m["apiVersion"] = gvk.GroupVersion().String()
	m["kind"] = gvk.Kind
	return m, gvk, nil
}

// FromContent overwrites obj with the content.
func FromContent(content map[string]any, obj runtime.Object) error {
	if u, ok := obj.(*unstructured.Unstructured); ok {
		u.Object = runtime.DeepCopyJSON(content)
		return nil
	}
	b, err := kjson.Marshal(content)
	if err != nil {
		return err
	}
	v := reflect.ValueOf(obj)
	if v.Kind() == reflect.Ptr && !v.IsNil() {
		v.Elem().Set(reflect.Zero(v.Elem().Type()))
	}
	if err := kjson.Unmarshal(b, obj); err != nil {
		return err
	}
	// typed objects returned by the real client carry no TypeMeta
	return nil
}

func (c *Client) keyFor(gvk schema.GroupVersionKind, ns, name string) (Key, KindInfo, error) {
	info, ok := c.S.Kinds[gvk.GroupKind()]
	if !ok {
		return Key{}, info, &apimeta.NoKindMatchError{GroupKind: gvk.GroupKind(), SearchedVersions: []string{gvk.Version}}
	}
	k := Key{Group: gvk.Group, Kind: gvk.Kind, Name: name}
	if info.Namespaced {
		k.Namespace = ns
	}
	return k, info, nil
}

func (c *Client) visible(o *Obj) bool {
	return o != nil && (c.Filter == nil || c.Filter(o.Content))
}

// Get implements client.Reader.
func (c *Client) Get(_ context.Context, key client.ObjectKey, obj client.Object, _ ...client.GetOption) error {
	gvk, err := apiutil.GVKForObject(obj, c.Sch)
	if err != nil {
		return err
	}
	k, info, err := c.keyFor(gvk, key.Namespace, key.Name)
	if err != nil {
		return err
	}
	r := &Request{Verb: "get", Key: k, GVK: gvk}
	if err := c.before(r); err != nil {
		return err
	}
	var res error
	o := c.S.Objs[k]
	if (info.Namespaced && k.Namespace == "") || !c.visible(o) || c.ListHide[k] {
		res = apierrors.NewNotFound(gr(k), k.Name)
	} else {
		if c.Stale[k] > 0 && o.Prev != nil {
			c.Stale[k]--
			r.Resp = o.Prev
			if err := FromContent(o.Prev, obj); err != nil {
				return err
			}
			return c.after(r, nil)
		}
		r.Resp = o.Content
		if err := FromContent(answer(o), obj); err != nil {
			return err
		}
	}
	return c.after(r, res)
}

// List implements client.Reader.
func (c *Client) List(_ context.Context, list client.ObjectList, opts ...client.ListOption) error {
	gvk, err := apiutil.GVKForObject(list, c.Sch)
	if err != nil {
		return err
	}
	gvk.Kind = strings.TrimSuffix(gvk.Kind, "List")
	if _, ok := c.S.Kinds[gvk.GroupKind()]; !ok {
		return &apimeta.NoKindMatchError{GroupKind: gvk.GroupKind(), SearchedVersions: []string{gvk.Version}}
	}
	lo := client.ListOptions{}
	lo.ApplyOptions(opts)
	r := &Request{Verb: "list", Key: Key{Group: gvk.Group, Kind: gvk.Kind, Namespace: lo.Namespace}, GVK: gvk, ListNS: lo.Namespace}
	if lo.LabelSelector != nil {
		r.ListSel = lo.LabelSelector.String()
	}
	if err := c.before(r); err != nil {
		return err
	}
	var items []any
	for _, k := range c.S.SortedKeys() {
		if k.Group != gvk.Group || k.Kind != gvk.Kind {
			continue
		}
		if lo.Namespace != "" && k.Namespace != lo.Namespace {
			continue
		}
		o := c.S.Objs[k]
		if !c.visible(o) || c.ListHide[k] {
			continue
		}
		if lo.LabelSelector != nil && !lo.LabelSelector.Matches(labels.Set(Labels(o.Content))) {
			continue
		}
		if lo.FieldSelector != nil && !lo.FieldSelector.Empty() {
			f := map[string]string{"metadata.name": k.Name, "metadata.namespace": k.Namespace}
			ok := true
			for _, req := range lo.FieldSelector.Requirements() {
				if v, known := f[req.Field]; !known || v != req.Value {
					ok = false
				}
			}
			if !ok {
				continue
			}
		}
		items = append(items, runtime.DeepCopyJSON(answer(o)))
	}
	if ul, ok := list.(*unstructured.UnstructuredList); ok {
		ul.Items = nil
		for _, it := range items {
			ul.Items = append(ul.Items, unstructured.Unstructured{Object: it.(map[string]any)})
		}
		ul.SetResourceVersion(fmt.Sprint(c.S.RV))
	} else {
		if items == nil {
			items = []any{}
		}
		content := map[string]any{
			"apiVersion": gvk.GroupVersion().String(), "kind": gvk.Kind + "List",
			"metadata": map[string]any{"resourceVersion": fmt.Sprint(c.S.RV)}, "items": items,
		}
		if err := FromContent(content, list); err != nil {
			return err
		}
	}
	return c.after(r, nil)
}

func (c *Client) write(obj client.Object, r *Request, do func(k Key, body map[string]any) (map[string]any, *apierrors.StatusError)) error {
	body, gvk, err := ToContent(obj, c.Sch)
	if err != nil {
		return err
	}
	k, _, err := c.keyFor(gvk, obj.GetNamespace(), obj.GetName())
	if err != nil {
		return err
	}
	r.Key, r.GVK = k, gvk
	if r.Body == nil {
		r.Body = body
	}
	if err := c.before(r); err != nil {
		return err
	}
	var preDigest string
	if o := c.S.Objs[k]; o != nil {
		preDigest = Digest(o.Content)
	}
	res, serr := do(k, body)
	if serr != nil {
		return c.after(r, serr)
	}
	// a client-side write (anything but apply) to the main resource that changed something leaves
	// a managedFields entry {manager, Update}
	if o := c.S.Objs[k]; o != nil && !r.DryRun && r.Sub == "" && r.PatchType != "apply" && Digest(o.Content) != preDigest {
		m := r.Manager
		if m == "" {
			m = c.Manager
		}
		if LegacyManagers[m] {
			if l := o.withLegacy(m); len(l) != len(o.Legacy) {
				no := *o
				no.Legacy = l
				c.S.Objs[k] = &no
			}
		}
	}
	r.Resp = res
	if res != nil {
		out := res
		if o := c.S.Objs[k]; o != nil && !r.DryRun {
			if mf := o.ManagedFields(); len(mf) > 0 {
				out = runtime.DeepCopyJSON(res)
				meta(out)["managedFields"] = mf
			}
		}
		if err := FromContent(out, obj); err != nil {
			return err
		}
	}
	return c.after(r, nil)
}

// Create implements client.Writer.
func (c *Client) Create(_ context.Context, obj client.Object, opts ...client.CreateOption) error {
	co := client.CreateOptions{}
	co.ApplyOptions(opts)
	dry := len(co.DryRun) > 0
	return c.write(obj, &Request{Verb: "create", DryRun: dry}, func(k Key, body map[string]any) (map[string]any, *apierrors.StatusError) {
		return c.S.Create(k, body, nil, dry)
	})
}

// Update implements client.Writer.
func (c *Client) Update(_ context.Context, obj client.Object, opts ...client.UpdateOption) error {
	uo := client.UpdateOptions{}
	uo.ApplyOptions(opts)
	dry := len(uo.DryRun) > 0
	return c.write(obj, &Request{Verb: "update", DryRun: dry}, func(k Key, body map[string]any) (map[string]any, *apierrors.StatusError) {
		return c.S.Update(k, body, "", dry)
	})
}

// Delete implements client.Writer.
func (c *Client) Delete(_ context.Context, obj client.Object, opts ...client.DeleteOption) error {
	do := client.DeleteOptions{}
	do.ApplyOptions(opts)
	gvk, err := apiutil.GVKForObject(obj, c.Sch)
	if err != nil {
		return err
	}
	k, _, err := c.keyFor(gvk, obj.GetNamespace(), obj.GetName())
	if err != nil {
		return err
	}
	o := DeleteOpts{DryRun: len(do.DryRun) > 0}
	if do.Preconditions != nil {
		if do.Preconditions.UID != nil {
			u := string(*do.Preconditions.UID)
			o.UID = &u
		}
		o.RV = do.Preconditions.ResourceVersion
	}
	if do.PropagationPolicy != nil {
		o.Propagation = string(*do.PropagationPolicy)
	}
	r := &Request{Verb: "delete", Key: k, GVK: gvk, DryRun: o.DryRun, PreUID: o.UID, PreRV: o.RV, Propag: o.Propagation}
	if err := c.before(r); err != nil {
		return err
	}
	var res error
	if serr := c.S.Delete(k, o); serr != nil {
		res = serr
	}
	return c.after(r, res)
}

// DeleteAllOf is not used by package-operator.
func (c *Client) DeleteAllOf(context.Context, client.Object, ...client.DeleteAllOfOption) error {
	panic("kmodel: DeleteAllOf not modelled")
}

func (c *Client) patch(obj client.Object, patch client.Patch, sub string, opts []client.PatchOption) error {
	po := client.PatchOptions{}
	po.ApplyOptions(opts)
	data, err := patch.Data(obj)
	if err != nil {
		return err
	}
	var pbody map[string]any
	dry := len(po.DryRun) > 0
	force := po.Force != nil && *po.Force
	r := &Request{Verb: "patch", Sub: sub, DryRun: dry, Force: force, Manager: po.FieldManager}
	switch patch.Type() {
	case types.ApplyPatchType:
		r.PatchType = "apply"
		j, err := yaml.YAMLToJSON(data)
		if err != nil {
			return apierrors.NewBadRequest(err.Error())
		}
		if err := kjson.Unmarshal(j, &pbody); err != nil {
			return apierrors.NewBadRequest(err.Error())
		}
	case types.MergePatchType:
		r.PatchType = "merge"
		if err := kjson.Unmarshal(data, &pbody); err != nil {
			return apierrors.NewBadRequest(err.Error())
		}
	case types.JSONPatchType:
		r.PatchType = "json"
		jp, err := jsonpatch.DecodePatch(data)
		if err != nil {
			return apierrors.NewBadRequest(err.Error())
		}
		var ops []any
		_ = kjson.Unmarshal(data, &ops)
		r.Body = map[string]any{"jsonPatch": ops}
		if sub != "" {
			panic("kmodel: JSON patch on a subresource not modelled")
		}
		return c.write(obj, r, func(k Key, _ map[string]any) (map[string]any, *apierrors.StatusError) {
			old := c.S.Objs[k]
			if old == nil {
				return nil, apierrors.NewNotFound(gr(k), k.Name)
			}
			doc, _ := kjson.Marshal(answer(old))
			nb, err := jp.Apply(doc)
			if err != nil {
				return nil, apierrors.NewInvalid(schema.GroupKind{Group: k.Group, Kind: k.Kind}, k.Name, nil)
			}
			var neu map[string]any
			if err := kjson.Unmarshal(nb, &neu); err != nil {
				return nil, apierrors.NewBadRequest(err.Error())
			}
			// a resourceVersion in the patched document is the optimistic-concurrency precondition
			if rv, _ := meta(neu)["resourceVersion"].(string); rv != RVOf(old.Content) {
				return nil, apierrors.NewConflict(gr(k), k.Name, fmt.Errorf("the object has been modified; please apply your changes to the latest version and try again"))
			}
			// managedFields are server-side bookkeeping: take over what the patch left of the tracked entries
			var legacy []string
			if l, ok := meta(neu)["managedFields"].([]any); ok {
				for _, e := range l {
					m, _ := e.(map[string]any)
					name, _ := m["manager"].(string)
					sr, _ := m["subresource"].(string)
					if m["operation"] == "Update" && sr == "" && LegacyManagers[name] {
						legacy = append(legacy, name)
					}
				}
			}
			sort.Strings(legacy)
			delete(meta(neu), "managedFields")
			res, serr := c.S.Update(k, neu, "", dry)
			if serr != nil || dry {
				return res, serr
			}
			if o := c.S.Objs[k]; o != nil {
				no := *o
				no.Legacy = legacy
				c.S.Objs[k] = &no
			}
			return res, nil
		})
	default:
		panic(fmt.Sprintf("kmodel: patch type %s not modelled", patch.Type()))
	}
	r.Body = pbody
	return c.write(obj, r, func(k Key, _ map[string]any) (map[string]any, *apierrors.StatusError) {
		if r.PatchType == "apply" {
			if sub != "" {
				panic("kmodel: apply on subresource not modelled")
			}
			if po.FieldManager == "" {
				return nil, apierrors.NewBadRequest("PatchOptions.meta.k8s.io \"\" is invalid: fieldManager: Required value: is required for apply patch")
			}
			return c.S.Apply(k, pbody, force, dry)
		}
		return c.S.MergePatch(k, pbody, sub, dry)
	})
}

// Patch implements client.Writer.
func (c *Client) Patch(_ context.Context, obj client.Object, patch client.Patch, opts ...client.PatchOption) error {
	return c.patch(obj, patch, "", opts)
}

type subWriter struct {
	c   *Client
	sub string
}

func (s *subWriter) Create(context.Context, client.Object, client.Object, ...client.SubResourceCreateOption) error {
	panic("kmodel: subresource create not modelled")
}

func (s *subWriter) Update(_ context.Context, obj client.Object, opts ...client.SubResourceUpdateOption) error {
	uo := client.SubResourceUpdateOptions{}
	uo.ApplyOptions(opts)
	dry := len(uo.DryRun) > 0
	return s.c.write(obj, &Request{Verb: "update", Sub: s.sub, DryRun: dry}, func(k Key, body map[string]any) (map[string]any, *apierrors.StatusError) {
		return s.c.S.Update(k, body, s.sub, dry)
	})
}

func (s *subWriter) Patch(_ context.Context, obj client.Object, patch client.Patch, opts ...client.SubResourcePatchOption) error {
	po := client.SubResourcePatchOptions{}
	po.ApplyOptions(opts)
	var popts []client.PatchOption
	popts = append(popts, &po.PatchOptions)
	return s.c.patch(obj, patch, s.sub, popts)
}

func (s *subWriter) Get(context.Context, client.Object, client.Object, ...client.SubResourceGetOption) error {
	panic("kmodel: subresource get not modelled")
}

// Status implements client.StatusClient.
func (c *Client) Status() client.SubResourceWriter { return &subWriter{c, "status"} }

// SubResource implements client.SubResourceClientConstructor.
func (c *Client) SubResource(sub string) client.SubResourceClient { return &subWriter{c, sub} }

// Scheme implements client.Client.
func (c *Client) Scheme() *runtime.Scheme { return c.Sch }

// RESTMapper implements client.Client.
func (c *Client) RESTMapper() apimeta.RESTMapper { return c.Map }

// GroupVersionKindFor implements client.Client.
func (c *Client) GroupVersionKindFor(obj runtime.Object) (schema.GroupVersionKind, error) {
	return apiutil.GVKForObject(obj, c.Sch)
}

// IsObjectNamespaced implements client.Client.
func (c *Client) IsObjectNamespaced(obj runtime.Object) (bool, error) {
	gvk, err := apiutil.GVKForObject(obj, c.Sch)
	if err != nil {
		return false, err
	}
	info, ok := c.S.Kinds[gvk.GroupKind()]
	if !ok {
		return false, &apimeta.NoKindMatchError{GroupKind: gvk.GroupKind()}
	}
	return info.Namespaced, nil
}

// NewMapper builds a RESTMapper for the registered kinds.
func NewMapper(kinds []KindInfo) apimeta.RESTMapper {
	var gvs []schema.GroupVersion
	seen := map[schema.GroupVersion]bool{}
	for _, k := range kinds {
		gv := schema.GroupVersion{Group: k.Group, Version: k.Version}
		if !seen[gv] {
			seen[gv] = true
			gvs = append(gvs, gv)
		}
	}
	sort.Slice(gvs, func(i, j int) bool { return gvs[i].String() < gvs[j].String() })
	m := apimeta.NewDefaultRESTMapper(gvs)
	for _, k := range kinds {
		scope := apimeta.RESTScopeRoot
		if k.Namespaced {
			scope = apimeta.RESTScopeNamespace
		}
		m.Add(schema.GroupVersionKind{Group: k.Group, Version: k.Version, Kind: k.Kind}, scope)
	}
	return m
}
