package kmodel

import (
	"context"
	"fmt"
	"os"
	"sort"
	"strings"
	"testing"

	corev1 "k8s.io/api/core/v1"
	apierrors "k8s.io/apimachinery/pkg/api/errors"
	metav1 "k8s.io/apimachinery/pkg/apis/meta/v1"
	"k8s.io/apimachinery/pkg/apis/meta/v1/unstructured"
	"k8s.io/apimachinery/pkg/runtime"
	"k8s.io/apimachinery/pkg/types"
	"k8s.io/apimachinery/pkg/util/sets"
	"k8s.io/client-go/util/csaupgrade"
	"sigs.k8s.io/controller-runtime/pkg/client"
	"sigs.k8s.io/controller-runtime/pkg/client/fake"
)

var testKinds = []KindInfo{
	{Group: "", Version: "v1", Kind: "ConfigMap", Namespaced: true},
	{Group: "t", Version: "v1", Kind: "Widget", Namespaced: true, HasStatus: true},
	{Group: "t", Version: "v1", Kind: "ClusterWidget", Namespaced: false, HasStatus: true},
}

func newTestClient() *Client {
	sch := runtime.NewScheme()
	_ = corev1.AddToScheme(sch)
	return &Client{S: NewStore(testKinds), Sch: sch, Map: NewMapper(testKinds), Actor: "test"}
}

func widget(kind, ns, name string) *unstructured.Unstructured {
	u := &unstructured.Unstructured{Object: map[string]any{"apiVersion": "t/v1", "kind": kind, "metadata": map[string]any{"name": name}}}
	if ns != "" {
		u.SetNamespace(ns)
	}
	return u
}

func reason(err error) string {
	if err == nil {
		return "ok"
	}
	return string(apierrors.ReasonForError(err))
}

var ctx = context.Background()

// Row by row pins of DESIGN.md sec. 3 (expected values come from the cited apiserver behaviour).
func TestRows(t *testing.T) {
	c := newTestClient()
	w := widget("Widget", "ns", "a")
	w.Object["spec"] = map[string]any{"x": int64(1)}
	w.Object["status"] = map[string]any{"ignored": true}
	if err := c.Create(ctx, w); err != nil {
		t.Fatal(err)
	}
	if w.GetUID() == "" || w.GetResourceVersion() == "" || w.GetGeneration() != 1 {
		t.Fatalf("create must assign uid/rv/generation: %v", w.Object)
	}
	if _, ok := w.Object["status"]; ok {
		t.Fatal("status must be dropped on create of a status-subresource kind")
	}
	if got := reason(c.Create(ctx, widget("Widget", "ns", "a"))); got != "AlreadyExists" {
		t.Fatalf("create existing: %s", got)
	}
	// optimistic concurrency on update
	stale := w.DeepCopy()
	w.Object["spec"].(map[string]any)["x"] = int64(2)
	if err := c.Update(ctx, w); err != nil {
		t.Fatal(err)
	}
	if w.GetGeneration() != 2 {
		t.Fatalf("generation must bump on spec change, got %d", w.GetGeneration())
	}
	if got := reason(c.Update(ctx, stale)); got != "Conflict" {
		t.Fatalf("stale update: %s", got)
	}
	// no-op update does not bump resourceVersion
	rv := w.GetResourceVersion()
	if err := c.Update(ctx, w); err != nil || w.GetResourceVersion() != rv {
		t.Fatalf("no-op update bumped rv: %v %s->%s", err, rv, w.GetResourceVersion())
	}
	// main-resource update never changes status; status update never changes spec
	w.Object["status"] = map[string]any{"s": "main"}
	_ = c.Update(ctx, w)
	if _, ok := w.Object["status"]; ok {
		t.Fatal("main update must not write status")
	}
	w.Object["status"] = map[string]any{"s": "sub"}
	w.Object["spec"].(map[string]any)["x"] = int64(9)
	if err := c.Status().Update(ctx, w); err != nil {
		t.Fatal(err)
	}
	if x, _, _ := unstructured.NestedInt64(w.Object, "spec", "x"); x != 2 {
		t.Fatalf("status update changed spec: %d", x)
	}
	if w.GetGeneration() != 2 {
		t.Fatal("status update must not bump generation")
	}
	// one-controller rule
	tr := true
	w.SetOwnerReferences([]metav1.OwnerReference{{APIVersion: "v1", Kind: "A", Name: "a", UID: "1", Controller: &tr}, {APIVersion: "v1", Kind: "B", Name: "b", UID: "2", Controller: &tr}})
	if got := reason(c.Update(ctx, w)); got != "Invalid" {
		t.Fatalf("two controllers: %s", got)
	}
	// delete preconditions
	_ = c.Get(ctx, client.ObjectKeyFromObject(w), w)
	wrongUID := types.UID("nope")
	if got := reason(c.Delete(ctx, w, client.Preconditions{UID: &wrongUID})); got != "Conflict" {
		t.Fatalf("uid precondition: %s", got)
	}
	wrongRV := "0"
	if got := reason(c.Delete(ctx, w, client.Preconditions{ResourceVersion: &wrongRV})); got != "Conflict" {
		t.Fatalf("rv precondition: %s", got)
	}
	// finalizers
	w.SetFinalizers([]string{"f"})
	if err := c.Update(ctx, w); err != nil {
		t.Fatal(err)
	}
	if err := c.Delete(ctx, w); err != nil {
		t.Fatal(err)
	}
	if err := c.Get(ctx, client.ObjectKeyFromObject(w), w); err != nil || w.GetDeletionTimestamp() == nil {
		t.Fatalf("object with finalizer must stay terminating: %v", err)
	}
	w.SetFinalizers(nil)
	if err := c.Update(ctx, w); err != nil {
		t.Fatal(err)
	}
	if got := reason(c.Get(ctx, client.ObjectKeyFromObject(w), w)); got != "NotFound" {
		t.Fatalf("removing the last finalizer must remove the object: %s", got)
	}
}

func TestScopeAndDryRun(t *testing.T) {
	c := newTestClient()
	cw := widget("ClusterWidget", "ns", "c")
	if err := c.Create(ctx, cw); err != nil {
		t.Fatal(err)
	}
	if cw.GetNamespace() != "" {
		t.Fatal("namespace must be cleared on cluster-scoped kinds")
	}
	if c.S.Objs[Key{Group: "t", Kind: "ClusterWidget", Name: "c"}] == nil {
		t.Fatal("cluster-scoped object stored under a namespaced key")
	}
	if got := reason(c.Create(ctx, widget("Widget", "", "nons"))); got != "BadRequest" {
		t.Fatalf("namespaced kind without namespace: %s", got)
	}
	d := widget("Widget", "ns", "dry")
	if err := c.Create(ctx, d, client.DryRunAll); err != nil {
		t.Fatal(err)
	}
	if got := reason(c.Get(ctx, client.ObjectKeyFromObject(d), d)); got != "NotFound" {
		t.Fatalf("dry-run create stored the object: %s", got)
	}
	r := widget("Widget", "ns", "rej")
	r.SetAnnotations(map[string]string{RejectAnnotation: "true"})
	if got := reason(c.Create(ctx, r, client.DryRunAll)); got != "Invalid" {
		t.Fatalf("scripted rejection: %s", got)
	}
	u := widget("Nope", "ns", "x")
	if err := c.Create(ctx, u); err == nil || !strings.Contains(err.Error(), "no matches for kind") {
		t.Fatalf("unknown kind: %v", err)
	}
}

func apply(c *Client, u *unstructured.Unstructured, force bool) error {
	opts := []client.PatchOption{client.FieldOwner("package-operator")}
	if force {
		opts = append(opts, client.ForceOwnership)
	}
	return c.Patch(ctx, u, client.Apply, opts...)
}

func TestServerSideApply(t *testing.T) {
	c := newTestClient()
	tr := true
	a := widget("Widget", "ns", "a")
	a.Object["spec"] = map[string]any{"x": int64(1), "y": int64(1)}
	a.SetLabels(map[string]string{"l1": "v"})
	a.SetOwnerReferences([]metav1.OwnerReference{{APIVersion: "v1", Kind: "A", Name: "a", UID: "u1", Controller: &tr}})
	if err := apply(c, a, false); err != nil {
		t.Fatal(err) // upsert
	}
	// another actor adds a field, a label and an owner reference
	_ = c.Get(ctx, client.ObjectKeyFromObject(a), a)
	a.Object["spec"].(map[string]any)["other"] = "kept"
	a.SetLabels(map[string]string{"l1": "v", "foreign": "kept"})
	a.SetOwnerReferences(append(a.GetOwnerReferences(), metav1.OwnerReference{APIVersion: "v1", Kind: "B", Name: "b", UID: "u2"}))
	if err := c.Update(ctx, a); err != nil {
		t.Fatal(err)
	}
	// second apply drops spec.y and label l1, changes the owner list to {u3}
	b := widget("Widget", "ns", "a")
	b.Object["spec"] = map[string]any{"x": int64(2)}
	b.SetOwnerReferences([]metav1.OwnerReference{{APIVersion: "v1", Kind: "C", Name: "c", UID: "u3", Controller: &tr}})
	if err := apply(c, b, true); err != nil {
		t.Fatal(err)
	}
	spec := b.Object["spec"].(map[string]any)
	if spec["x"] != int64(2) || spec["other"] != "kept" {
		t.Fatalf("apply must set its fields and keep foreign ones: %v", spec)
	}
	if _, ok := spec["y"]; ok {
		t.Fatal("a field applied earlier and now absent must be removed")
	}
	if l := b.GetLabels(); l["foreign"] != "kept" || l["l1"] != "" {
		t.Fatalf("labels after apply: %v", l)
	}
	var uids []string
	for _, o := range b.GetOwnerReferences() {
		uids = append(uids, string(o.UID))
	}
	sort.Strings(uids)
	if strings.Join(uids, ",") != "u2,u3" {
		t.Fatalf("ownerReferences merge by uid: applied-and-dropped u1 must go, foreign u2 stay, u3 come: %v", uids)
	}
	// non-forced apply conflicts on a field someone else set to another value
	cfl := widget("Widget", "ns", "a")
	cfl.Object["spec"] = map[string]any{"x": int64(2), "other": "mine"}
	if got := reason(apply(c, cfl, false)); got != "Conflict" {
		t.Fatalf("non-forced apply over a foreign field: %s", got)
	}
	// merge patch with a stale resourceVersion
	p := []byte(`{"metadata":{"resourceVersion":"1","labels":{"z":"z"}}}`)
	if got := reason(c.Patch(ctx, b, client.RawPatch(types.MergePatchType, p))); got != "Conflict" {
		t.Fatalf("pinned merge patch: %s", got)
	}
}

// Differential test against controller-runtime's fake client (client-go object tracker) for the
// operations both support: every sequence of length <= L over the alphabet below on two keys.
func TestDifferentialAgainstFakeClient(t *testing.T) {
	L := 4
	if os.Getenv("KMODEL_DIFF_LEN") == "3" {
		L = 3
	}
	type opT struct {
		name string
		key  int
	}
	var alphabet []opT
	for _, n := range []string{"create", "get", "update", "update-stale", "delete", "add-finalizer", "remove-finalizer"} {
		for k := 0; k < 2; k++ {
			alphabet = append(alphabet, opT{n, k})
		}
	}
	sch := runtime.NewScheme()
	_ = corev1.AddToScheme(sch)
	keys := []types.NamespacedName{{Namespace: "ns", Name: "a"}, {Namespace: "ns", Name: "b"}}
	run := func(c client.Client, seq []opT) []string {
		var out []string
		last := map[int]*corev1.ConfigMap{}
		n := 0
		for _, o := range seq {
			n++
			key := keys[o.key]
			var err error
			switch o.name {
			case "create":
				cm := &corev1.ConfigMap{ObjectMeta: metav1.ObjectMeta{Namespace: key.Namespace, Name: key.Name}, Data: map[string]string{"v": "0"}}
				err = c.Create(ctx, cm)
				if err == nil {
					last[o.key] = cm
				}
			case "get":
				cm := &corev1.ConfigMap{}
				err = c.Get(ctx, key, cm)
				if err == nil {
					last[o.key] = cm
				}
			case "update", "add-finalizer", "remove-finalizer":
				cm := &corev1.ConfigMap{}
				if e := c.Get(ctx, key, cm); e != nil {
					err = e
					break
				}
				switch o.name {
				case "update":
					cm.Data = map[string]string{"v": fmt.Sprint(n)}
				case "add-finalizer":
					cm.Finalizers = []string{"f"}
				case "remove-finalizer":
					cm.Finalizers = nil
				}
				err = c.Update(ctx, cm)
				if err == nil {
					last[o.key] = cm
				}
			case "update-stale":
				cm := last[o.key]
				if cm == nil {
					out = append(out, "skip")
					continue
				}
				cp := cm.DeepCopy()
				cp.Data = map[string]string{"v": "stale"}
				err = c.Update(ctx, cp)
			case "delete":
				err = c.Delete(ctx, &corev1.ConfigMap{ObjectMeta: metav1.ObjectMeta{Namespace: key.Namespace, Name: key.Name}})
			}
			out = append(out, reason(err))
		}
		// final content
		for _, key := range keys {
			cm := &corev1.ConfigMap{}
			if err := c.Get(ctx, key, cm); err != nil {
				out = append(out, key.Name+":absent")
			} else {
				out = append(out, fmt.Sprintf("%s:%v fin=%v terminating=%v", key.Name, cm.Data, cm.Finalizers, cm.DeletionTimestamp != nil))
			}
		}
		return out
	}
	total, disagreements := 0, 0
	var rec func(seq []opT)
	rec = func(seq []opT) {
		if len(seq) > 0 {
			total++
			f := fake.NewClientBuilder().WithScheme(sch).Build()
			k := &Client{S: NewStore(testKinds), Sch: sch, Map: NewMapper(testKinds), Actor: "test"}
			a, b := run(f, seq), run(k, seq)
			if strings.Join(a, "|") != strings.Join(b, "|") {
				disagreements++
				if disagreements <= 5 {
					t.Errorf("sequence %v:\n fake   %v\n kmodel %v", seq, a, b)
				}
			}
		}
		if len(seq) == L {
			return
		}
		for _, o := range alphabet {
			rec(append(seq, o))
		}
	}
	rec(nil)
	t.Logf("compared %d sequences, %d disagreements", total, disagreements)
}

// managedFields: a client-side write by one of package-operator's historic field managers leaves
// an Update entry; client-go's csaupgrade turns it into a JSON patch (replace managedFields +
// resourceVersion precondition) which the model applies, and which conflicts on a stale version.
func TestManagedFieldsAndJSONPatch(t *testing.T) {
	ctx := context.Background()
	c := newTestClient()
	c.Manager = "package-operator-manager"
	w := widget("Widget", "ns", "a")
	w.Object["spec"] = map[string]any{"x": int64(1)}
	if err := apply(c, w, true); err != nil {
		t.Fatal(err)
	}
	got := widget("Widget", "ns", "a")
	if err := c.Get(ctx, client.ObjectKeyFromObject(got), got); err != nil {
		t.Fatal(err)
	}
	if n := len(got.GetManagedFields()); n != 1 || got.GetManagedFields()[0].Operation != metav1.ManagedFieldsOperationApply {
		t.Fatalf("after apply: managedFields %v", got.GetManagedFields())
	}
	if p, err := csaupgrade.UpgradeManagedFieldsPatch(got, sets.New("package-operator", "package-operator-manager"), "package-operator"); err != nil || len(p) != 0 {
		t.Fatalf("nothing to migrate after a pure apply, got %s %v", p, err)
	}
	// a merge patch without field manager: the user agent's name becomes an Update entry
	base := got.DeepCopy()
	got.SetLabels(map[string]string{"l": "1"})
	if err := c.Patch(ctx, got, client.MergeFrom(base)); err != nil {
		t.Fatal(err)
	}
	if n := len(got.GetManagedFields()); n != 2 {
		t.Fatalf("the patch response carries %d managedFields entries, want 2: %v", n, got.GetManagedFields())
	}
	stale := got.DeepCopy()
	patch, err := csaupgrade.UpgradeManagedFieldsPatch(got, sets.New("package-operator", "package-operator-manager"), "package-operator")
	if err != nil || len(patch) == 0 {
		t.Fatalf("expected a migration patch, got %s %v", patch, err)
	}
	// another writer moves the object on: the migration patch computed from the stale read conflicts
	c2 := *c
	c2.Manager = "kubectl-edit"
	cur := widget("Widget", "ns", "a")
	_ = c2.Get(ctx, client.ObjectKeyFromObject(cur), cur)
	cur.SetAnnotations(map[string]string{"x": "y"})
	if err := c2.Update(ctx, cur); err != nil {
		t.Fatal(err)
	}
	if err := c.Patch(ctx, stale, client.RawPatch(types.JSONPatchType, patch)); !apierrors.IsConflict(err) {
		t.Fatalf("stale migration patch: want 409, got %v", err)
	}
	_ = c.Get(ctx, client.ObjectKeyFromObject(got), got)
	patch, _ = csaupgrade.UpgradeManagedFieldsPatch(got, sets.New("package-operator", "package-operator-manager"), "package-operator")
	if err := c.Patch(ctx, got, client.RawPatch(types.JSONPatchType, patch)); err != nil {
		t.Fatalf("migration patch: %v", err)
	}
	for _, e := range got.GetManagedFields() {
		if e.Operation == metav1.ManagedFieldsOperationUpdate {
			t.Fatalf("an Update entry survived the migration: %v", got.GetManagedFields())
		}
	}
	if got.GetLabels()["l"] != "1" || got.GetAnnotations()["x"] != "y" {
		t.Fatalf("the migration patch changed content: %v", got.Object)
	}
	if p, _ := csaupgrade.UpgradeManagedFieldsPatch(got, sets.New("package-operator", "package-operator-manager"), "package-operator"); len(p) != 0 {
		t.Fatalf("second migration not empty: %s", p)
	}
}
