package kmodel

import (
	metav1 "k8s.io/apimachinery/pkg/apis/meta/v1"
	"fmt"
	"sort"
	"strings"

	apierrors "k8s.io/apimachinery/pkg/api/errors"
	"k8s.io/apimachinery/pkg/runtime"
	"k8s.io/apimachinery/pkg/runtime/schema"
	"k8s.io/apimachinery/pkg/util/validation/field"
)

const sep = "\x00"

// RejectAnnotation makes the (dry-run or real) admission of an object fail: "true" with 422 Invalid,
// "internal" / "unavailable" / "toomany" with 500 / 503 / 429.
const RejectAnnotation = "verif/reject"

func gr(k Key) schema.GroupResource {
	return schema.GroupResource{Group: k.Group, Resource: strings.ToLower(k.Kind) + "s"}
}

func deepCopy(c map[string]any) map[string]any {
	if c == nil {
		return nil
	}
	return runtime.DeepCopyJSON(c)
}

// validate implements the admission rules the model knows.
func (s *Store) validate(k Key, c map[string]any) *apierrors.StatusError {
	var errs field.ErrorList
	ctrl := 0
	for i, r := range OwnerRefs(c) {
		if r.Controller {
			ctrl++
		}
		p := field.NewPath("metadata", "ownerReferences").Index(i)
		if r.UID == "" {
			errs = append(errs, field.Invalid(p.Child("uid"), r.UID, "uid must not be empty"))
		}
		if r.Name == "" {
			errs = append(errs, field.Invalid(p.Child("name"), r.Name, "name must not be empty"))
		}
		if r.Kind == "" {
			errs = append(errs, field.Invalid(p.Child("kind"), r.Kind, "kind must not be empty"))
		}
		if r.APIVersion == "" {
			errs = append(errs, field.Invalid(p.Child("apiVersion"), r.APIVersion, "version must not be empty"))
		}
	}
	if ctrl > 1 {
		errs = append(errs, field.Invalid(field.NewPath("metadata", "ownerReferences"), "…",
			"Only one reference can have Controller set to true"))
	}
	if Annotations(c)[RejectAnnotation] == "true" {
		errs = append(errs, field.Invalid(field.NewPath("metadata", "annotations"), RejectAnnotation, "rejected by admission (scripted)"))
	}
	if len(errs) > 0 {
		return apierrors.NewInvalid(k.GK(), k.Name, errs)
	}
	// admission that cannot be consulted at all (failing webhook, overloaded server): status errors
	// that say neither "invalid" nor "forbidden"
	mode := Annotations(c)[RejectAnnotation]
	if m, ok := s.Admission[k]; ok {
		mode = m // admission for this object is broken right now (scripted by the harness)
	}
	switch mode {
	case "noreason":
		// what an overloaded or half-broken API server / proxy answers: a 500 without a reason
		return &apierrors.StatusError{ErrStatus: metav1.Status{Status: metav1.StatusFailure, Code: 500, Message: "etcdserver: leader changed (scripted)"}}
	case "internal":
		return apierrors.NewInternalError(fmt.Errorf("failed calling webhook (scripted): connection refused"))
	case "unavailable":
		return apierrors.NewServiceUnavailable("admission unavailable (scripted)")
	case "toomany":
		return apierrors.NewTooManyRequests("slow down (scripted)", 1)
	}
	return nil
}

func specPart(c map[string]any) map[string]any {
	out := map[string]any{}
	for k, v := range c {
		if k == "metadata" || k == "status" || k == "apiVersion" || k == "kind" {
			continue
		}
		out[k] = v
	}
	return out
}

// finish stores `neu` as the new content of key k (replacing old), maintaining generation,
// resourceVersion, the no-op rule and finalizer-driven removal. Returns the stored content.
func (s *Store) finish(k Key, old *Obj, neu map[string]any, applied map[string]bool, dryRun bool) map[string]any {
	m := meta(neu)
	om := meta(old.Content)
	// server managed metadata
	for _, f := range []string{"uid", "creationTimestamp", "deletionTimestamp", "generation"} {
		if v, ok := om[f]; ok {
			m[f] = v
		} else {
			delete(m, f)
		}
	}
	delete(m, "managedFields")
	m["name"] = k.Name
	if k.Namespace != "" {
		m["namespace"] = k.Namespace
	} else {
		delete(m, "namespace")
	}
	pruneEmptyMeta(m)
	if Digest(specPart(neu)) != Digest(specPart(old.Content)) {
		g, _ := om["generation"].(int64)
		m["generation"] = g + 1
	}
	m["resourceVersion"] = om["resourceVersion"]
	changed := Digest(neu) != Digest(old.Content)
	if dryRun {
		if changed {
			m["resourceVersion"] = fmt.Sprintf("%d", s.RV+1)
		}
		return neu
	}
	if Terminating(neu) && len(Finalizers(neu)) == 0 && !(s.Graceful[k.GK()] && len(Finalizers(old.Content)) == 0) {
		delete(s.Objs, k)
		m["resourceVersion"] = s.nextRV()
		return neu
	}
	if changed {
		m["resourceVersion"] = s.nextRV()
	}
	no := &Obj{Content: neu, Applied: old.Applied, Inc: old.Inc, Legacy: old.Legacy, Prev: old.Content}
	if applied != nil {
		no.Applied = applied
	}
	s.Objs[k] = no
	return deepCopy(neu)
}

func pruneEmptyMeta(m map[string]any) {
	for _, f := range []string{"labels", "annotations"} {
		if mm, ok := m[f].(map[string]any); ok && len(mm) == 0 {
			delete(m, f)
		}
	}
	for _, f := range []string{"finalizers", "ownerReferences"} {
		if l, ok := m[f].([]any); ok && len(l) == 0 {
			delete(m, f)
		}
		if v, ok := m[f]; ok && v == nil {
			delete(m, f)
		}
	}
}

// Create implements POST.
func (s *Store) Create(k Key, body map[string]any, applied map[string]bool, dryRun bool) (map[string]any, *apierrors.StatusError) {
	info := s.Kinds[k.GK()]
	if info.Namespaced && k.Namespace == "" {
		return nil, apierrors.NewBadRequest("an empty namespace may not be set during creation")
	}
	if k.Name == "" {
		return nil, apierrors.NewInvalid(k.GK(), "", field.ErrorList{field.Required(field.NewPath("metadata", "name"), "name or generateName is required")})
	}
	if _, ok := s.Objs[k]; ok {
		return nil, apierrors.NewAlreadyExists(gr(k), k.Name)
	}
	if e := s.validate(k, body); e != nil {
		return nil, e
	}
	c := deepCopy(body)
	m := meta(c)
	delete(m, "managedFields")
	delete(m, "deletionTimestamp")
	delete(m, "deletionGracePeriodSeconds")
	m["name"] = k.Name
	if k.Namespace != "" {
		m["namespace"] = k.Namespace
	} else {
		delete(m, "namespace")
	}
	pruneEmptyMeta(m)
	if info.HasStatus {
		delete(c, "status")
	}
	m["generation"] = int64(1)
	if dryRun {
		m["uid"] = fmt.Sprintf("uid-dry-%d", s.UIDs+1)
		m["resourceVersion"] = fmt.Sprintf("%d", s.RV+1)
		m["creationTimestamp"] = "2026-01-01T00:00:00Z"
		return c, nil
	}
	s.UIDs++
	s.Incs[k]++
	m["uid"] = fmt.Sprintf("uid-%d", s.UIDs)
	m["resourceVersion"] = s.nextRV()
	m["creationTimestamp"] = s.now()
	s.Objs[k] = &Obj{Content: c, Applied: applied, Inc: s.Incs[k]}
	return deepCopy(c), nil
}

func (s *Store) checkPre(k Key, old *Obj, body map[string]any) *apierrors.StatusError {
	if rv := RVOf(body); rv != "" && rv != RVOf(old.Content) {
		return apierrors.NewConflict(gr(k), k.Name, fmt.Errorf("the object has been modified; please apply your changes to the latest version and try again"))
	}
	if uid := UID(body); uid != "" && uid != UID(old.Content) {
		return apierrors.NewConflict(gr(k), k.Name, fmt.Errorf("Precondition failed: UID in precondition: %v, UID in object meta: %v", uid, UID(old.Content)))
	}
	return nil
}

// Update implements PUT on the main resource (sub == "") or the status subresource.
func (s *Store) Update(k Key, body map[string]any, sub string, dryRun bool) (map[string]any, *apierrors.StatusError) {
	old, ok := s.Objs[k]
	if !ok {
		return nil, apierrors.NewNotFound(gr(k), k.Name)
	}
	if e := s.checkPre(k, old, body); e != nil {
		return nil, e
	}
	info := s.Kinds[k.GK()]
	var neu map[string]any
	if sub == "status" {
		neu = deepCopy(old.Content)
		if st, ok := body["status"]; ok {
			neu["status"] = runtime.DeepCopyJSONValue(st)
		} else {
			delete(neu, "status")
		}
	} else {
		neu = deepCopy(body)
		if info.HasStatus {
			if st, ok := old.Content["status"]; ok {
				neu["status"] = runtime.DeepCopyJSONValue(st)
			} else {
				delete(neu, "status")
			}
		}
		neu["apiVersion"] = old.Content["apiVersion"]
		neu["kind"] = old.Content["kind"]
	}
	if e := s.validate(k, neu); e != nil {
		return nil, e
	}
	return s.finish(k, old, neu, nil, dryRun), nil
}

// jsonMergePatch applies RFC 7386.
func jsonMergePatch(target any, patch any) any {
	pm, ok := patch.(map[string]any)
	if !ok {
		return runtime.DeepCopyJSONValue(patch)
	}
	tm, ok := target.(map[string]any)
	if !ok {
		tm = map[string]any{}
	}
	for k, v := range pm {
		if v == nil {
			delete(tm, k)
			continue
		}
		tm[k] = jsonMergePatch(tm[k], v)
	}
	return tm
}

// MergePatch implements PATCH application/merge-patch+json.
func (s *Store) MergePatch(k Key, patch map[string]any, sub string, dryRun bool) (map[string]any, *apierrors.StatusError) {
	old, ok := s.Objs[k]
	if !ok {
		return nil, apierrors.NewNotFound(gr(k), k.Name)
	}
	if e := s.checkPre(k, old, patch); e != nil {
		return nil, e
	}
	info := s.Kinds[k.GK()]
	merged := jsonMergePatch(deepCopy(old.Content), patch).(map[string]any)
	var neu map[string]any
	if sub == "status" {
		neu = deepCopy(old.Content)
		if st, ok := merged["status"]; ok {
			neu["status"] = st
		} else {
			delete(neu, "status")
		}
	} else {
		neu = merged
		if info.HasStatus {
			if st, ok := old.Content["status"]; ok {
				neu["status"] = runtime.DeepCopyJSONValue(st)
			} else {
				delete(neu, "status")
			}
		}
		neu["apiVersion"] = old.Content["apiVersion"]
		neu["kind"] = old.Content["kind"]
	}
	if e := s.validate(k, neu); e != nil {
		return nil, e
	}
	return s.finish(k, old, neu, nil, dryRun), nil
}

// ---- server-side apply ----

var applySkip = map[string]bool{
	"apiVersion": true, "kind": true,
	"metadata" + sep + "name": true, "metadata" + sep + "namespace": true, "metadata" + sep + "uid": true,
	"metadata" + sep + "resourceVersion": true, "metadata" + sep + "creationTimestamp": true,
	"metadata" + sep + "managedFields": true, "metadata" + sep + "generation": true,
	"metadata" + sep + "deletionTimestamp": true,
}

// Leaves returns the leaf paths of an apply body: maps are descended, lists are atomic except
// metadata.ownerReferences (map keyed by uid) and metadata.finalizers (set).
func Leaves(body map[string]any, hasStatus bool) map[string]any {
	out := map[string]any{}
	var walk func(v any, path string)
	walk = func(v any, path string) {
		if applySkip[path] || (hasStatus && path == "status") {
			return
		}
		switch t := v.(type) {
		case map[string]any:
			if len(t) == 0 && path != "" {
				out[path] = t
				return
			}
			for k, e := range t {
				p := k
				if path != "" {
					p = path + sep + k
				}
				walk(e, p)
			}
		case []any:
			switch path {
			case "metadata" + sep + "ownerReferences":
				for _, e := range t {
					if em, ok := e.(map[string]any); ok {
						uid, _ := em["uid"].(string)
						out[path+sep+"uid="+uid] = em
					}
				}
			case "metadata" + sep + "finalizers":
				for _, e := range t {
					if es, ok := e.(string); ok {
						out[path+sep+es] = es
					}
				}
			default:
				out[path] = t
			}
		default:
			out[path] = v
		}
	}
	walk(body, "")
	return out
}

func getPath(c map[string]any, path string) (any, bool) {
	parts := strings.Split(path, sep)
	var cur any = c
	for i, p := range parts {
		if m, ok := cur.(map[string]any); ok {
			v, ok := m[p]
			if !ok {
				return nil, false
			}
			cur = v
			continue
		}
		if l, ok := cur.([]any); ok && i == len(parts)-1 {
			if strings.HasPrefix(p, "uid=") {
				for _, e := range l {
					if em, ok := e.(map[string]any); ok && em["uid"] == strings.TrimPrefix(p, "uid=") {
						return em, true
					}
				}
				return nil, false
			}
			for _, e := range l {
				if e == p {
					return e, true
				}
			}
			return nil, false
		}
		return nil, false
	}
	return cur, true
}

func setPath(c map[string]any, path string, v any) {
	parts := strings.Split(path, sep)
	cur := c
	for i := 0; i < len(parts)-1; i++ {
		p := parts[i]
		if i >= 1 && i == len(parts)-2 && p == "ownerReferences" && parts[i-1] == "metadata" && strings.HasPrefix(parts[i+1], "uid=") {
			l, _ := cur[p].([]any)
			uid := strings.TrimPrefix(parts[i+1], "uid=")
			for j, e := range l {
				if em, ok := e.(map[string]any); ok && em["uid"] == uid {
					l[j] = runtime.DeepCopyJSONValue(v)
					return
				}
			}
			cur[p] = append(l, runtime.DeepCopyJSONValue(v))
			return
		}
		if i >= 1 && i == len(parts)-2 && p == "finalizers" && parts[i-1] == "metadata" {
			l, _ := cur[p].([]any)
			for _, e := range l {
				if e == v {
					return
				}
			}
			cur[p] = append(l, v)
			return
		}
		next, ok := cur[p].(map[string]any)
		if !ok {
			next = map[string]any{}
			cur[p] = next
		}
		cur = next
	}
	cur[parts[len(parts)-1]] = runtime.DeepCopyJSONValue(v)
}

func removePath(c map[string]any, path string) {
	parts := strings.Split(path, sep)
	var rec func(cur map[string]any, i int)
	rec = func(cur map[string]any, i int) {
		p := parts[i]
		if i == len(parts)-1 {
			delete(cur, p)
			return
		}
		switch t := cur[p].(type) {
		case map[string]any:
			rec(t, i+1)
			if len(t) == 0 {
				delete(cur, p)
			}
		case []any:
			if i != len(parts)-2 {
				return
			}
			last := parts[i+1]
			var nl []any
			for _, e := range t {
				if em, ok := e.(map[string]any); ok && strings.HasPrefix(last, "uid=") && em["uid"] == strings.TrimPrefix(last, "uid=") {
					continue
				}
				if es, ok := e.(string); ok && es == last {
					continue
				}
				nl = append(nl, e)
			}
			if len(nl) == 0 {
				delete(cur, p)
			} else {
				cur[p] = nl
			}
		}
	}
	rec(c, 0)
}

// Apply implements PATCH application/apply-patch+yaml for the (single modelled) field manager.
func (s *Store) Apply(k Key, body map[string]any, force bool, dryRun bool) (map[string]any, *apierrors.StatusError) {
	info := s.Kinds[k.GK()]
	leaves := Leaves(body, info.HasStatus)
	applied := make(map[string]bool, len(leaves))
	for p := range leaves {
		applied[p] = true
	}
	old, ok := s.Objs[k]
	if !ok {
		return s.Create(k, body, applied, dryRun)
	}
	if e := s.checkPre(k, old, body); e != nil {
		return nil, e
	}
	if !force {
		var conflicts []string
		for p, v := range leaves {
			if old.Applied[p] {
				continue
			}
			if cur, ok := getPath(old.Content, p); ok && Digest(map[string]any{"v": cur}) != Digest(map[string]any{"v": v}) {
				conflicts = append(conflicts, strings.ReplaceAll(p, sep, "."))
			}
		}
		if len(conflicts) > 0 {
			sort.Strings(conflicts)
			return nil, apierrors.NewConflict(gr(k), k.Name, fmt.Errorf("Apply failed with %d conflict(s): conflict with \"other\": %s", len(conflicts), strings.Join(conflicts, ", ")))
		}
	}
	neu := deepCopy(old.Content)
	var gone []string
	for p := range old.Applied {
		if !applied[p] {
			gone = append(gone, p)
		}
	}
	sort.Strings(gone)
	for _, p := range gone {
		removePath(neu, p)
	}
	ps := make([]string, 0, len(leaves))
	for p := range leaves {
		ps = append(ps, p)
	}
	sort.Strings(ps)
	for _, p := range ps {
		setPath(neu, p, leaves[p])
	}
	if e := s.validate(k, neu); e != nil {
		return nil, e
	}
	return s.finish(k, old, neu, applied, dryRun), nil
}

// DeleteOpts are the options of a DELETE request.
type DeleteOpts struct {
	UID, RV     *string
	Propagation string // "", Background, Foreground, Orphan
	DryRun      bool
}

// Delete implements DELETE.
func (s *Store) Delete(k Key, o DeleteOpts) *apierrors.StatusError {
	old, ok := s.Objs[k]
	if !ok {
		return apierrors.NewNotFound(gr(k), k.Name)
	}
	if o.UID != nil && *o.UID != UID(old.Content) {
		return apierrors.NewConflict(gr(k), k.Name, fmt.Errorf("Precondition failed: UID in precondition: %v, UID in object meta: %v", *o.UID, UID(old.Content)))
	}
	if o.RV != nil && *o.RV != RVOf(old.Content) {
		return apierrors.NewConflict(gr(k), k.Name, fmt.Errorf("Precondition failed: ResourceVersion in precondition: %v, ResourceVersion in object meta: %v", *o.RV, RVOf(old.Content)))
	}
	if o.DryRun {
		return nil
	}
	if Terminating(old.Content) {
		return nil
	}
	fin := Finalizers(old.Content)
	switch o.Propagation {
	case "Orphan":
		fin = appendUnique(fin, "orphan")
	case "Foreground":
		fin = appendUnique(fin, "foregroundDeletion")
	}
	if len(fin) == 0 && !s.Graceful[k.GK()] {
		delete(s.Objs, k)
		s.nextRV()
		return nil
	}
	c := deepCopy(old.Content)
	s.Objs[k] = &Obj{Content: c, Applied: old.Applied, Inc: old.Inc, Legacy: old.Legacy, Prev: old.Content}
	m := meta(c)
	l := make([]any, len(fin))
	for i, f := range fin {
		l[i] = f
	}
	if len(l) > 0 {
		m["finalizers"] = l
	}
	m["deletionTimestamp"] = s.now()
	m["resourceVersion"] = s.nextRV()
	return nil
}

func appendUnique(l []string, s string) []string {
	for _, e := range l {
		if e == s {
			return l
		}
	}
	return append(l, s)
}
