// Package kmodel is a deterministic, cloneable model of the Kubernetes API server as far as
// package-operator relies on it (DESIGN.md §3): optimistic concurrency, delete preconditions,
// finalizers, status subresource, generation, the one-controller rule, server-side apply with
// per-manager field tracking, scope handling and dry run.
package kmodel

import (
	"fmt"
	"sort"
	"strconv"
	"strings"

	"k8s.io/apimachinery/pkg/runtime"
	"k8s.io/apimachinery/pkg/runtime/schema"
)

// Key identifies a stored object (the version is not part of the identity).
type Key struct {
	Group, Kind, Namespace, Name string
}

func (k Key) String() string {
	g := k.Kind
	if k.Group != "" {
		g = k.Kind + "." + k.Group
	}
	if k.Namespace != "" {
		return g + "/" + k.Namespace + "/" + k.Name
	}
	return g + "//" + k.Name
}

// GK of the key.
func (k Key) GK() schema.GroupKind { return schema.GroupKind{Group: k.Group, Kind: k.Kind} }

// KindInfo describes a registered API kind.
type KindInfo struct {
	Group, Version, Kind string
	Namespaced           bool
	HasStatus            bool // status subresource
}

// Obj is one stored object.
type Obj struct {
	Content map[string]any  // JSON content incl. metadata; never contains managedFields
	Applied map[string]bool // leaf paths last applied by field manager package-operator
	Inc     int             // incarnation number of this key (1 = first object ever created under the key)
	// Legacy: the tracked field managers (LegacyManagers) that own fields of the object through a
	// non-apply write (managedFields entries with operation Update), sorted. The slice is never
	// modified in place.
	Legacy []string
	// Prev is the content the object had before its latest write (nil for a freshly created one):
	// what an informer cache that is one event behind still serves.
	Prev map[string]any
}

// LegacyManagers are the field managers whose client-side (non-apply) writes the model records
// in metadata.managedFields: the names package-operator has used over time. Entries of other
// managers (kubectl, workload controllers) exist on a real cluster too; nothing here reads them.
var LegacyManagers = map[string]bool{"package-operator": true, "package-operator-manager": true, "remote-phase-manger": true}

// ManagedFields renders the metadata.managedFields the API server would report for o: one Update
// entry per legacy manager and the Apply entry of field manager package-operator if it applied
// anything. The field sets are placeholders (valid FieldsV1, not the real ownership).
func (o *Obj) ManagedFields() []any {
	var out []any
	av, _ := o.Content["apiVersion"].(string)
	entry := func(manager, op string, fields map[string]any) map[string]any {
		return map[string]any{"manager": manager, "operation": op, "apiVersion": av, "time": "2026-01-01T00:00:00Z", "fieldsType": "FieldsV1", "fieldsV1": fields}
	}
	if len(o.Applied) > 0 {
		out = append(out, entry("package-operator", "Apply", map[string]any{"f:spec": map[string]any{}}))
	}
	for _, m := range o.Legacy {
		out = append(out, entry(m, "Update", map[string]any{"f:metadata": map[string]any{"f:ownerReferences": map[string]any{}}}))
	}
	return out
}

func (o *Obj) withLegacy(m string) []string {
	for _, e := range o.Legacy {
		if e == m {
			return o.Legacy
		}
	}
	n := append(append([]string{}, o.Legacy...), m)
	sort.Strings(n)
	return n
}

func (o *Obj) clone() *Obj {
	n := &Obj{Content: runtime.DeepCopyJSON(o.Content), Inc: o.Inc, Legacy: o.Legacy, Prev: o.Prev}
	if o.Applied != nil {
		n.Applied = make(map[string]bool, len(o.Applied))
		for k := range o.Applied {
			n.Applied[k] = true
		}
	}
	return n
}

// Store is the whole API state.
type Store struct {
	Objs  map[Key]*Obj
	Kinds map[schema.GroupKind]KindInfo
	Incs  map[Key]int
	RV    int64
	UIDs  int64
	Clock int64
	// Graceful: kinds whose objects outlive their DELETE without any metadata finalizer (a Pod in
	// graceful termination, a Namespace held by spec.finalizers): the delete only sets
	// deletionTimestamp, the object goes away when FinishGraceful is called for it.
	Graceful map[schema.GroupKind]bool
	// Admission: per object key, how admission answers writes and dry runs for it right now
	// ("noreason", "internal", "unavailable", "toomany"); absent = normal
	Admission map[Key]string
}

// NewStore returns an empty store with the given kinds registered.
func NewStore(kinds []KindInfo) *Store {
	s := &Store{Objs: map[Key]*Obj{}, Kinds: map[schema.GroupKind]KindInfo{}, Incs: map[Key]int{}}
	for _, k := range kinds {
		s.Kinds[schema.GroupKind{Group: k.Group, Kind: k.Kind}] = k
	}
	return s
}

// Clone deep-copies the store (kinds are shared: they are immutable).
func (s *Store) Clone() *Store {
	n := &Store{Objs: make(map[Key]*Obj, len(s.Objs)), Kinds: s.Kinds, Incs: make(map[Key]int, len(s.Incs)), RV: s.RV, UIDs: s.UIDs, Clock: s.Clock, Graceful: s.Graceful}
	if len(s.Admission) > 0 {
		n.Admission = make(map[Key]string, len(s.Admission))
		for k, v := range s.Admission {
			n.Admission[k] = v
		}
	}
	for k, o := range s.Objs {
		n.Objs[k] = o.clone()
	}
	for k, v := range s.Incs {
		n.Incs[k] = v
	}
	return n
}

// FinishGraceful removes a terminating object of a graceful kind that no finalizer holds (the
// kubelet / namespace controller is done with it). It reports whether it removed something.
func (s *Store) FinishGraceful(k Key) bool {
	o := s.Objs[k]
	if o == nil || !s.Graceful[k.GK()] || !Terminating(o.Content) || len(Finalizers(o.Content)) > 0 {
		return false
	}
	delete(s.Objs, k)
	s.nextRV()
	return true
}

// SortedKeys returns all keys in canonical order.
func (s *Store) SortedKeys() []Key {
	ks := make([]Key, 0, len(s.Objs))
	for k := range s.Objs {
		ks = append(ks, k)
	}
	sort.Slice(ks, func(i, j int) bool { return ks[i].String() < ks[j].String() })
	return ks
}

// Get returns the stored object or nil.
func (s *Store) Get(k Key) *Obj { return s.Objs[k] }

func (s *Store) nextRV() string {
	s.RV++
	return strconv.FormatInt(s.RV, 10)
}

func (s *Store) now() string {
	s.Clock++
	// logical clock rendered as RFC3339 (seconds since a fixed epoch)
	sec := s.Clock
	return fmt.Sprintf("2026-01-01T%02d:%02d:%02dZ", (sec/3600)%24, (sec/60)%60, sec%60)
}

// ---- metadata helpers on JSON content ----

func meta(c map[string]any) map[string]any {
	m, _ := c["metadata"].(map[string]any)
	if m == nil {
		m = map[string]any{}
		c["metadata"] = m
	}
	return m
}

func metaStr(c map[string]any, f string) string {
	m, _ := c["metadata"].(map[string]any)
	if m == nil {
		return ""
	}
	s, _ := m[f].(string)
	return s
}

// UID of content.
func UID(c map[string]any) string { return metaStr(c, "uid") }

// Touch bumps the resourceVersion of k without any change visible in the model (a write by
// another actor to a part of the object the model does not keep, e.g. managedFields).
func (s *Store) Touch(k Key) bool {
	o := s.Objs[k]
	if o == nil {
		return false
	}
	c := runtime.DeepCopyJSON(o.Content)
	c["metadata"].(map[string]any)["resourceVersion"] = s.nextRV()
	o.Prev = o.Content
	o.Content = c
	return true
}

// RVOf content.
func RVOf(c map[string]any) string { return metaStr(c, "resourceVersion") }

// Terminating reports whether deletionTimestamp is set.
func Terminating(c map[string]any) bool { return metaStr(c, "deletionTimestamp") != "" }

// Finalizers of content.
func Finalizers(c map[string]any) []string {
	m, _ := c["metadata"].(map[string]any)
	if m == nil {
		return nil
	}
	l, _ := m["finalizers"].([]any)
	var out []string
	for _, f := range l {
		if s, ok := f.(string); ok {
			out = append(out, s)
		}
	}
	return out
}

// OwnerRef is a parsed metadata.ownerReferences entry.
type OwnerRef struct {
	APIVersion, Kind, Name, UID string
	Controller, Block          bool
}

// OwnerRefs of content.
func OwnerRefs(c map[string]any) []OwnerRef {
	m, _ := c["metadata"].(map[string]any)
	if m == nil {
		return nil
	}
	l, _ := m["ownerReferences"].([]any)
	var out []OwnerRef
	for _, e := range l {
		em, ok := e.(map[string]any)
		if !ok {
			continue
		}
		r := OwnerRef{}
		r.APIVersion, _ = em["apiVersion"].(string)
		r.Kind, _ = em["kind"].(string)
		r.Name, _ = em["name"].(string)
		r.UID, _ = em["uid"].(string)
		r.Controller, _ = em["controller"].(bool)
		r.Block, _ = em["blockOwnerDeletion"].(bool)
		out = append(out, r)
	}
	return out
}

// Labels of content.
func Labels(c map[string]any) map[string]string { return strMap(c, "labels") }

// Annotations of content.
func Annotations(c map[string]any) map[string]string { return strMap(c, "annotations") }

func strMap(c map[string]any, f string) map[string]string {
	m, _ := c["metadata"].(map[string]any)
	if m == nil {
		return nil
	}
	l, _ := m[f].(map[string]any)
	out := map[string]string{}
	for k, v := range l {
		if s, ok := v.(string); ok {
			out[k] = s
		}
	}
	return out
}

// Digest renders content canonically without volatile metadata (resourceVersion, managedFields).
func Digest(c map[string]any) string {
	if c == nil {
		return "<absent>"
	}
	var sb strings.Builder
	writeCanon(&sb, c, "", func(path string) bool {
		return path == "metadata.resourceVersion" || path == "metadata.managedFields"
	})
	return sb.String()
}

func writeCanon(sb *strings.Builder, v any, path string, skip func(string) bool) {
	switch t := v.(type) {
	case map[string]any:
		ks := make([]string, 0, len(t))
		for k := range t {
			ks = append(ks, k)
		}
		sort.Strings(ks)
		sb.WriteByte('{')
		for _, k := range ks {
			p := k
			if path != "" {
				p = path + "." + k
			}
			if skip != nil && skip(p) {
				continue
			}
			sb.WriteString(strconv.Quote(k))
			sb.WriteByte(':')
			writeCanon(sb, t[k], p, skip)
			sb.WriteByte(',')
		}
		sb.WriteByte('}')
	case []any:
		sb.WriteByte('[')
		for _, e := range t {
			writeCanon(sb, e, path+"[]", skip)
			sb.WriteByte(',')
		}
		sb.WriteByte(']')
	case string:
		sb.WriteString(strconv.Quote(t))
	case nil:
		sb.WriteString("null")
	default:
		fmt.Fprintf(sb, "%v", t)
	}
}
