// Package osw holds scenario builders, event generators and pass-observation helpers shared
// by the ObjectSet-level world checks (C02-C06, C09, C10, C14, C15).
package osw

import (
	"fmt"
	"sort"
	"strings"

	corev1 "k8s.io/api/core/v1"
	metav1 "k8s.io/apimachinery/pkg/apis/meta/v1"
	"k8s.io/apimachinery/pkg/types"

	corev1alpha1 "package-operator.run/apis/core/v1alpha1"
	"package-operator.run/internal/packages/zzverif/kmodel"
	"package-operator.run/internal/packages/zzverif/world"
)

// ObjRef names a scenario object.
type ObjRef struct{ Kind, Name string }

// PhaseCfg is one phase of a scenario ObjectSet.
type PhaseCfg struct {
	Name      string
	Delegated bool
	Objects   []ObjRef
}

// Key of the object in the default namespace.
func (o ObjRef) Key() kmodel.Key { return world.KeyOf(o.Kind, world.NS, o.Name) }

// B1 returns the standard phases p1{a:Widget} p2{b:Widget,g:Gadget} p3{c:Widget}; n limits the
// number of phases; delegated is a bit mask.
func B1(n int, delegated uint) []PhaseCfg {
	all := []PhaseCfg{
		{Name: "p1", Objects: []ObjRef{{"Widget", "a"}}},
		{Name: "p2", Objects: []ObjRef{{"Widget", "b"}, {"Gadget", "g"}}},
		{Name: "p3", Objects: []ObjRef{{"Widget", "c"}}},
	}
	all = all[:n]
	for i := range all {
		all[i].Delegated = delegated&(1<<uint(i)) != 0
	}
	return all
}

// PhaseSpecs converts to API phases.
func PhaseSpecs(cfg []PhaseCfg, specX int64) []world.PhaseSpec {
	var out []world.PhaseSpec
	for _, p := range cfg {
		ps := world.PhaseSpec{Name: p.Name}
		if p.Delegated {
			ps.Class = world.PhaseClass
		}
		for _, o := range p.Objects {
			ps.Objects = append(ps.Objects, world.O(world.Obj(o.Kind, "", o.Name, map[string]any{"x": specX})))
		}
		out = append(out, ps)
	}
	return out
}

// NewWorld returns a world with the namespace object present (the remote-phase teardown reads it).
func NewWorld() *world.World {
	w := world.New()
	w.MustCreate(&corev1.Namespace{ObjectMeta: metav1.ObjectMeta{Name: world.NS}})
	return w
}

// OSKey is the store key of an ObjectSet in the default namespace.
func OSKey(name string) kmodel.Key { return world.PKOKey("ObjectSet", world.NS, name) }

// PhaseKey is the store key of the ObjectSetPhase realising a delegated phase.
func PhaseKey(os, phase string) kmodel.Key {
	return world.PKOKey("ObjectSetPhase", world.NS, os+"-"+phase)
}

// NN of a namespaced name in the default namespace.
func NN(name string) types.NamespacedName {
	return types.NamespacedName{Namespace: world.NS, Name: name}
}

// ReconcileEvents lists a reconcile event for every ObjectSet and every ObjectSetPhase of the served class.
func ReconcileEvents(w *world.World) []world.Event {
	var evs []world.Event
	for _, k := range w.S.SortedKeys() {
		k := k
		switch {
		case k.Group == "package-operator.run" && k.Kind == "ObjectSet":
			evs = append(evs, world.Event{Name: "reconcile:os:" + k.Name, Apply: func(w *world.World) *world.Pass {
				return w.Reconcile(world.CtrlObjectSet, NN(k.Name), nil)
			}})
		case k.Group == "package-operator.run" && k.Kind == "ObjectSetPhase":
			if kmodel.Labels(w.S.Objs[k].Content)[corev1alpha1.ObjectSetPhaseClassLabel] != world.PhaseClass {
				continue
			}
			evs = append(evs, world.Event{Name: "reconcile:phase:" + k.Name, Apply: func(w *world.World) *world.Pass {
				return w.Reconcile(world.CtrlPhase, NN(k.Name), nil)
			}})
		case k.Group == "package-operator.run" && k.Kind == "Package" && w.Pkg != nil:
			evs = append(evs, world.Event{Name: "reconcile:pkg:" + k.Name, Apply: func(w *world.World) *world.Pass {
				return w.Reconcile(world.CtrlPackage, NN(k.Name), nil)
			}})
		case k.Group == "package-operator.run" && k.Kind == "ObjectTemplate":
			evs = append(evs, world.Event{Name: "reconcile:template:" + k.Name, Apply: func(w *world.World) *world.Pass {
				return w.Reconcile(world.CtrlObjectTemplate, NN(k.Name), nil)
			}})
		case k.Group == "package-operator.run" && k.Kind == "ObjectDeployment":
			evs = append(evs, world.Event{Name: "reconcile:od:" + k.Name, Apply: func(w *world.World) *world.Pass {
				return w.Reconcile(world.CtrlObjectDeployment, NN(k.Name), nil)
			}})
		}
	}
	return evs
}

// Status alphabet of workload objects.
var StatusNames = []string{"none", "ready", "notready", "stale"}

// StatusFor builds the status of the given class for an object content.
func StatusFor(c map[string]any, class string) map[string]any {
	g := world.Generation(c)
	x, _ := world.Nested(c, "spec", "x")
	switch class {
	case "none":
		return nil
	case "ready":
		s := world.ReadyStatus(g)
		s["x"], s["mirror"] = x, x
		return s
	case "notready":
		s := world.NotReadyStatus(g)
		s["x"], s["mirror"] = int64(-1), int64(-2)
		return s
	case "stale":
		s := world.ReadyStatus(g + 7)
		s["x"], s["mirror"] = x, x
		return s
	case "stale0":
		// an explicit observedGeneration: 0 (a zero value written before the first real sync)
		s := world.ReadyStatus(0)
		s["x"], s["mirror"] = x, x
		return s
	}
	panic("bad status class " + class)
}

// StatusClass classifies the current status of content.
func StatusClass(c map[string]any) string {
	st, ok := c["status"].(map[string]any)
	if !ok || len(st) == 0 {
		return "none"
	}
	og, _ := st["observedGeneration"].(int64)
	if og == 0 && world.Generation(c) != 0 {
		return "stale0"
	}
	if og != world.Generation(c) {
		return "stale"
	}
	if RefProbe(c) {
		return "ready"
	}
	return "notready"
}

// WorkloadEvents lets the workload controller move each existing test object to another status class.
func WorkloadEvents(w *world.World, classes []string) []world.Event {
	var evs []world.Event
	for _, k := range w.S.SortedKeys() {
		if k.Group != world.TestGroup {
			continue
		}
		k := k
		cur := StatusClass(w.S.Objs[k].Content)
		for _, cl := range classes {
			if cl == cur {
				continue
			}
			cl := cl
			evs = append(evs, world.Event{Name: fmt.Sprintf("workload:%s/%s=%s", k.Kind, k.Name, cl), Apply: func(w *world.World) *world.Pass {
				if o := w.S.Objs[k]; o != nil {
					_ = w.SetStatus(k, StatusFor(o.Content, cl))
				}
				return nil
			}})
		}
	}
	return evs
}

// GCEvent runs the garbage collector if it would change anything.
func GCEvent(w *world.World) []world.Event {
	probe := w.Clone()
	before := probe.Canon()
	probe.GC()
	if probe.Canon() == before {
		return nil
	}
	return []world.Event{{Name: "gc", Apply: func(w *world.World) *world.Pass { w.GC(); return nil }}}
}

// RefProbe is the reference prober for world.StdProbes(): Widgets need condition Ready=True,
// Gadgets need .spec.x == .status.x; a declared observedGeneration must equal the generation.
func RefProbe(c map[string]any) bool {
	if c == nil {
		return false
	}
	kind, _ := c["kind"].(string)
	st, _ := c["status"].(map[string]any)
	gen := world.Generation(c)
	if og, ok := st["observedGeneration"].(int64); ok && og != gen {
		return false
	}
	switch kind {
	case "Widget":
		l, _ := st["conditions"].([]any)
		for _, e := range l {
			m, _ := e.(map[string]any)
			if m["type"] != "Ready" {
				continue
			}
			if og, ok := m["observedGeneration"].(int64); ok && og != gen {
				return false
			}
			return m["status"] == "True"
		}
		return false
	case "Gadget":
		x, ok1 := world.Nested(c, "spec", "x")
		sx, ok2 := st["x"]
		return ok1 && ok2 && x == sx
	}
	return true
}

// ---- pass observation ----

// View reconstructs what a pass saw and the store content at each request.
type View struct {
	Before *kmodel.Store
	Pass   *world.Pass
}

// LastResponse returns the last answer the pass received for key k before request index i
// (reads and write responses), and whether there was one; a NotFound answer yields (nil,true).
func (v View) LastResponse(k kmodel.Key, i int) (map[string]any, bool) {
	for j := i - 1; j >= 0; j-- {
		r := v.Pass.Reqs[j]
		if r.Key != k || r.DryRun {
			continue
		}
		if r.Verb == "list" {
			continue
		}
		if r.Err != nil {
			if isNotFound(r) {
				return nil, true
			}
			continue
		}
		if r.Verb == "delete" {
			continue
		}
		if r.Resp != nil {
			return r.Resp, true
		}
	}
	return nil, false
}

func isNotFound(r *kmodel.Request) bool {
	return r.Err != nil && strings.Contains(r.String(), "NotFound")
}

// ContentAt returns the stored content of k just before request i of the pass.
func (v View) ContentAt(k kmodel.Key, i int) map[string]any {
	for j := i - 1; j >= 0; j-- {
		r := v.Pass.Reqs[j]
		if r.Key == k && r.IsWrite() && r.Err == nil {
			return r.Post
		}
	}
	if o := v.Before.Objs[k]; o != nil {
		return o.Content
	}
	return nil
}

// ---- spec helpers ----

// SpecPhase is a phase as found in a stored ObjectSet.
type SpecPhase struct {
	Name    string
	Class   string
	Objects []kmodel.Key
}

// SpecPhases parses spec.phases of a stored ObjectSet (inline objects only).
// ProbeFor returns the reference prober for the availability probes an ObjectSet (or
// ObjectSetPhase) content declares: none (present objects pass), world.CELProbes (a Widget needs
// a Ready=True condition; nothing selects other kinds) or world.StdProbes (RefProbe).
func ProbeFor(owner map[string]any) func(map[string]any) bool {
	pr, _ := world.Nested(owner, "spec", "availabilityProbes")
	prl, _ := pr.([]any)
	switch {
	case len(prl) == 0:
		return func(map[string]any) bool { return true }
	case strings.Contains(kmodel.Digest(map[string]any{"p": pr}), ".status.mirror"):
		// world.FEProbes: as RefProbe, but a Gadget needs .status.x and .status.mirror present and equal
		return func(c map[string]any) bool {
			if k, _ := c["kind"].(string); k != "Gadget" {
				return RefProbe(c)
			}
			st, _ := c["status"].(map[string]any)
			if og, ok := st["observedGeneration"].(int64); ok && og != world.Generation(c) {
				return false
			}
			a, ok1 := st["x"]
			b, ok2 := st["mirror"]
			return ok1 && ok2 && a == b
		}
	case strings.Contains(kmodel.Digest(map[string]any{"p": pr}), "self.status.conditions.exists"):
		return func(c map[string]any) bool {
			if k, _ := c["kind"].(string); k != "Widget" {
				return true
			}
			st, _, _, ok := world.Condition(c, "Ready")
			return ok && st == "True"
		}
	}
	return RefProbe
}

// SpecPhasesIn is SpecPhases with the phases' ObjectSlices (as stored in s) inlined after the
// inline objects, the way the slice loader does it; a missing slice contributes nothing.
func SpecPhasesIn(s *kmodel.Store, os map[string]any, ns string) []SpecPhase {
	out := SpecPhases(os, ns)
	ph, _ := world.Nested(os, "spec", "phases")
	l, _ := ph.([]any)
	for i, e := range l {
		m, _ := e.(map[string]any)
		sl, _ := m["slices"].([]any)
		for _, sn := range sl {
			so := s.Objs[world.PKOKey("ObjectSlice", ns, fmt.Sprint(sn))]
			if so == nil {
				continue
			}
			objs, _ := so.Content["objects"].([]any)
			for _, oe := range objs {
				om, _ := oe.(map[string]any)
				obj, _ := om["object"].(map[string]any)
				out[i].Objects = append(out[i].Objects, keyOfContent(obj, ns))
			}
		}
	}
	return out
}

func SpecPhases(os map[string]any, ns string) []SpecPhase {
	var out []SpecPhase
	ph, _ := world.Nested(os, "spec", "phases")
	l, _ := ph.([]any)
	for _, e := range l {
		m, _ := e.(map[string]any)
		sp := SpecPhase{}
		sp.Name, _ = m["name"].(string)
		sp.Class, _ = m["class"].(string)
		objs, _ := m["objects"].([]any)
		for _, oe := range objs {
			om, _ := oe.(map[string]any)
			obj, _ := om["object"].(map[string]any)
			sp.Objects = append(sp.Objects, keyOfContent(obj, ns))
		}
		out = append(out, sp)
	}
	return out
}

func keyOfContent(obj map[string]any, defNS string) kmodel.Key {
	av, _ := obj["apiVersion"].(string)
	kind, _ := obj["kind"].(string)
	md, _ := obj["metadata"].(map[string]any)
	name, _ := md["name"].(string)
	ns, _ := md["namespace"].(string)
	if ns == "" {
		ns = defNS
	}
	g := ""
	if i := strings.Index(av, "/"); i >= 0 {
		g = av[:i]
	}
	return kmodel.Key{Group: g, Kind: kind, Namespace: ns, Name: name}
}

// ControlsTransitively reports whether the ObjectSet `os` controls obj directly or through an
// ObjectSetPhase that it controls (lookup in store s).
func ControlsTransitively(s *kmodel.Store, obj map[string]any, os world.Ident) bool {
	if obj == nil {
		return false
	}
	if world.ControlledBy(obj, false, os) {
		return true
	}
	for _, c := range world.Controllers(obj, false) {
		if c.Kind != "ObjectSetPhase" {
			continue
		}
		pk := world.PKOKey("ObjectSetPhase", metaNS(obj), c.Name)
		p := s.Objs[pk]
		if p != nil && kmodel.UID(p.Content) == c.UID && world.ControlledBy(p.Content, false, os) {
			return true
		}
	}
	return false
}

func metaNS(c map[string]any) string {
	m, _ := c["metadata"].(map[string]any)
	ns, _ := m["namespace"].(string)
	return ns
}

// Lifecycle returns spec.lifecycleState of a stored ObjectSet.
func Lifecycle(os map[string]any) string {
	v, _ := world.Nested(os, "spec", "lifecycleState")
	s, _ := v.(string)
	return s
}

// HasFinalizer reports whether content carries finalizer f.
func HasFinalizer(c map[string]any, f string) bool {
	for _, x := range kmodel.Finalizers(c) {
		if x == f {
			return true
		}
	}
	return false
}

// ControllerOfList renders status.controllerOf of a stored ObjectSet/phase as sorted key strings.
func ControllerOfList(c map[string]any) []string {
	v, _ := world.Nested(c, "status", "controllerOf")
	l, _ := v.([]any)
	var out []string
	for _, e := range l {
		m, _ := e.(map[string]any)
		out = append(out, fmt.Sprintf("%v.%v/%v/%v", m["kind"], m["group"], m["namespace"], m["name"]))
	}
	sort.Strings(out)
	return out
}

// KeyString renders a store key in the ControllerOfList format.
func KeyString(k kmodel.Key) string {
	return fmt.Sprintf("%s.%s/%s/%s", k.Kind, k.Group, k.Namespace, k.Name)
}

// ---- report glue ----

// SetLifecycle edits spec.lifecycleState of an ObjectSet as the user would.
func SetLifecycle(w *world.World, os string, state string) {
	_ = w.Edit(OSKey(os), func(c map[string]any) {
		c["spec"].(map[string]any)["lifecycleState"] = state
	})
}

// PauseEvents offers pause/unpause of the named ObjectSet while the budget lasts.
func PauseEvents(w *world.World, os string) []world.Event {
	o := w.S.Objs[OSKey(os)]
	if o == nil || w.Budget["user-pause"] <= 0 || kmodel.Terminating(o.Content) {
		return nil
	}
	cur := Lifecycle(o.Content)
	if cur == "Archived" {
		return nil
	}
	next, name := "Paused", "user:pause:"+os
	if cur == "Paused" {
		next, name = "Active", "user:unpause:"+os
	}
	return []world.Event{{Name: name, Apply: func(w *world.World) *world.Pass {
		w.Budget["user-pause"]--
		SetLifecycle(w, os, next)
		return nil
	}}}
}

// Settle runs all reconciles fairly (marking every workload object ready in between) until the
// world stops changing; it returns false if it did not quiesce within maxRounds.
func Settle(w *world.World, maxRounds int, ready bool) bool {
	for r := 0; r < maxRounds; r++ {
		before := w.Canon()
		for _, ev := range ReconcileEvents(w) {
			ev.Apply(w)
		}
		if ready {
			for _, k := range w.S.SortedKeys() {
				if k.Group == world.TestGroup {
					o := w.S.Objs[k]
					if StatusClass(o.Content) != "ready" {
						_ = w.SetStatus(k, StatusFor(o.Content, "ready"))
					}
				}
			}
		}
		w.GC()
		if w.Canon() == before {
			return true
		}
	}
	return false
}

// AddFinalizer adds a foreign finalizer to k.
func AddFinalizer(w *world.World, k kmodel.Key, f string) {
	_ = w.Edit(k, func(c map[string]any) {
		m := c["metadata"].(map[string]any)
		l, _ := m["finalizers"].([]any)
		m["finalizers"] = append(l, f)
	})
}

// HoldFinalizer is the foreign finalizer used by scenarios.
const HoldFinalizer = "example.com/hold"

// ReleaseEvents lets the finalizer holder release its finalizer on terminating objects.
func ReleaseEvents(w *world.World) []world.Event {
	var evs []world.Event
	for _, k := range w.S.SortedKeys() {
		o := w.S.Objs[k]
		if k.Group == world.TestGroup && kmodel.Terminating(o.Content) && HasFinalizer(o.Content, HoldFinalizer) {
			k := k
			evs = append(evs, world.Event{Name: "release:" + k.Kind + "/" + k.Name, Apply: func(w *world.World) *world.Pass {
				_ = w.DropFinalizer(k, HoldFinalizer)
				return nil
			}})
		}
	}
	return evs
}

// CrashEvents offers, for every reconcile event, a variant that crashes the operator right
// before request i of the pass (for every i), while the restart budget lasts.
func CrashEvents(w *world.World) []world.Event {
	if w.Budget["restart"] <= 0 {
		return nil
	}
	var evs []world.Event
	for _, k := range w.S.SortedKeys() {
		var ctrl string
		switch {
		case k.Group == "package-operator.run" && k.Kind == "ObjectSet":
			ctrl = world.CtrlObjectSet
		case k.Group == "package-operator.run" && k.Kind == "ObjectSetPhase":
			ctrl = world.CtrlPhase
		default:
			continue
		}
		probe := w.Clone()
		n := len(probe.Reconcile(ctrl, NN(k.Name), nil).Reqs)
		for i := 1; i < n; i++ {
			i, ctrl, name := i, ctrl, k.Name
			evs = append(evs, world.Event{Name: fmt.Sprintf("crash:%s:%s@%d", strings.ToLower(ctrl), name, i), Apply: func(w *world.World) *world.Pass {
				w.Budget["restart"]--
				return w.Reconcile(ctrl, NN(name), &world.Plan{FaultAt: i, Fault: world.Crash})
			}})
		}
	}
	return evs
}

// OwnerOfPhase resolves which ObjectSet (key) and phase index a delegated phase object belongs to.
func OwnerOfPhase(s *kmodel.Store, phaseKey kmodel.Key) (kmodel.Key, int, bool) {
	p := s.Objs[phaseKey]
	if p == nil {
		return kmodel.Key{}, 0, false
	}
	for _, c := range world.Controllers(p.Content, false) {
		if c.Kind != "ObjectSet" {
			continue
		}
		ok := world.PKOKey("ObjectSet", phaseKey.Namespace, c.Name)
		os := s.Objs[ok]
		if os == nil || kmodel.UID(os.Content) != c.UID {
			continue
		}
		for i, sp := range SpecPhases(os.Content, ok.Namespace) {
			if sp.Class != "" && PhaseKey(c.Name, sp.Name) == phaseKey {
				return ok, i, true
			}
		}
	}
	return kmodel.Key{}, 0, false
}

// PhaseObjects returns the object keys of a stored ObjectSetPhase.
func PhaseObjects(p map[string]any, ns string) []kmodel.Key {
	v, _ := world.Nested(p, "spec", "objects")
	l, _ := v.([]any)
	var out []kmodel.Key
	for _, e := range l {
		m, _ := e.(map[string]any)
		obj, _ := m["object"].(map[string]any)
		out = append(out, keyOfContent(obj, ns))
	}
	return out
}

// AllPhaseObjectKeys returns, per phase of a stored ObjectSet, the cluster object keys (for
// delegated phases the objects are the same list, carried by the phase object).
func AllPhaseObjectKeys(os map[string]any, ns string) [][]kmodel.Key {
	var out [][]kmodel.Key
	for _, sp := range SpecPhases(os, ns) {
		out = append(out, sp.Objects)
	}
	return out
}

// ---- ObjectDeployment scenarios ----

// ODKey is the store key of an ObjectDeployment in the default namespace.
func ODKey(name string) kmodel.Key { return world.PKOKey("ObjectDeployment", world.NS, name) }

// Template builds a single-phase (or multi-phase) template spec from object names.
func Template(phases []PhaseCfg, x int64) corev1alpha1.ObjectSetTemplateSpec {
	return world.TemplateSpec(PhaseSpecs(phases, x), world.StdProbes())
}

// NewOD creates an ObjectDeployment selecting its ObjectSets by label app=<name>.
func NewOD(name string, tmpl corev1alpha1.ObjectSetTemplateSpec, limit *int32) *corev1alpha1.ObjectDeployment {
	return &corev1alpha1.ObjectDeployment{
		ObjectMeta: metav1.ObjectMeta{Name: name, Namespace: world.NS},
		Spec: corev1alpha1.ObjectDeploymentSpec{
			RevisionHistoryLimit: limit,
			Selector:             metav1.LabelSelector{MatchLabels: map[string]string{"app": name}},
			Template: corev1alpha1.ObjectSetTemplate{
				Metadata: metav1.ObjectMeta{Labels: map[string]string{"app": name}},
				Spec:     tmpl,
			},
		},
	}
}

// SetODTemplate replaces spec.template.spec of a stored ObjectDeployment (user edit).
func SetODTemplate(w *world.World, name string, tmpl corev1alpha1.ObjectSetTemplateSpec) {
	c, _, err := kmodel.ToContent(&corev1alpha1.ObjectSet{Spec: corev1alpha1.ObjectSetSpec{ObjectSetTemplateSpec: tmpl}}, world.Scheme)
	if err != nil {
		panic(err)
	}
	spec := c["spec"].(map[string]any)
	delete(spec, "lifecycleState")
	_ = w.Edit(ODKey(name), func(oc map[string]any) {
		oc["spec"].(map[string]any)["template"].(map[string]any)["spec"] = spec
	})
}

// SetODPaused sets spec.paused of a stored ObjectDeployment.
func SetODPaused(w *world.World, name string, paused bool) {
	_ = w.Edit(ODKey(name), func(oc map[string]any) {
		if paused {
			oc["spec"].(map[string]any)["paused"] = true
		} else {
			delete(oc["spec"].(map[string]any), "paused")
		}
	})
}

// ObjectSetsOf lists the stored ObjectSets carrying label app=<od>, sorted by status.revision.
func ObjectSetsOf(s *kmodel.Store, od string) []kmodel.Key {
	var ks []kmodel.Key
	for _, k := range s.SortedKeys() {
		if k.Group == "package-operator.run" && k.Kind == "ObjectSet" && kmodel.Labels(s.Objs[k].Content)["app"] == od {
			ks = append(ks, k)
		}
	}
	sort.SliceStable(ks, func(i, j int) bool {
		return StatusRevision(s.Objs[ks[i]].Content) < StatusRevision(s.Objs[ks[j]].Content)
	})
	return ks
}

// StatusRevision returns status.revision.
func StatusRevision(c map[string]any) int64 {
	v, _ := world.Nested(c, "status", "revision")
	r, _ := v.(int64)
	return r
}

// Simple single-phase configs used by chains and deployments.
func OnePhase(names ...string) []PhaseCfg {
	p := PhaseCfg{Name: "p1"}
	for _, n := range names {
		p.Objects = append(p.Objects, ObjRef{Kind: "Widget", Name: n})
	}
	return []PhaseCfg{p}
}

// FaultEvents offers, for the controller/key given, every fault kind at every request index of
// its pass (while the fault budget lasts).
func FaultEvents(w *world.World, ctrl string, name string, kinds []world.FaultKind) []world.Event {
	if w.Budget["fault"] <= 0 {
		return nil
	}
	probe := w.Clone()
	n := len(probe.Reconcile(ctrl, NN(name), nil).Reqs)
	var evs []world.Event
	for i := 0; i < n; i++ {
		for _, fk := range kinds {
			i, fk := i, fk
			evs = append(evs, world.Event{Name: fmt.Sprintf("fault:%s:%s:%s@%d", strings.ToLower(ctrl), name, fk, i), Apply: func(w *world.World) *world.Pass {
				w.Budget["fault"]--
				return w.Reconcile(ctrl, NN(name), &world.Plan{FaultAt: i, Fault: fk})
			}})
		}
	}
	return evs
}

// ConflictEvents: for the pass of controller ctrl on name and each request k of it that writes an
// existing object, an event in which another actor's write to that object (resourceVersion bump,
// nothing the model can see changes) lands just before request k is sent - the write conflicts if
// it carries a resourceVersion. Budget "conflict".
func ConflictEvents(w *world.World, ctrl string, name string) []world.Event {
	if w.Budget["conflict"] <= 0 {
		return nil
	}
	probe := w.Clone()
	reqs := probe.Reconcile(ctrl, NN(name), nil).Reqs
	var evs []world.Event
	for i, r := range reqs {
		if !r.IsWrite() || r.Pre == nil {
			continue
		}
		i, k := i, r.Key
		evs = append(evs, world.Event{Name: fmt.Sprintf("conflict:%s:%s@%d:%s", strings.ToLower(ctrl), name, i, k.Kind+"/"+k.Name), Apply: func(w *world.World) *world.Pass {
			w.Budget["conflict"]--
			return w.Reconcile(ctrl, NN(name), &world.Plan{InterfereAt: i, Interfere: func(w *world.World) { w.S.Touch(k) }})
		}})
	}
	return evs
}

// ConflictEventsAll offers ConflictEvents for every ObjectSet and (built-in class) ObjectSetPhase.
func ConflictEventsAll(w *world.World) []world.Event {
	if w.Budget["conflict"] <= 0 {
		return nil
	}
	var evs []world.Event
	for _, k := range w.S.SortedKeys() {
		switch {
		case k.Group == "package-operator.run" && k.Kind == "ObjectSet":
			evs = append(evs, ConflictEvents(w, world.CtrlObjectSet, k.Name)...)
		case k.Group == "package-operator.run" && k.Kind == "ObjectSetPhase":
			if kmodel.Labels(w.S.Objs[k].Content)[corev1alpha1.ObjectSetPhaseClassLabel] == world.PhaseClass {
				evs = append(evs, ConflictEvents(w, world.CtrlPhase, k.Name)...)
			}
		}
	}
	return evs
}

// TemplateOf extracts the ObjectSetTemplateSpec part (phases, probes, successDelay) of a stored
// ObjectSet or of an ObjectDeployment's template as canonical text.
func TemplateOf(c map[string]any) string {
	spec, _ := c["spec"].(map[string]any)
	if t, ok := spec["template"].(map[string]any); ok {
		spec, _ = t["spec"].(map[string]any)
	}
	pick := map[string]any{}
	for _, f := range []string{"phases", "availabilityProbes", "successDelaySeconds"} {
		if v, ok := spec[f]; ok {
			pick[f] = v
		}
	}
	return kmodel.Digest(pick)
}

// PassSpec names one reconcile pass (controller kind + object name) of a fair round.
type PassSpec struct {
	Ctrl string
	Name string
}

// RoundPasses lists the passes of one fair round for the current state, in canonical order.
func RoundPasses(w *world.World) []PassSpec {
	var out []PassSpec
	for _, k := range w.S.SortedKeys() {
		if k.Group != "package-operator.run" {
			continue
		}
		switch k.Kind {
		case "Package":
			if w.Pkg != nil {
				out = append(out, PassSpec{world.CtrlPackage, k.Name})
			}
		case "ObjectDeployment":
			out = append(out, PassSpec{world.CtrlObjectDeployment, k.Name})
		case "ObjectSet":
			out = append(out, PassSpec{world.CtrlObjectSet, k.Name})
		case "ObjectSetPhase":
			if kmodel.Labels(w.S.Objs[k].Content)[corev1alpha1.ObjectSetPhaseClassLabel] == world.PhaseClass {
				out = append(out, PassSpec{world.CtrlPhase, k.Name})
			}
		case "ObjectTemplate":
			out = append(out, PassSpec{world.CtrlObjectTemplate, k.Name})
		}
	}
	return out
}

// StaleOwnEvents: for every ObjectSet whose stored content has a predecessor, a pass of its
// controller whose (cached) read of the ObjectSet itself still returns that predecessor - the
// informer has not delivered the latest write (typically the controller's own status update)
// yet. Budget "stale-own".
func StaleOwnEvents(w *world.World) []world.Event {
	if w.Budget["stale-own"] <= 0 {
		return nil
	}
	var evs []world.Event
	for _, k := range w.S.SortedKeys() {
		if k.Group != "package-operator.run" || k.Kind != "ObjectSet" {
			continue
		}
		o := w.S.Objs[k]
		if o.Prev == nil || kmodel.Digest(o.Prev) == kmodel.Digest(o.Content) {
			continue
		}
		k := k
		evs = append(evs, world.Event{Name: "reconcile-stale-own:os:" + k.Name + " (cache one write behind)", Apply: func(w *world.World) *world.Pass {
			w.Budget["stale-own"]--
			return w.Reconcile(world.CtrlObjectSet, NN(k.Name), &world.Plan{StaleGet: []kmodel.Key{k}})
		}})
	}
	return evs
}
