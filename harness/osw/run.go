package osw

import (
	"fmt"
	"strings"

	"package-operator.run/internal/packages/zzverif/report"
	"package-operator.run/internal/packages/zzverif/world"
)

// RunBFS explores sys and folds the result into rep. params identify the system for replay.
func RunBFS(rep *report.Report, sys *world.System, params map[string]any) *world.BFSResult {
	res := world.BFS(sys)
	rep.States += res.States
	rep.Transitions += res.Transitions
	rep.Executions += res.Transitions
	for cls, n := range res.EventCount {
		if strings.HasPrefix(cls, "reconcile") {
			rep.ImplTraces += n
		}
		rep.Outcomes[sys.Name+" "+cls] += n
	}
	rep.Outcomes[fmt.Sprintf("%s states=%d depth=%d terminal=%d", sys.Name, res.States, res.Depth, res.Terminal)]++
	if res.Capped != "" {
		rep.CapsHit = append(rep.CapsHit, sys.Name+": "+res.Capped)
		rep.Exhaustive = false
	}
	seen := map[string]bool{}
	for _, v := range res.Violations {
		id := v.Identity
		if seen[id] {
			rep.NViolations++
			continue
		}
		seen[id] = true
		p := map[string]any{"system": sys.Name, "path": v.Path}
		for k, x := range params {
			p[k] = x
		}
		rep.AddViolation(report.Violation{Identity: id, Message: "[" + v.Monitor + "] " + v.Message + "\nsystem: " + sys.Name + "\npath: " + strings.Join(v.Path, " -> "), Params: p, Trace: v.Trace})
	}
	rep.NViolations += res.NViolations - int64(len(res.Violations))
	return res
}

// ReplayBFS re-executes the event path of a recorded violation on sys.
func ReplayBFS(sys *world.System, v report.Violation) string {
	var path []string
	if l, ok := v.Params["path"].([]any); ok {
		for _, e := range l {
			path = append(path, fmt.Sprint(e))
		}
	}
	finds, trace, err := world.Replay(sys, path)
	for _, l := range trace {
		fmt.Println(l)
	}
	if err != nil {
		return "DIVERGENCE (harness fault): " + err.Error()
	}
	var msgs []string
	for _, f := range finds {
		msgs = append(msgs, "["+f.Monitor+"] "+f.Message)
	}
	return strings.Join(msgs, "\n")
}
