// Package pkgw builds package contents (file maps) for the package-pipeline checks and runs
// the real load -> validate -> render pipeline the way PackageDeployer.Deploy does.
package pkgw

import (
	"context"
	"errors"
	"fmt"
	"sort"
	"strings"

	corev1alpha1 "package-operator.run/apis/core/v1alpha1"
	"package-operator.run/internal/apis/manifests"
	"package-operator.run/internal/packages"
	"package-operator.run/internal/utils"
)

// Group of the scripted workload kinds (same as world.TestGroup; kept local to avoid a cycle).
const Group = "verif.example"

// Manifest renders a PackageManifest.
type Manifest struct {
	Name        string
	Scopes      []string
	Phases      []string // names; a phase "x:class" gets class
	Probes      bool
	ConfigProps map[string]string // property -> type; all required when Required
	Required    []string
	Conditions  map[string]string // named CEL conditions
	Paths       map[string]string // glob -> expression
	Constraints string            // raw YAML list under spec.constraints
	Components  bool
}

// YAML renders the manifest.
func (m Manifest) YAML() string {
	var sb strings.Builder
	name := m.Name
	if name == "" {
		name = "pkg"
	}
	sb.WriteString("apiVersion: manifests.package-operator.run/v1alpha1\nkind: PackageManifest\nmetadata:\n  name: " + name + "\nspec:\n  scopes:\n")
	scopes := m.Scopes
	if len(scopes) == 0 {
		scopes = []string{"Namespaced"}
	}
	for _, s := range scopes {
		sb.WriteString("  - " + s + "\n")
	}
	sb.WriteString("  phases:\n")
	for _, p := range m.Phases {
		n, class, has := strings.Cut(p, ":")
		sb.WriteString("  - name: " + n + "\n")
		if has {
			sb.WriteString("    class: " + class + "\n")
		}
	}
	if m.Probes {
		sb.WriteString("  availabilityProbes:\n  - probes:\n    - condition:\n        type: Ready\n        status: \"True\"\n    selector:\n      kind:\n        group: " + Group + "\n        kind: Widget\n")
	}
	if len(m.ConfigProps) > 0 {
		sb.WriteString("  config:\n    openAPIV3Schema:\n      type: object\n      properties:\n")
		for _, k := range sortedKeys(m.ConfigProps) {
			sb.WriteString("        " + k + ":\n          type: " + m.ConfigProps[k] + "\n")
		}
		if len(m.Required) > 0 {
			sb.WriteString("      required:\n")
			for _, r := range m.Required {
				sb.WriteString("      - " + r + "\n")
			}
		}
	}
	if len(m.Conditions) > 0 || len(m.Paths) > 0 {
		sb.WriteString("  filter:\n")
		if len(m.Conditions) > 0 {
			sb.WriteString("    conditions:\n")
			for _, k := range sortedKeys(m.Conditions) {
				sb.WriteString("    - name: " + k + "\n      expression: '" + m.Conditions[k] + "'\n")
			}
		}
		if len(m.Paths) > 0 {
			sb.WriteString("    paths:\n")
			for _, k := range sortedKeys(m.Paths) {
				sb.WriteString("    - glob: \"" + k + "\"\n      expression: '" + m.Paths[k] + "'\n")
			}
		}
	}
	if m.Constraints != "" {
		sb.WriteString("  constraints:\n" + m.Constraints)
	}
	if m.Components {
		sb.WriteString("  components: {}\n")
	}
	return sb.String()
}

func sortedKeys(m map[string]string) []string {
	ks := make([]string, 0, len(m))
	for k := range m {
		ks = append(ks, k)
	}
	sort.Strings(ks)
	return ks
}

// WidgetYAML renders one object document.
func WidgetYAML(kind, name, phase string, spec string, extraAnnotations map[string]string) string {
	var sb strings.Builder
	sb.WriteString("apiVersion: " + Group + "/v1\nkind: " + kind + "\nmetadata:\n  name: '" + name + "'\n  annotations:\n")
	if phase != "" {
		sb.WriteString("    package-operator.run/phase: " + phase + "\n")
	}
	for _, k := range sortedKeys(extraAnnotations) {
		sb.WriteString("    " + k + ": '" + extraAnnotations[k] + "'\n")
	}
	if phase == "" && len(extraAnnotations) == 0 {
		sb.WriteString("    {}\n")
	}
	sb.WriteString("spec:\n  x: " + spec + "\n")
	return sb.String()
}

// RenderResult is what the pipeline produced.
type RenderResult struct {
	Spec  corev1alpha1.ObjectSetTemplateSpec
	Hash  string
	Err   error
	Class string // "" ok, else error class
}

// Context is the render context of a Package named `name` in namespace ns.
func Context(name, ns string, config map[string]any, env manifests.PackageEnvironment) packages.PackageRenderContext {
	return packages.PackageRenderContext{
		Package: manifests.TemplateContextPackage{
			TemplateContextObjectMeta: manifests.TemplateContextObjectMeta{Name: name, Namespace: ns},
			Image:                     "img",
		},
		Config:      config,
		Images:      map[string]string{},
		Environment: env,
	}
}

// Render runs structural load, validation, template and object rendering and phase collection,
// exactly the calls PackageDeployer.Deploy makes (namespaced scope).
func Render(files map[string]string, component string, tctx packages.PackageRenderContext) RenderResult {
	raw := &packages.RawPackage{Files: packages.Files{}}
	for k, v := range files {
		raw.Files[k] = []byte(v)
	}
	ctx := context.Background()
	pkg, err := packages.DefaultStructuralLoader.LoadComponent(ctx, raw, component)
	if err != nil {
		return RenderResult{Err: err, Class: "load:" + errClass(err)}
	}
	validators := append(packages.PackageValidatorList{}, packages.DefaultPackageValidators...)
	validators = append(validators, packages.PackageScopeValidator(manifests.PackageManifestScopeNamespaced))
	inst, err := packages.RenderPackageInstance(ctx, pkg, tctx, validators, packages.DefaultObjectValidators)
	if err != nil {
		return RenderResult{Err: err, Class: "render:" + errClass(err)}
	}
	spec := packages.RenderObjectSetTemplateSpec(inst)
	return RenderResult{Spec: spec, Hash: utils.ComputeFNV32Hash(spec, nil)}
}

func errClass(err error) string {
	var v packages.ViolationError
	if errors.As(err, &v) {
		return "violation:" + string(v.Reason)
	}
	s := err.Error()
	if i := strings.Index(s, ":"); i > 0 && i < 40 {
		s = s[:i]
	}
	if len(s) > 60 {
		s = s[:60]
	}
	return fmt.Sprintf("error:%s", s)
}
