// Package report defines what a (sub-)check run returns to the coordinator.
package report

import (
	"sort"
)

// Violation is one failing execution, replayable.
type Violation struct {
	Property string         `json:"property"`
	Sub      string         `json:"sub"`
	Identity string         `json:"identity"` // stable identity used to match known findings
	Message  string         `json:"message"`
	Params   map[string]any `json:"params,omitempty"`
	Choices  []int          `json:"choices,omitempty"`
	Labels   []string       `json:"labels,omitempty"`
	Trace    []string       `json:"trace,omitempty"`
}

// Report is the result of one sub-check (or one shard of it).
type Report struct {
	Property    string           `json:"property"`
	Sub         string           `json:"sub"`
	Executions  int64            `json:"executions"`
	Transitions int64            `json:"transitions"`
	States      int64            `json:"states"`
	ImplTraces  int64            `json:"impl_traces"` // executions that ran the real implementation
	Outcomes    map[string]int64 `json:"outcomes"`
	Monitors    map[string]int64 `json:"monitors,omitempty"` // antecedent counts
	Violations  []Violation      `json:"violations,omitempty"`
	NViolations int64            `json:"n_violations"`
	Bounds      map[string]any   `json:"bounds,omitempty"`
	Exhaustive  bool             `json:"exhaustive"`
	CapsHit     []string         `json:"caps_hit,omitempty"`
	Samples     []any            `json:"samples,omitempty"`
	Assumptions []string         `json:"assumptions,omitempty"`
	Rule        string           `json:"rule,omitempty"`
	Fault       string           `json:"fault,omitempty"` // harness fault (exit 2)
}

// New returns an empty report.
func New(prop, sub string) *Report {
	return &Report{Property: prop, Sub: sub, Outcomes: map[string]int64{}, Monitors: map[string]int64{}, Bounds: map[string]any{}, Exhaustive: true}
}

// Merge adds o (another shard of the same sub-check) into r.
func (r *Report) Merge(o *Report) {
	r.Executions += o.Executions
	r.Transitions += o.Transitions
	r.States += o.States
	r.ImplTraces += o.ImplTraces
	for k, v := range o.Outcomes {
		r.Outcomes[k] += v
	}
	for k, v := range o.Monitors {
		r.Monitors[k] += v
	}
	r.NViolations += o.NViolations
	for _, v := range o.Violations {
		dup := false
		for _, e := range r.Violations {
			if e.Identity == v.Identity {
				dup = true
			}
		}
		if !dup && len(r.Violations) < 60 {
			r.Violations = append(r.Violations, v)
		}
	}
	for k, v := range o.Bounds {
		if _, ok := r.Bounds[k]; !ok {
			r.Bounds[k] = v
		}
	}
	r.Exhaustive = r.Exhaustive && o.Exhaustive
	r.CapsHit = append(r.CapsHit, o.CapsHit...)
	if len(r.Samples) < 6 {
		r.Samples = append(r.Samples, o.Samples...)
	}
	for _, a := range o.Assumptions {
		found := false
		for _, b := range r.Assumptions {
			if a == b {
				found = true
			}
		}
		if !found {
			r.Assumptions = append(r.Assumptions, a)
		}
	}
	if r.Rule == "" {
		r.Rule = o.Rule
	}
	if r.Fault == "" {
		r.Fault = o.Fault
	}
}

// AddViolation records a violation (details kept for the first few only).
func (r *Report) AddViolation(v Violation) {
	r.NViolations++
	// details are kept for the first occurrence of each identity (up to 40 identities), so that a
	// flood of one kind of violation cannot hide a different one
	for _, e := range r.Violations {
		if e.Identity == v.Identity {
			return
		}
	}
	if len(r.Violations) < 40 {
		v.Property = r.Property
		v.Sub = r.Sub
		r.Violations = append(r.Violations, v)
	}
}

// SortedOutcomes returns outcome keys sorted.
func (r *Report) SortedOutcomes() []string {
	ks := make([]string, 0, len(r.Outcomes))
	for k := range r.Outcomes {
		ks = append(ks, k)
	}
	sort.Strings(ks)
	return ks
}
