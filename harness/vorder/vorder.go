// Package vorder makes Go's map iteration order an explicit, explorer-controlled choice in
// instrumented files: `for k, v := range m` is rewritten (by cmd/vinstr) into a loop over
// vorder.Keys(m, site).
package vorder

import (
	"cmp"
	"fmt"
	"slices"
)

// Chooser decides the permutation for one range statement execution. It receives the site and
// the number of keys and returns a permutation index in [0, Alternatives(n)).
type Chooser func(site string, n int) int

var chooser Chooser

// Install sets the chooser (nil = canonical sorted order). Not safe for concurrent use with
// Keys; checks that explore orders run single-threaded.
func Install(c Chooser) { chooser = c }

// Alternatives is the number of orders offered for n keys: all n! permutations up to n = 4,
// otherwise sorted / reversed / rotated-by-one / rotated-by-half.
func Alternatives(n int) int {
	switch {
	case n <= 1:
		return 1
	case n == 2:
		return 2
	case n == 3:
		return 6
	case n == 4:
		return 24
	}
	return 4
}

// Keys returns the keys of m in the order chosen for this execution of the range statement.
func Keys[K cmp.Ordered, V any](m map[K]V, site string) []K {
	keys := make([]K, 0, len(m))
	for k := range m {
		keys = append(keys, k)
	}
	slices.Sort(keys)
	if chooser == nil || len(keys) <= 1 {
		return keys
	}
	idx := chooser(site, len(keys))
	return permute(keys, idx)
}

// KeysAny is Keys for key types that are comparable but not ordered (structs): the canonical
// order is that of the keys' %v rendering.
func KeysAny[K comparable, V any](m map[K]V, site string) []K {
	keys := make([]K, 0, len(m))
	for k := range m {
		keys = append(keys, k)
	}
	slices.SortFunc(keys, func(a, b K) int { return cmp.Compare(fmt.Sprintf("%v", a), fmt.Sprintf("%v", b)) })
	if chooser == nil || len(keys) <= 1 {
		return keys
	}
	return permute(keys, chooser(site, len(keys)))
}

func permute[K any](keys []K, idx int) []K {
	n := len(keys)
	if idx == 0 {
		return keys
	}
	if n > 4 {
		out := make([]K, n)
		switch idx {
		case 1:
			for i := range keys {
				out[i] = keys[n-1-i]
			}
		case 2:
			for i := range keys {
				out[i] = keys[(i+1)%n]
			}
		default:
			for i := range keys {
				out[i] = keys[(i+n/2)%n]
			}
		}
		return out
	}
	// idx-th permutation in lexicographic order (factorial number system)
	avail := append([]K{}, keys...)
	out := make([]K, 0, n)
	f := 1
	for i := 2; i < n; i++ {
		f *= i
	}
	for i := n - 1; i >= 0; i-- {
		q := 0
		if f > 0 {
			q = idx / f
			idx %= f
		}
		out = append(out, avail[q])
		avail = append(avail[:q], avail[q+1:]...)
		if i > 0 {
			f /= max(i, 1)
		}
	}
	return out
}
