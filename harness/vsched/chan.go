package vsched

// Chan is the shim for Go channels in instrumented files.
type Chan[T any] struct {
	real        chan T
	buf         []T
	cap         int
	closed      bool
	recvWaiting int
}

// MakeChan replaces make(chan T, n).
func MakeChan[T any](n ...int) *Chan[T] {
	c := 0
	if len(n) > 0 {
		c = n[0]
	}
	return &Chan[T]{real: make(chan T, c), cap: c}
}

// Send replaces ch <- v.
func (c *Chan[T]) Send(v T) {
	if active == nil {
		c.real <- v
		return
	}
	if c.cap == 0 {
		Block("send", func() bool { return c.closed || (c.recvWaiting > 0 && len(c.buf) == 0) })
	} else {
		Block("send", func() bool { return c.closed || len(c.buf) < c.cap })
	}
	if c.closed {
		panic("send on closed channel")
	}
	c.buf = append(c.buf, v)
}

// Recv replaces <-ch.
func (c *Chan[T]) Recv() T {
	v, _ := c.Recv2()
	return v
}

// Recv2 replaces v, ok := <-ch.
func (c *Chan[T]) Recv2() (T, bool) {
	if active == nil {
		v, ok := <-c.real
		return v, ok
	}
	if c.cap == 0 {
		// on an unbuffered channel it matters when the receiver arrives (a non-blocking send
		// only succeeds if somebody is already waiting): arriving is a step of its own
		Yield("recv-arrive")
	}
	c.recvWaiting++
	Block("recv", func() bool { return len(c.buf) > 0 || c.closed })
	c.recvWaiting--
	if len(c.buf) > 0 {
		v := c.buf[0]
		c.buf = c.buf[1:]
		return v, true
	}
	var z T
	return z, false
}

// Close replaces close(ch).
func Close[T any](c *Chan[T]) {
	if active == nil {
		close(c.real)
		return
	}
	Yield("close")
	if c.closed {
		panic("close of closed channel")
	}
	c.closed = true
}

// Len replaces len(ch).
func (c *Chan[T]) Len() int {
	if active == nil {
		return len(c.real)
	}
	return len(c.buf)
}
