package vsched

import "reflect"

// SelCase is one communication clause of a translated select statement.
type SelCase interface {
	ready() bool   // can the operation proceed right now (evaluated while no thread runs)
	commit()       // perform it
	arm()          // this thread starts waiting on the case
	disarm()       // ... and stops
	real() reflect.SelectCase
	done(v reflect.Value, ok bool)
}

// RecvSel is `case v, ok := <-c`.
type RecvSel[T any] struct {
	c  *Chan[T]
	V  T
	OK bool
}

// RecvCaseOf builds a receive clause on a shim channel.
func RecvCaseOf[T any](c *Chan[T]) *RecvSel[T] { return &RecvSel[T]{c: c} }

func (r *RecvSel[T]) ready() bool { return len(r.c.buf) > 0 || r.c.closed }
func (r *RecvSel[T]) commit() {
	if len(r.c.buf) > 0 {
		r.V, r.OK = r.c.buf[0], true
		r.c.buf = r.c.buf[1:]
		return
	}
	var z T
	r.V, r.OK = z, false
}
func (r *RecvSel[T]) arm()    { r.c.recvWaiting++ }
func (r *RecvSel[T]) disarm() { r.c.recvWaiting-- }
func (r *RecvSel[T]) real() reflect.SelectCase {
	return reflect.SelectCase{Dir: reflect.SelectRecv, Chan: reflect.ValueOf(r.c.real)}
}
func (r *RecvSel[T]) done(v reflect.Value, ok bool) {
	r.OK = ok
	if ok {
		r.V = v.Interface().(T)
	}
}

// SendSel is `case c <- v`.
type SendSel[T any] struct {
	c *Chan[T]
	v T
}

// SendCaseOf builds a send clause on a shim channel.
func SendCaseOf[T any](c *Chan[T], v T) *SendSel[T] { return &SendSel[T]{c: c, v: v} }

func (s *SendSel[T]) ready() bool {
	if s.c.closed {
		return true // proceeds (and panics), as in Go
	}
	if s.c.cap == 0 {
		return s.c.recvWaiting > 0 && len(s.c.buf) == 0
	}
	return len(s.c.buf) < s.c.cap
}
func (s *SendSel[T]) commit() {
	if s.c.closed {
		panic("send on closed channel")
	}
	s.c.buf = append(s.c.buf, s.v)
}
func (s *SendSel[T]) arm()    {}
func (s *SendSel[T]) disarm() {}
func (s *SendSel[T]) real() reflect.SelectCase {
	return reflect.SelectCase{Dir: reflect.SelectSend, Chan: reflect.ValueOf(s.c.real), Send: reflect.ValueOf(s.v)}
}
func (s *SendSel[T]) done(reflect.Value, bool) {}

// DoneSel is `case <-ctx.Done()`: a real channel that is only ever closed.
type DoneSel struct{ ch <-chan struct{} }

// DoneCase builds a receive clause on a real done-channel (nil never fires).
func DoneCase(ch <-chan struct{}) *DoneSel { return &DoneSel{ch: ch} }

func (d *DoneSel) ready() bool {
	if d.ch == nil {
		return false
	}
	select {
	case <-d.ch:
		return true
	default:
		return false
	}
}
func (d *DoneSel) commit() {}
func (d *DoneSel) arm()    {}
func (d *DoneSel) disarm() {}
func (d *DoneSel) real() reflect.SelectCase {
	return reflect.SelectCase{Dir: reflect.SelectRecv, Chan: reflect.ValueOf(d.ch)}
}
func (d *DoneSel) done(reflect.Value, bool) {}

// WaitDone replaces a bare `<-ctx.Done()`.
func WaitDone(ch <-chan struct{}) {
	if active == nil {
		<-ch
		return
	}
	d := DoneCase(ch)
	Block("done", d.ready)
}

// Select replaces a select statement: it returns the index of the clause that was carried out,
// or -1 for the default clause. Under the scheduler it is one scheduling point; if several
// clauses are ready the explorer chooses among them (Go picks one at random).
func Select(hasDefault bool, cases ...SelCase) int {
	s := active
	if s == nil {
		rc := make([]reflect.SelectCase, 0, len(cases)+1)
		for _, c := range cases {
			rc = append(rc, c.real())
		}
		if hasDefault {
			rc = append(rc, reflect.SelectCase{Dir: reflect.SelectDefault})
		}
		i, v, ok := reflect.Select(rc)
		if i == len(cases) {
			return -1
		}
		cases[i].done(v, ok)
		return i
	}
	anyReady := func() bool {
		for _, c := range cases {
			if c.ready() {
				return true
			}
		}
		return false
	}
	if hasDefault {
		Yield("select")
	} else {
		Yield("select-arrive") // arriving at the select is a step of its own (see Chan.Recv2)
		for _, c := range cases {
			c.arm()
		}
		Block("select", anyReady)
		for _, c := range cases {
			c.disarm()
		}
	}
	var ready []int
	for i, c := range cases {
		if c.ready() {
			ready = append(ready, i)
		}
	}
	if len(ready) == 0 {
		return -1 // only reachable with a default clause
	}
	pick := ready[0]
	if len(ready) > 1 {
		pick = ready[s.ctx.Choose(len(ready), 0, "select-ready-clause")]
	}
	cases[pick].commit()
	return pick
}
