// Package vsched is a cooperative, explorer-controlled scheduler.
//
// Harness threads are goroutines that run only while they hold the baton. Every
// hooked synchronisation operation is a scheduling point: the explorer chooses
// which enabled thread continues. Blocking operations are modelled as disabled
// threads (never spins). When no scheduler is active every shim type falls back
// to the real primitive, so instrumented code also runs free (e.g. under -race).
package vsched

import (
	"fmt"
	"runtime"
	"strings"

	"package-operator.run/internal/packages/zzverif/explore"
)

type abortSentinel struct{}

type thread struct {
	id      int
	name    string
	wake    chan struct{}
	done    bool
	enabled func() bool // nil = runnable
	waitOn  string
}

// Sched is one controlled execution.
type Sched struct {
	ctx      *explore.Ctx
	threads  []*thread
	cur      *thread
	finished chan struct{}
	aborted  bool
	Deadlock string
	Panic    string
	steps    int
	MaxSteps int
	Overrun  bool
}

var active *Sched

// Active reports whether a controlled execution is running.
func Active() bool { return active != nil }

// Run executes main as thread 0 under the control of ctx and returns when all
// threads are done (or the execution was aborted by deadlock/step horizon).
func Run(ctx *explore.Ctx, maxSteps int, main func()) *Sched {
	s := &Sched{ctx: ctx, finished: make(chan struct{}), MaxSteps: maxSteps}
	if active != nil {
		panic("vsched: nested Run")
	}
	active = s
	t := s.newThread("main", main)
	s.cur = t
	t.wake <- struct{}{}
	<-s.finished
	active = nil
	return s
}

func (s *Sched) newThread(name string, f func()) *thread {
	t := &thread{id: len(s.threads), name: name, wake: make(chan struct{}, 1)}
	s.threads = append(s.threads, t)
	go func() {
		<-t.wake
		defer func() {
			if r := recover(); r != nil {
				if _, ok := r.(abortSentinel); !ok {
					if s.Panic == "" {
						buf := make([]byte, 8192)
						n := runtime.Stack(buf, false)
						s.Panic = fmt.Sprintf("%v\n%s", r, buf[:n])
					}
					s.aborted = true
				}
			}
			t.done = true
			s.threadExit()
		}()
		if s.aborted {
			return
		}
		f()
	}()
	return t
}

// threadExit hands the baton on after the current thread finished.
func (s *Sched) threadExit() {
	if s.aborted {
		// wake everybody still parked so that they unwind
		for _, o := range s.threads {
			if !o.done {
				s.cur = o
				o.wake <- struct{}{}
				return
			}
		}
		close(s.finished)
		return
	}
	en := s.enabledList(nil)
	if len(en) == 0 {
		all := true
		for _, o := range s.threads {
			if !o.done {
				all = false
			}
		}
		if all {
			close(s.finished)
			return
		}
		s.deadlock()
		return
	}
	ch := 0
	if len(en) > 1 {
		ch = s.ctx.Choose(len(en), 0, "exit:"+s.optLabel(en))
	}
	nx := en[ch]
	s.cur = nx
	nx.wake <- struct{}{}
}

func (s *Sched) deadlock() {
	var parts []string
	for _, o := range s.threads {
		if !o.done {
			parts = append(parts, fmt.Sprintf("%s waits on %s", o.name, o.waitOn))
		}
	}
	s.Deadlock = strings.Join(parts, "; ")
	s.abortAll()
}

// abortAll unwinds every parked thread. Called by a thread that is itself done.
func (s *Sched) abortAll() {
	s.aborted = true
	for _, o := range s.threads {
		if !o.done {
			s.cur = o
			o.wake <- struct{}{}
			return
		}
	}
	close(s.finished)
}

func (s *Sched) enabledList(self *thread) []*thread {
	var en []*thread
	if self != nil && !self.done && (self.enabled == nil || self.enabled()) {
		en = append(en, self)
	}
	for _, o := range s.threads {
		if o == self || o.done {
			continue
		}
		if o.enabled == nil || o.enabled() {
			en = append(en, o)
		}
	}
	return en
}

func (s *Sched) optLabel(en []*thread) string {
	var sb strings.Builder
	for i, o := range en {
		if i > 0 {
			sb.WriteByte(',')
		}
		sb.WriteString(o.name)
	}
	return sb.String()
}

// point is a scheduling point of the current thread. If cond is non-nil the
// thread is enabled only while cond() holds (blocking operation).
func (s *Sched) point(kind string, cond func() bool) {
	if s.aborted {
		panic(abortSentinel{})
	}
	t := s.cur
	s.steps++
	if s.MaxSteps > 0 && s.steps > s.MaxSteps {
		s.Overrun = true
		s.aborted = true
		panic(abortSentinel{})
	}
	t.enabled = cond
	t.waitOn = kind
	en := s.enabledList(t)
	if len(en) == 0 {
		// current thread blocked and nobody else can run
		s.deadlockFromRunning()
		panic(abortSentinel{})
	}
	ch := 0
	if len(en) > 1 {
		cost := 0
		if en[0] == t {
			cost = 1 // switching away from a runnable thread is a preemption
		}
		ch = s.ctx.Choose(len(en), cost, t.name+"@"+kind+":"+s.optLabel(en))
	}
	nx := en[ch]
	if nx != t {
		s.cur = nx
		nx.wake <- struct{}{}
		<-t.wake
		if s.aborted {
			panic(abortSentinel{})
		}
	}
	t.enabled = nil
	t.waitOn = ""
}

func (s *Sched) deadlockFromRunning() {
	var parts []string
	for _, o := range s.threads {
		if !o.done {
			parts = append(parts, fmt.Sprintf("%s waits on %s", o.name, o.waitOn))
		}
	}
	s.Deadlock = strings.Join(parts, "; ")
	s.aborted = true
}

// Go spawns a new controlled thread (or a plain goroutine when inactive).
func Go(f func()) { GoNamed("", f) }

// GoNamed spawns a named thread.
func GoNamed(name string, f func()) {
	s := active
	if s == nil {
		go f()
		return
	}
	if name == "" {
		name = fmt.Sprintf("t%d", len(s.threads))
	}
	s.newThread(name, f)
	s.point("spawn", nil)
}

// Yield is an explicit scheduling point for harness code.
func Yield(kind string) {
	if s := active; s != nil {
		s.point(kind, nil)
	}
}

// Block parks the calling thread until cond holds (cond is evaluated by the
// scheduler while no thread runs).
func Block(kind string, cond func() bool) {
	if s := active; s != nil {
		s.point(kind, cond)
	}
}

// CurrentName returns the running thread's name ("" when inactive).
func CurrentName() string {
	if s := active; s != nil && s.cur != nil {
		return s.cur.name
	}
	return ""
}

// Aborting reports whether the execution is being unwound.
func Aborting() bool {
	s := active
	return s != nil && s.aborted
}
