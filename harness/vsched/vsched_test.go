package vsched_test

import (
	"fmt"
	"testing"

	"package-operator.run/internal/packages/zzverif/explore"
	"package-operator.run/internal/packages/zzverif/vsched"
	vsync "package-operator.run/internal/packages/zzverif/vsched/vsync"
)

// Classic lost update: two threads do a non-atomic read-modify-write with a scheduling point in
// between. No interleaving without preemption loses an update; one preemption suffices.
func lostUpdate(locked bool) explore.Body {
	return func(c *explore.Ctx) (string, string) {
		x := 0
		var mu vsync.Mutex
		inc := func() {
			if locked {
				mu.Lock()
				defer mu.Unlock()
			}
			v := x
			vsched.Yield("between read and write")
			x = v + 1
		}
		s := vsched.Run(c, 1000, func() {
			vsched.GoNamed("a", inc)
			vsched.GoNamed("b", inc)
		})
		if s.Deadlock != "" || s.Panic != "" {
			return "deadlock/panic: " + s.Deadlock + s.Panic, "fault"
		}
		if x != 2 {
			return fmt.Sprintf("lost update: x=%d", x), fmt.Sprint(x)
		}
		return "", fmt.Sprint(x)
	}
}

func TestLostUpdateNeedsOnePreemption(t *testing.T) {
	if st := (&explore.Explorer{Bound: 0}).Explore(lostUpdate(false)); st.NViolations != 0 {
		t.Fatalf("bound 0 found %d violations; without preemption no update can be lost", st.NViolations)
	}
	st := (&explore.Explorer{Bound: 1}).Explore(lostUpdate(false))
	if st.NViolations == 0 {
		t.Fatal("bound 1 must find the lost update")
	}
	v := st.Violations[0]
	for i := 0; i < 3; i++ { // the same schedule fails every time
		c, msg, _ := explore.RunOnce(lostUpdate(false), v.Choices, v.Labels)
		if msg == "" || c.Divergence != "" {
			t.Fatalf("replay %d: msg=%q divergence=%q", i, msg, c.Divergence)
		}
	}
	if st := (&explore.Explorer{Bound: 3}).Explore(lostUpdate(true)); st.NViolations != 0 || st.Executions < 2 {
		t.Fatalf("with the mutex held no schedule loses an update (violations=%d executions=%d)", st.NViolations, st.Executions)
	}
}

// Lock-order inversion: a deadlock exists and is found, as a reported deadlock, not a hang.
func TestDeadlockDetected(t *testing.T) {
	body := func(c *explore.Ctx) (string, string) {
		var m1, m2 vsync.Mutex
		s := vsched.Run(c, 1000, func() {
			vsched.GoNamed("a", func() { m1.Lock(); m2.Lock(); m2.Unlock(); m1.Unlock() })
			vsched.GoNamed("b", func() { m2.Lock(); m1.Lock(); m1.Unlock(); m2.Unlock() })
		})
		if s.Deadlock != "" {
			return "deadlock: " + s.Deadlock, "deadlock"
		}
		return "", "ok"
	}
	st := (&explore.Explorer{Bound: 1}).Explore(body)
	if st.NViolations == 0 || st.Outcomes["ok"] == 0 {
		t.Fatalf("want both deadlocking and completing schedules, got %v", st.Outcomes)
	}
}

// A channel hand-off under the scheduler: the receiver blocks (is disabled) until the send.
func TestChannelBlocking(t *testing.T) {
	body := func(c *explore.Ctx) (string, string) {
		ch := vsched.MakeChan[int]()
		got := -1
		s := vsched.Run(c, 1000, func() {
			vsched.GoNamed("recv", func() { got = ch.Recv() })
			vsched.GoNamed("send", func() { ch.Send(7) })
		})
		if s.Deadlock != "" || got != 7 {
			return fmt.Sprintf("got=%d deadlock=%q", got, s.Deadlock), "bad"
		}
		return "", "ok"
	}
	st := (&explore.Explorer{Bound: 2}).Explore(body)
	if st.NViolations != 0 || st.Executions < 2 {
		t.Fatalf("violations=%d executions=%d", st.NViolations, st.Executions)
	}
}
