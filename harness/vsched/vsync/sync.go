// Package sync is a drop-in for the standard "sync" in instrumented files.
// Under an active vsched execution the primitives are scheduling points and
// blocking is modelled as a disabled thread; otherwise they are the real ones.
package sync

import (
	realsync "sync"

	"package-operator.run/internal/packages/zzverif/vsched"
)

type (
	Map    = realsync.Map
	Pool   = realsync.Pool
	Locker = realsync.Locker
)

// Mutex shim.
type Mutex struct {
	real realsync.Mutex
	held bool
}

func (m *Mutex) Lock() {
	if !vsched.Active() {
		m.real.Lock()
		return
	}
	vsched.Block("lock", func() bool { return !m.held })
	m.held = true
}

func (m *Mutex) TryLock() bool {
	if !vsched.Active() {
		return m.real.TryLock()
	}
	vsched.Yield("trylock")
	if m.held {
		return false
	}
	m.held = true
	return true
}

func (m *Mutex) Unlock() {
	if !vsched.Active() {
		m.real.Unlock()
		return
	}
	if !m.held && !vsched.Aborting() {
		panic("vsync: unlock of unlocked mutex")
	}
	m.held = false
}

// RWMutex shim with the writer preference of the real one: Lock first takes the writers'
// mutex and announces itself, from then on new RLock calls block; it then waits for the
// readers that are already in to drain. (A read lock taken again by a goroutine that already
// holds one therefore deadlocks once a writer has arrived in between - as it does in Go.)
type RWMutex struct {
	real    realsync.RWMutex
	wmu     bool // the writers' mutex: one writer at a time announces / holds
	pending bool // a writer has announced itself and waits for the readers to drain
	writer  bool
	readers int
}

func (m *RWMutex) Lock() {
	if !vsched.Active() {
		m.real.Lock()
		return
	}
	vsched.Block("wlock-arrive", func() bool { return !m.wmu })
	m.wmu, m.pending = true, true
	vsched.Block("wlock", func() bool { return m.readers == 0 })
	m.pending, m.writer = false, true
}

func (m *RWMutex) Unlock() {
	if !vsched.Active() {
		m.real.Unlock()
		return
	}
	if !m.writer && !vsched.Aborting() {
		panic("vsync: unlock of unlocked rwmutex")
	}
	m.writer, m.wmu = false, false
}

func (m *RWMutex) RLock() {
	if !vsched.Active() {
		m.real.RLock()
		return
	}
	vsched.Block("rlock", func() bool { return !m.writer && !m.pending })
	m.readers++
}

func (m *RWMutex) RUnlock() {
	if !vsched.Active() {
		m.real.RUnlock()
		return
	}
	if m.readers <= 0 {
		if vsched.Aborting() {
			return
		}
		panic("vsync: runlock of unlocked rwmutex")
	}
	m.readers--
}

func (m *RWMutex) RLocker() Locker { return (*rlocker)(m) }

type rlocker RWMutex

func (r *rlocker) Lock()   { (*RWMutex)(r).RLock() }
func (r *rlocker) Unlock() { (*RWMutex)(r).RUnlock() }

// WaitGroup shim.
type WaitGroup struct {
	real realsync.WaitGroup
	n    int
}

func (w *WaitGroup) Add(d int) {
	if !vsched.Active() {
		w.real.Add(d)
		return
	}
	w.n += d
}
func (w *WaitGroup) Done() { w.Add(-1) }
func (w *WaitGroup) Wait() {
	if !vsched.Active() {
		w.real.Wait()
		return
	}
	vsched.Block("wgwait", func() bool { return w.n <= 0 })
}

// Once shim.
type Once struct {
	real    realsync.Once
	done    bool
	running bool
}

func (o *Once) Do(f func()) {
	if !vsched.Active() {
		o.real.Do(f)
		return
	}
	vsched.Block("once", func() bool { return !o.running })
	if o.done {
		return
	}
	o.running = true
	defer func() { o.done = true; o.running = false }()
	f()
}
