package world

import (
	"crypto/sha256"
	"fmt"
	"os"
	"runtime"
	"sort"
	"sync"
)

// Event is one transition of the closed system.
type Event struct {
	Name string
	// Apply executes the event on w (already a private clone) and returns the pass record
	// (nil for environment events that issue no PKO request).
	Apply func(w *World) *Pass
}

// Finding is what a monitor reports.
type Finding struct {
	Monitor  string
	Identity string
	Message  string
}

// System describes a closed system for explicit-state search.
type System struct {
	Name   string
	Init   func() *World
	Events func(w *World) []Event
	// Check is evaluated on every transition.
	Check func(before *World, ev Event, pass *Pass, after *World) []Finding
	// Invariant is evaluated on every state.
	Invariant func(w *World) []Finding
	// Abstract optionally maps a state to extra key material (e.g. history monitors' memory).
	MaxDepth  int
	MaxStates int
	Workers   int
	// Persistent: every state is reached on ONE long-lived operator process (World.Proc): the
	// search keeps event paths instead of world copies and rebuilds a state by replaying its path
	// from Init on a fresh world, so in-memory state of the real controllers follows the history.
	// States are still merged by World.Canon (store, cache owner sets, budgets, notes) - hidden
	// in-memory state is not part of the key.
	Persistent bool
}

// BFSViolation is a violating transition/state with the event path from Init.
type BFSViolation struct {
	Finding
	Path  []string
	Trace []string
}

// BFSResult summarises a search.
type BFSResult struct {
	States      int64
	Transitions int64
	Depth       int
	Capped      string
	Violations  []BFSViolation
	NViolations int64
	Terminal    int64 // states with no enabled event
	EventCount  map[string]int64
}

type node struct {
	w      *World
	parent int
	ev     string
	evf    Event // persistent mode: the event itself, to replay the path
}

type expansion struct {
	parent int
	ev     string
	evf    Event
	w      *World
	key    [32]byte
	finds  []Finding
	trace  []string
}

// BFS explores the system breadth first with state hashing.
func BFS(sys *System) *BFSResult {
	res := &BFSResult{EventCount: map[string]int64{}}
	workers := sys.Workers
	if workers <= 0 {
		workers = runtime.GOMAXPROCS(0)
	}
	init := sys.Init()
	if sys.Persistent && init.Proc == nil {
		init.LongLived()
	}
	nodes := []node{{w: init, parent: -1}}
	seen := map[[32]byte]bool{sha256.Sum256([]byte(init.Canon())): true}
	path := func(i int) []string {
		var p []string
		for i >= 0 && nodes[i].parent >= 0 {
			p = append(p, nodes[i].ev)
			i = nodes[i].parent
		}
		for l, r := 0, len(p)-1; l < r; l, r = l+1, r-1 {
			p[l], p[r] = p[r], p[l]
		}
		return p
	}
	evPath := func(i int) []Event {
		var p []Event
		for i >= 0 && nodes[i].parent >= 0 {
			p = append(p, nodes[i].evf)
			i = nodes[i].parent
		}
		for l, r := 0, len(p)-1; l < r; l, r = l+1, r-1 {
			p[l], p[r] = p[r], p[l]
		}
		return p
	}
	identities := map[string]int{}
	firstUnknownAt := -1 // number of states when the first violation outside Tolerated was found
	addViol := func(f Finding, p []string, tr []string) {
		res.NViolations++
		identities[f.Identity]++
		if firstUnknownAt < 0 && (Tolerated == nil || !Tolerated(f.Identity)) {
			firstUnknownAt = len(nodes)
		}
		// details for the first occurrence of each identity (a known finding must not crowd out
		// an unknown one)
		if identities[f.Identity] == 1 && len(res.Violations) < 40 {
			res.Violations = append(res.Violations, BFSViolation{Finding: f, Path: p, Trace: tr})
		}
	}
	if sys.Invariant != nil {
		for _, f := range sys.Invariant(init) {
			addViol(f, nil, nil)
		}
	}
	frontier := []int{0}
	for depth := 0; len(frontier) > 0; depth++ {
		maxDepth := sys.MaxDepth
		if maxDepth == 0 {
			// every system here is closed by budgets and converges within a few dozen levels; a
			// search that is still finding new states this deep is chasing a counter that grows
			// without bound (two controllers fighting over an object bump its generation forever)
			maxDepth = defaultMaxDepth
		}
		if depth >= maxDepth {
			res.Capped = fmt.Sprintf("depth bound %d reached with %d frontier states", maxDepth, len(frontier))
			break
		}
		res.Depth = depth + 1
		if os.Getenv("VERIF_BFS_DEBUG") != "" {
			if d := os.Getenv("VERIF_BFS_DUMP"); d != "" && len(frontier) == 1 && nodes[frontier[0]].w != nil {
				_ = os.WriteFile(fmt.Sprintf("%s/canon-%03d.txt", d, depth), []byte(nodes[frontier[0]].w.Canon()), 0o644)
			}
			fmt.Fprintf(os.Stderr, "bfs %s: depth=%d frontier=%d states=%d violations=%d\n", sys.Name, depth, len(frontier), len(nodes), res.NViolations)
		}
		// expand the frontier in parallel
		out := make([][]expansion, len(frontier))
		var wg sync.WaitGroup
		sem := make(chan struct{}, workers)
		for fi, ni := range frontier {
			wg.Add(1)
			sem <- struct{}{}
			go func(fi, ni int) {
				defer wg.Done()
				defer func() { <-sem }()
				src := nodes[ni].w
				var pathEvs []Event
				if sys.Persistent {
					pathEvs = evPath(ni)
					src = rebuild(sys, pathEvs)
				}
				evs := sys.Events(src)
				exps := make([]expansion, 0, len(evs))
				for _, ev := range evs {
					var nw, before *World
					if sys.Persistent {
						nw = rebuild(sys, pathEvs)
						before = nw.Clone()
					} else {
						nw = src.Clone()
						before = src
					}
					pass := ev.Apply(nw)
					var finds []Finding
					if sys.Check != nil {
						finds = sys.Check(before, ev, pass, nw)
					}
					if pass != nil && pass.Panic != "" {
						finds = append(finds, Finding{Monitor: "no-panic", Identity: "panic", Message: "panic in pass: " + pass.Panic})
					}
					if sys.Invariant != nil {
						finds = append(finds, sys.Invariant(nw)...)
					}
					var tr []string
					if len(finds) > 0 && pass != nil {
						tr = pass.Trace()
					}
					ex := expansion{parent: ni, ev: ev.Name, w: nw, key: sha256.Sum256([]byte(nw.Canon())), finds: finds, trace: tr}
					if sys.Persistent {
						ex.w, ex.evf = nil, ev
					}
					exps = append(exps, ex)
				}
				out[fi] = exps
			}(fi, ni)
		}
		wg.Wait()
		for _, ni := range frontier {
			nodes[ni].w = nil // expanded: only parent/event are needed for paths
		}
		var next []int
		for fi := range frontier {
			if len(out[fi]) == 0 {
				res.Terminal++
			}
			for _, ex := range out[fi] {
				res.Transitions++
				res.EventCount[evClass(ex.ev)]++
				for _, f := range ex.finds {
					addViol(f, append(path(ex.parent), ex.ev), ex.trace)
				}
				if seen[ex.key] {
					continue
				}
				seen[ex.key] = true
				nodes = append(nodes, node{w: ex.w, parent: ex.parent, ev: ex.ev, evf: ex.evf})
				next = append(next, len(nodes)-1)
				if sys.MaxStates > 0 && len(nodes) >= sys.MaxStates {
					res.Capped = fmt.Sprintf("state bound %d reached", sys.MaxStates)
				}
			}
		}
		// many different things failing: stop; many occurrences of few identities (e.g. a listed
		// known finding) do not end the search
		if len(identities) >= 40 && res.Capped == "" {
			res.Capped = "stopped after violations of 40 different identities"
		}
		// a violation that is not a listed known finding has been found: the verdict is settled,
		// what is left is to collect further identities - within a budget, because a broken tree
		// may have an unbounded state space (controllers fighting, revisions created forever)
		if firstUnknownAt >= 0 && len(nodes) > 2*firstUnknownAt+20000 && res.Capped == "" {
			res.Capped = fmt.Sprintf("stopped %d states after the first violation (found at %d states)", len(nodes)-firstUnknownAt, firstUnknownAt)
		}
		if res.Capped != "" {
			break
		}
		frontier = next
	}
	res.States = int64(len(nodes))
	return res
}

const defaultMaxDepth = 300

// Tolerated, when set, tells which violation identities are listed known findings of the property
// being checked: they do not count as "a violation was found" for the early stop of the search
// (the unchanged tree is always explored to closure).
var Tolerated func(identity string) bool

func evClass(name string) string {
	for i, c := range name {
		if c == ':' || c == ' ' {
			return name[:i]
		}
	}
	return name
}

// SortedEventCounts renders the per-class event counts.
func (r *BFSResult) SortedEventCounts() []string {
	var ks []string
	for k, v := range r.EventCount {
		ks = append(ks, fmt.Sprintf("%s=%d", k, v))
	}
	sort.Strings(ks)
	return ks
}

// rebuild reaches the state at the end of path on a fresh world with one long-lived process.
func rebuild(sys *System, path []Event) *World {
	w := sys.Init()
	if w.Proc == nil {
		w.LongLived()
	}
	for _, ev := range path {
		ev.Apply(w)
	}
	return w
}

// Replay re-applies a path of event names from Init and returns the findings of the last step.
func Replay(sys *System, path []string) ([]Finding, []string, error) {
	w := sys.Init()
	if sys.Persistent && w.Proc == nil {
		w.LongLived()
	}
	var finds []Finding
	var trace []string
	for i, name := range path {
		var ev *Event
		for _, e := range sys.Events(w) {
			if e.Name == name {
				e := e
				ev = &e
				break
			}
		}
		if ev == nil {
			return nil, trace, fmt.Errorf("replay divergence: event %q (step %d) is not enabled", name, i)
		}
		nw := w.Clone()
		if sys.Persistent {
			// keep the lineage (and its process): the copy is the 'before' snapshot
			nw, w = w, nw
		}
		pass := ev.Apply(nw)
		trace = append(trace, "== "+name)
		if pass != nil {
			trace = append(trace, pass.Trace()...)
		}
		if i == len(path)-1 {
			if sys.Check != nil {
				finds = sys.Check(w, *ev, pass, nw)
			}
			if pass != nil && pass.Panic != "" {
				finds = append(finds, Finding{Monitor: "no-panic", Identity: "panic", Message: "panic in pass: " + pass.Panic})
			}
			if sys.Invariant != nil {
				finds = append(finds, sys.Invariant(nw)...)
			}
		}
		w = nw
	}
	return finds, trace, nil
}
