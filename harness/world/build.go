package world

import (
	metav1 "k8s.io/apimachinery/pkg/apis/meta/v1"
	"k8s.io/apimachinery/pkg/apis/meta/v1/unstructured"

	corev1alpha1 "package-operator.run/apis/core/v1alpha1"
)

// PhaseSpec describes one phase of a scenario ObjectSet.
type PhaseSpec struct {
	Name    string
	Class   string
	Objects []corev1alpha1.ObjectSetObject
	Slices  []string
}

// O wraps an unstructured object as phase object.
func O(u *unstructured.Unstructured) corev1alpha1.ObjectSetObject {
	return corev1alpha1.ObjectSetObject{Object: *u}
}

// OCP wraps with collision protection.
func OCP(u *unstructured.Unstructured, cp corev1alpha1.CollisionProtection) corev1alpha1.ObjectSetObject {
	return corev1alpha1.ObjectSetObject{Object: *u, CollisionProtection: cp}
}

// CELProbes: Widgets need a Ready=True condition, expressed as a CEL rule with an EMPTY failure
// message (the API allows it); nothing selects Gadgets.
func CELProbes() []corev1alpha1.ObjectSetProbe {
	return []corev1alpha1.ObjectSetProbe{{
		Selector: corev1alpha1.ProbeSelector{Kind: &corev1alpha1.PackageProbeKindSpec{Group: TestGroup, Kind: "Widget"}},
		Probes: []corev1alpha1.Probe{{CEL: &corev1alpha1.ProbeCELSpec{Message: "",
			Rule: `has(self.status) && has(self.status.conditions) && self.status.conditions.exists(c, c.type == "Ready" && c.status == "True")`}}},
	}}
}

// FEProbes: Widgets need condition Ready=True, Gadgets need .status.x == .status.mirror (two
// fields that are both absent until the workload controller has written a status).
func FEProbes() []corev1alpha1.ObjectSetProbe {
	return []corev1alpha1.ObjectSetProbe{
		{
			Selector: corev1alpha1.ProbeSelector{Kind: &corev1alpha1.PackageProbeKindSpec{Group: TestGroup, Kind: "Widget"}},
			Probes:   []corev1alpha1.Probe{{Condition: &corev1alpha1.ProbeConditionSpec{Type: "Ready", Status: "True"}}},
		},
		{
			Selector: corev1alpha1.ProbeSelector{Kind: &corev1alpha1.PackageProbeKindSpec{Group: TestGroup, Kind: "Gadget"}},
			Probes:   []corev1alpha1.Probe{{FieldsEqual: &corev1alpha1.ProbeFieldsEqualSpec{FieldA: ".status.x", FieldB: ".status.mirror"}}},
		},
	}
}

// StdProbes: Widgets need condition Ready=True, Gadgets need .spec.x == .status.x.
func StdProbes() []corev1alpha1.ObjectSetProbe {
	return []corev1alpha1.ObjectSetProbe{
		{
			Selector: corev1alpha1.ProbeSelector{Kind: &corev1alpha1.PackageProbeKindSpec{Group: TestGroup, Kind: "Widget"}},
			Probes:   []corev1alpha1.Probe{{Condition: &corev1alpha1.ProbeConditionSpec{Type: "Ready", Status: "True"}}},
		},
		{
			Selector: corev1alpha1.ProbeSelector{Kind: &corev1alpha1.PackageProbeKindSpec{Group: TestGroup, Kind: "Gadget"}},
			Probes:   []corev1alpha1.Probe{{FieldsEqual: &corev1alpha1.ProbeFieldsEqualSpec{FieldA: ".spec.x", FieldB: ".status.x"}}},
		},
	}
}

// TemplateSpec builds an ObjectSetTemplateSpec.
func TemplateSpec(phases []PhaseSpec, probes []corev1alpha1.ObjectSetProbe) corev1alpha1.ObjectSetTemplateSpec {
	t := corev1alpha1.ObjectSetTemplateSpec{AvailabilityProbes: probes}
	for _, p := range phases {
		t.Phases = append(t.Phases, corev1alpha1.ObjectSetTemplatePhase{Name: p.Name, Class: p.Class, Objects: p.Objects, Slices: p.Slices})
	}
	return t
}

// NewObjectSet builds an ObjectSet in NS.
func NewObjectSet(name string, phases []PhaseSpec, probes []corev1alpha1.ObjectSetProbe, previous ...string) *corev1alpha1.ObjectSet {
	os := &corev1alpha1.ObjectSet{
		ObjectMeta: metav1.ObjectMeta{Name: name, Namespace: NS},
		Spec: corev1alpha1.ObjectSetSpec{
			LifecycleState:        corev1alpha1.ObjectSetLifecycleStateActive,
			ObjectSetTemplateSpec: TemplateSpec(phases, probes),
		},
	}
	for _, p := range previous {
		os.Spec.Previous = append(os.Spec.Previous, corev1alpha1.PreviousRevisionReference{Name: p})
	}
	return os
}

// ReadyStatus is a Widget status passing StdProbes for generation g.
func ReadyStatus(g int64) map[string]any {
	return map[string]any{"observedGeneration": g, "conditions": []any{map[string]any{"type": "Ready", "status": "True", "observedGeneration": g}}}
}

// NotReadyStatus fails StdProbes.
func NotReadyStatus(g int64) map[string]any {
	return map[string]any{"observedGeneration": g, "conditions": []any{map[string]any{"type": "Ready", "status": "False", "observedGeneration": g}}}
}
