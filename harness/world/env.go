package world

import (
	"fmt"

	"k8s.io/apimachinery/pkg/apis/meta/v1/unstructured"
	"k8s.io/apimachinery/pkg/runtime"
	"sigs.k8s.io/controller-runtime/pkg/client"

	"package-operator.run/internal/packages/zzverif/kmodel"
)

// Admin returns a hook-free client acting as the given environment actor.
func (w *World) Admin(actor string) *kmodel.Client {
	return &kmodel.Client{S: w.S, Sch: Scheme, Map: Mapper, Actor: "env:" + actor, Manager: "kubectl-edit"}
}

// MustCreate creates obj as an environment actor.
func (w *World) MustCreate(obj client.Object) {
	if err := w.Admin("user").Create(nil, obj); err != nil { //nolint:staticcheck
		panic(fmt.Sprintf("world: create %T %s: %v", obj, obj.GetName(), err))
	}
}

// Obj builds an unstructured test object.
func Obj(kind, ns, name string, spec map[string]any) *unstructured.Unstructured {
	u := &unstructured.Unstructured{Object: map[string]any{
		"apiVersion": TestGroup + "/v1", "kind": kind,
		"metadata": map[string]any{"name": name},
	}}
	if ns != "" {
		u.SetNamespace(ns)
	}
	if spec != nil {
		u.Object["spec"] = runtime.DeepCopyJSON(spec)
	}
	return u
}

// KeyOf returns the store key of a test-group object.
func KeyOf(kind, ns, name string) kmodel.Key {
	return kmodel.Key{Group: TestGroup, Kind: kind, Namespace: ns, Name: name}
}

// PKOKey returns the store key of a package-operator API object.
func PKOKey(kind, ns, name string) kmodel.Key {
	return kmodel.Key{Group: "package-operator.run", Kind: kind, Namespace: ns, Name: name}
}

// Edit applies f to a copy of the stored content and writes it back through Update
// (full-object replace, as a third party with kubectl edit would).
func (w *World) Edit(k kmodel.Key, f func(c map[string]any)) error {
	o := w.S.Objs[k]
	if o == nil {
		return fmt.Errorf("edit %s: not found", k)
	}
	c := runtime.DeepCopyJSON(o.Content)
	st := c["status"]
	f(c)
	if _, err := w.S.Update(k, c, "", false); err != nil {
		return err
	}
	_ = st
	return nil
}

// SetStatus writes the status subresource of k.
func (w *World) SetStatus(k kmodel.Key, status map[string]any) error {
	o := w.S.Objs[k]
	if o == nil {
		return fmt.Errorf("status %s: not found", k)
	}
	c := runtime.DeepCopyJSON(o.Content)
	if status == nil {
		delete(c, "status")
	} else {
		c["status"] = runtime.DeepCopyJSON(status)
	}
	delete(c["metadata"].(map[string]any), "resourceVersion")
	_, err := w.S.Update(k, c, "status", false)
	if err != nil {
		return err
	}
	return nil
}

// ownerExists resolves an owner reference the way the garbage collector does.
func (w *World) ownerExists(dep kmodel.Key, r kmodel.OwnerRef) bool {
	for k, o := range w.S.Objs {
		if kmodel.UID(o.Content) != r.UID {
			continue
		}
		if k.Kind != r.Kind || k.Name != r.Name {
			return false
		}
		// a namespaced dependent resolves owners in its own namespace or at cluster scope
		if k.Namespace != "" && k.Namespace != dep.Namespace {
			return false
		}
		return true
	}
	return false
}

// GC runs the garbage collector to a fixed point; it returns the keys it deleted.
func (w *World) GC() []kmodel.Key {
	var deleted []kmodel.Key
	for changed := true; changed; {
		changed = false
		// orphan / foreground finalizers on terminating owners
		for _, k := range w.S.SortedKeys() {
			o := w.S.Objs[k]
			if o == nil || !kmodel.Terminating(o.Content) {
				continue
			}
			fins := kmodel.Finalizers(o.Content)
			has := func(f string) bool {
				for _, x := range fins {
					if x == f {
						return true
					}
				}
				return false
			}
			uid := kmodel.UID(o.Content)
			if has("orphan") {
				for _, dk := range w.S.SortedKeys() {
					d := w.S.Objs[dk]
					for _, r := range kmodel.OwnerRefs(d.Content) {
						if r.UID == uid {
							_ = w.Edit(dk, func(c map[string]any) { dropOwner(c, uid) })
						}
					}
				}
				_ = w.Edit(k, func(c map[string]any) { dropFinalizer(c, "orphan") })
				changed = true
				continue
			}
			if has("foregroundDeletion") {
				blocking := 0
				for _, dk := range w.S.SortedKeys() {
					d := w.S.Objs[dk]
					if d == nil {
						continue
					}
					for _, r := range kmodel.OwnerRefs(d.Content) {
						if r.UID == uid && r.Block {
							blocking++
							if !kmodel.Terminating(d.Content) {
								_ = w.S.Delete(dk, kmodel.DeleteOpts{})
								deleted = append(deleted, dk)
								changed = true
							}
						}
					}
				}
				if blocking == 0 {
					_ = w.Edit(k, func(c map[string]any) { dropFinalizer(c, "foregroundDeletion") })
					changed = true
				}
			}
		}
		// dependents none of whose owners exist
		for _, k := range w.S.SortedKeys() {
			o := w.S.Objs[k]
			if o == nil || kmodel.Terminating(o.Content) {
				continue
			}
			refs := kmodel.OwnerRefs(o.Content)
			if len(refs) == 0 {
				continue
			}
			info := w.S.Kinds[k.GK()]
			alive := false
			for _, r := range refs {
				if !info.Namespaced {
					// cluster-scoped dependent with a namespaced owner kind: unresolvable, never collected
					if oi, ok := w.kindByName(r.Kind); ok && oi.Namespaced {
						alive = true
						break
					}
				}
				if w.ownerExists(k, r) {
					alive = true
					break
				}
			}
			if !alive {
				_ = w.S.Delete(k, kmodel.DeleteOpts{})
				deleted = append(deleted, k)
				changed = true
			}
		}
	}
	return deleted
}

func (w *World) kindByName(kind string) (kmodel.KindInfo, bool) {
	for gk, i := range w.S.Kinds {
		if gk.Kind == kind {
			return i, true
		}
	}
	return kmodel.KindInfo{}, false
}

func dropOwner(c map[string]any, uid string) {
	m := c["metadata"].(map[string]any)
	l, _ := m["ownerReferences"].([]any)
	var nl []any
	for _, e := range l {
		if em, ok := e.(map[string]any); ok && em["uid"] == uid {
			continue
		}
		nl = append(nl, e)
	}
	if len(nl) == 0 {
		delete(m, "ownerReferences")
	} else {
		m["ownerReferences"] = nl
	}
}

func dropFinalizer(c map[string]any, f string) {
	m := c["metadata"].(map[string]any)
	l, _ := m["finalizers"].([]any)
	var nl []any
	for _, e := range l {
		if e == f {
			continue
		}
		nl = append(nl, e)
	}
	if len(nl) == 0 {
		delete(m, "finalizers")
	} else {
		m["finalizers"] = nl
	}
}

// DropFinalizer releases a finalizer on k (finalizer-holder actor).
func (w *World) DropFinalizer(k kmodel.Key, f string) error {
	return w.Edit(k, func(c map[string]any) { dropFinalizer(c, f) })
}
