package world

import (
	"encoding/json"
	"strconv"
	"strings"

	"package-operator.run/internal/packages/zzverif/kmodel"
)

// Reference helpers for oracles. They are written from the property statements and use API
// field names only; no package-operator logic is imported.

// OwnersAnnotation is the annotation of the annotation owner strategy.
const OwnersAnnotation = "package-operator.run/owners"

// RevisionAnnotation records the revision an object belongs to.
const RevisionAnnotation = "package-operator.run/revision"

// OwnerInfo is one owner entry of an object under either strategy.
type OwnerInfo struct {
	Group, Kind, Name, UID string
	Controller             bool
}

func groupOf(apiVersion string) string {
	if i := strings.Index(apiVersion, "/"); i >= 0 {
		return apiVersion[:i]
	}
	return ""
}

// Owners lists the owners of content (native ownerReferences or the owners annotation).
func Owners(c map[string]any, annotation bool) []OwnerInfo {
	var out []OwnerInfo
	if c == nil {
		return nil
	}
	if !annotation {
		for _, r := range kmodel.OwnerRefs(c) {
			out = append(out, OwnerInfo{Group: groupOf(r.APIVersion), Kind: r.Kind, Name: r.Name, UID: r.UID, Controller: r.Controller})
		}
		return out
	}
	raw := kmodel.Annotations(c)[OwnersAnnotation]
	if raw == "" {
		return nil
	}
	var l []struct {
		APIVersion string `json:"apiVersion"`
		Kind       string `json:"kind"`
		Name       string `json:"name"`
		UID        string `json:"uid"`
		Controller *bool  `json:"controller"`
	}
	if err := json.Unmarshal([]byte(raw), &l); err != nil {
		return nil
	}
	for _, r := range l {
		out = append(out, OwnerInfo{Group: groupOf(r.APIVersion), Kind: r.Kind, Name: r.Name, UID: r.UID, Controller: r.Controller != nil && *r.Controller})
	}
	return out
}

// Controllers returns the owners flagged controller.
func Controllers(c map[string]any, annotation bool) []OwnerInfo {
	var out []OwnerInfo
	for _, o := range Owners(c, annotation) {
		if o.Controller {
			out = append(out, o)
		}
	}
	return out
}

// Ident identifies an owner object.
type Ident struct{ Group, Kind, Name, UID string }

// IdentOf returns the identity of a stored object.
func IdentOf(k kmodel.Key, c map[string]any) Ident {
	return Ident{Group: k.Group, Kind: k.Kind, Name: k.Name, UID: kmodel.UID(c)}
}

func (o OwnerInfo) is(id Ident) bool {
	return o.Group == id.Group && o.Kind == id.Kind && o.Name == id.Name && o.UID == id.UID
}

// ControlledBy reports whether id is the controller of content.
func ControlledBy(c map[string]any, annotation bool, id Ident) bool {
	for _, o := range Owners(c, annotation) {
		if o.Controller && o.is(id) {
			return true
		}
	}
	return false
}

// OwnedBy reports whether id is listed as owner (controller or not).
func OwnedBy(c map[string]any, annotation bool, id Ident) bool {
	for _, o := range Owners(c, annotation) {
		if o.is(id) {
			return true
		}
	}
	return false
}

// Revision returns the recorded revision (0 = absent) and whether it is numeric.
func Revision(c map[string]any) (int64, bool) {
	a := kmodel.Annotations(c)[RevisionAnnotation]
	if a == "" {
		return 0, true
	}
	v, err := strconv.ParseInt(a, 10, 64)
	return v, err == nil
}

// Condition returns (status, reason, observedGeneration, found) of a status condition.
func Condition(c map[string]any, typ string) (string, string, int64, bool) {
	st, _ := c["status"].(map[string]any)
	l, _ := st["conditions"].([]any)
	for _, e := range l {
		m, _ := e.(map[string]any)
		if m["type"] == typ {
			s, _ := m["status"].(string)
			r, _ := m["reason"].(string)
			g, _ := m["observedGeneration"].(int64)
			return s, r, g, true
		}
	}
	return "", "", 0, false
}

// Generation of content.
func Generation(c map[string]any) int64 {
	m, _ := c["metadata"].(map[string]any)
	g, _ := m["generation"].(int64)
	return g
}

// Nested returns c[path...].
func Nested(c map[string]any, path ...string) (any, bool) {
	var cur any = c
	for _, p := range path {
		m, ok := cur.(map[string]any)
		if !ok {
			return nil, false
		}
		cur, ok = m[p]
		if !ok {
			return nil, false
		}
	}
	return cur, true
}
