// Package world closes package-operator's real controllers into a deterministic system:
// kmodel API state + real dynamic cache over a scripted informer map + environment actors.
package world

import (
	corev1 "k8s.io/api/core/v1"
	"k8s.io/apimachinery/pkg/runtime"
	"k8s.io/apimachinery/pkg/runtime/schema"

	"package-operator.run/apis"
	hypershiftv1beta1 "package-operator.run/internal/controllers/hostedclusters/hypershift/v1beta1"
	"package-operator.run/internal/packages/zzverif/kmodel"
)

// TestGroup is the API group of the scripted workload kinds.
const TestGroup = "verif.example"

// NS is the default namespace of scenarios.
const NS = "ns"

// Scheme is shared by all worlds (immutable after init).
var Scheme = func() *runtime.Scheme {
	s := runtime.NewScheme()
	if err := apis.AddToScheme(s); err != nil {
		panic(err)
	}
	if err := corev1.AddToScheme(s); err != nil {
		panic(err)
	}
	if err := hypershiftv1beta1.AddToScheme(s); err != nil {
		panic(err)
	}
	return s
}()

// Kinds is the fixed API registry of the model.
var Kinds = func() []kmodel.KindInfo {
	pko := "package-operator.run"
	k := []kmodel.KindInfo{
		{Group: TestGroup, Version: "v2", Kind: "Widget", Namespaced: true, HasStatus: true}, // Widget is served in two versions
		{Group: TestGroup, Version: "v1", Kind: "Widget", Namespaced: true, HasStatus: true},
		{Group: TestGroup, Version: "v1", Kind: "Gadget", Namespaced: true, HasStatus: true},
		{Group: TestGroup, Version: "v1", Kind: "Gizmo", Namespaced: true, HasStatus: true},
		{Group: TestGroup, Version: "v1", Kind: "ClusterWidget", Namespaced: false, HasStatus: true},
		{Group: "", Version: "v1", Kind: "ConfigMap", Namespaced: true},
		{Group: "", Version: "v1", Kind: "Secret", Namespaced: true},
		{Group: "", Version: "v1", Kind: "Namespace", Namespaced: false, HasStatus: true},
		{Group: "hypershift.openshift.io", Version: "v1beta1", Kind: "HostedCluster", Namespaced: true, HasStatus: true},
	}
	for _, n := range []string{"ObjectSet", "ObjectSetPhase", "ObjectDeployment", "ObjectSlice", "Package", "ObjectTemplate"} {
		hs := n != "ObjectSlice"
		k = append(k, kmodel.KindInfo{Group: pko, Version: "v1alpha1", Kind: n, Namespaced: true, HasStatus: hs})
		k = append(k, kmodel.KindInfo{Group: pko, Version: "v1alpha1", Kind: "Cluster" + n, Namespaced: false, HasStatus: hs})
	}
	return k
}()

// Mapper is the RESTMapper over Kinds.
var Mapper = kmodel.NewMapper(Kinds)

// GVK helpers.
func WidgetGVK() schema.GroupVersionKind {
	return schema.GroupVersionKind{Group: TestGroup, Version: "v1", Kind: "Widget"}
}
