package world

import (
	"fmt"
	"testing"

	"k8s.io/apimachinery/pkg/types"
)

func TestSmokeObjectSet(t *testing.T) {
	w := New()
	os := NewObjectSet("r1", []PhaseSpec{
		{Name: "p1", Objects: nil},
	}, StdProbes())
	os.Spec.Phases[0].Objects = append(os.Spec.Phases[0].Objects, O(Obj("Widget", "", "a", map[string]any{"x": int64(1)})))
	os.Spec.Phases = append(os.Spec.Phases, os.Spec.Phases[0])
	os.Spec.Phases[1].Name = "p2"
	os.Spec.Phases[1].Objects = nil
	os.Spec.Phases[1].Objects = append(os.Spec.Phases[1].Objects, O(Obj("Widget", "", "b", map[string]any{"x": int64(1)})))
	w.MustCreate(os)
	key := types.NamespacedName{Namespace: NS, Name: "r1"}
	for i := 0; i < 3; i++ {
		p := w.Reconcile(CtrlObjectSet, key, nil)
		for _, l := range p.Trace() {
			fmt.Println(l)
		}
		if p.Panic != "" {
			t.Fatal(p.Panic)
		}
	}
	if err := w.SetStatus(KeyOf("Widget", NS, "a"), ReadyStatus(1)); err != nil {
		t.Fatal(err)
	}
	for i := 0; i < 2; i++ {
		p := w.Reconcile(CtrlObjectSet, key, nil)
		for _, l := range p.Trace() {
			fmt.Println(l)
		}
	}
	fmt.Println(w.Canon())
}
