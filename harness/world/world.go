package world

import (
	"context"
	"fmt"
	"sort"
	"strings"
	"time"

	"github.com/go-logr/logr"
	apierrors "k8s.io/apimachinery/pkg/api/errors"
	"k8s.io/apimachinery/pkg/runtime"
	"k8s.io/apimachinery/pkg/runtime/schema"
	"k8s.io/apimachinery/pkg/types"
	toolscache "k8s.io/client-go/tools/cache"
	ctrl "sigs.k8s.io/controller-runtime"
	"sigs.k8s.io/controller-runtime/pkg/client"

	"package-operator.run/internal/apis/manifests"
	"package-operator.run/internal/constants"
	"package-operator.run/internal/controllers/objectdeployments"
	"package-operator.run/internal/controllers/objectsetphases"
	"package-operator.run/internal/controllers/objectsets"
	"package-operator.run/internal/controllers/objecttemplate"
	pkgctrl "package-operator.run/internal/controllers/packages"
	"package-operator.run/internal/dynamiccache"
	"package-operator.run/internal/packages"
	"package-operator.run/internal/packages/zzverif/kmodel"
	"package-operator.run/internal/packages/zzverif/vsched"
)

// World is the state of the closed system.
type World struct {
	S      *kmodel.Store
	Refs   map[schema.GroupVersionKind][]dynamiccache.OwnerReference
	Budget map[string]int
	Passes int
	// Notes is free-form monitor memory that is part of the state (history monitors).
	Notes map[string]string
	// Package-level environment (immutable script, shared between clones).
	Pkg *PackageEnv
	// Proc, when set, is the long-lived operator process of this world lineage: clients, the real
	// dynamic cache and the controller instances live across passes, so whatever the code keeps
	// in memory between reconciles is kept (nil: every pass runs on freshly built controllers,
	// as right after a restart). Clones do not inherit it.
	Proc *Process
}

// Process holds what survives between passes of a long-lived operator process.
type Process struct {
	env   *Env
	ctrls map[string]reconciler
	// seen counts the passes each (controller, object) had in this process, capped at 2. It is
	// part of World.Canon, so that states which differ only in what the process may remember
	// (a first pass vs. a repeated pass on the same object) are not merged by the search.
	seen map[string]int
}

// LongLived makes all further passes on w run in one long-lived process.
func (w *World) LongLived() { w.Proc = &Process{} }

// PackageEnv scripts what the Package controller sees outside the API.
type PackageEnv struct {
	// Images maps an image reference to its files; a missing entry makes the pull fail.
	Images       map[string]map[string]string
	Env          manifests.PackageEnvironment
	HashModifier *int32
}

type countingPuller struct {
	env *PackageEnv
	h   *hook
}

func (p *countingPuller) Pull(_ context.Context, image string) (*packages.RawPackage, error) {
	p.h.pass.Pulls++
	files, ok := p.env.Images[image]
	if !ok {
		return nil, fmt.Errorf("scripted registry: image %q not found", image)
	}
	raw := &packages.RawPackage{Files: packages.Files{}}
	for k, v := range files {
		raw.Files[k] = []byte(v)
	}
	return raw, nil
}

// New returns an empty world.
func New() *World {
	return &World{S: kmodel.NewStore(Kinds), Refs: map[schema.GroupVersionKind][]dynamiccache.OwnerReference{}, Budget: map[string]int{}, Notes: map[string]string{}}
}

// Clone deep-copies the world.
func (w *World) Clone() *World {
	n := &World{S: w.S.Clone(), Refs: map[schema.GroupVersionKind][]dynamiccache.OwnerReference{}, Budget: map[string]int{}, Passes: w.Passes, Pkg: w.Pkg, Notes: map[string]string{}}
	for k, v := range w.Notes {
		n.Notes[k] = v
	}
	for k, v := range w.Refs {
		n.Refs[k] = append([]dynamiccache.OwnerReference{}, v...)
	}
	for k, v := range w.Budget {
		n.Budget[k] = v
	}
	return n
}

// Restart models an operator process restart: all in-memory state is lost.
func (w *World) Restart() {
	w.Refs = map[schema.GroupVersionKind][]dynamiccache.OwnerReference{}
	if w.Proc != nil {
		w.Proc = &Process{}
	}
}

// ---- faults ----

// FaultKind enumerates what can be injected at a gate.
type FaultKind int

const (
	NoFault        FaultKind = iota
	ErrBefore                // the call fails with a 500 and has no effect
	LostResponse             // the call takes effect, the caller sees a timeout
	Crash                    // the process dies before the call is sent
	ForeignWrite             // another actor's write to the call's target lands just before the call (resourceVersion bump)
	ConflictBefore           // the call is answered 409 Conflict and has no effect (the server lost a race with another writer)
)

func (f FaultKind) String() string {
	return [...]string{"none", "error-before", "lost-response", "crash", "foreign-write-before", "conflict-before"}[f]
}

// Plan steers one pass.
type Plan struct {
	FaultAt int // index of the request (0-based, in pass order) at which the fault hits; -1 none
	Fault   FaultKind
	// OnlyWrites: FaultAt counts write requests only.
	Yield bool // make every request a vsched scheduling point
	// HideInList: keys the cached client's List and Get do not show yet in this pass (the
	// uncached client sees them).
	HideInList []kmodel.Key
	// StaleGet: keys for which the cached client's first Get of this pass answers with the version
	// before the object's latest write (the informer has not delivered that write yet; it has by
	// the time of a second Get).
	StaleGet []kmodel.Key
	// Interfere, when set, runs just before request number InterfereAt of the pass is sent
	// (another actor's write landing between two calls of the pass).
	Interfere   func(w *World)
	InterfereAt int
}

type crashSentinel struct{}

// Pass is the record of one reconcile pass (or environment event).
type Pass struct {
	Actor   string
	Ctrl    string
	Key     types.NamespacedName
	Reqs    []*kmodel.Request
	Result  ctrl.Result
	Err     error
	Crashed bool
	Panic   string
	Pulls   int           // registry pulls issued by the pass (Package controller)
	Before  *kmodel.Store // store snapshot before the pass (set when Snapshot is requested)
}

// Writes returns the effective (non-dry-run, state-changing or not) write requests.
func (p *Pass) Writes() []*kmodel.Request {
	var out []*kmodel.Request
	for _, r := range p.Reqs {
		if r.IsWrite() {
			out = append(out, r)
		}
	}
	return out
}

// Trace renders the requests.
func (p *Pass) Trace() []string {
	out := []string{fmt.Sprintf("pass %s %s err=%v requeue=%v crashed=%v", p.Ctrl, p.Key, p.Err, p.Result.RequeueAfter, p.Crashed)}
	for i, r := range p.Reqs {
		out = append(out, fmt.Sprintf("  %2d %s", i, r))
	}
	return out
}

type hook struct {
	w     *World
	pass  *Pass
	plan  *Plan
	dead  bool
	count int
}

func (h *hook) Before(r *kmodel.Request) error {
	if h.dead {
		panic(crashSentinel{})
	}
	if h.plan != nil && h.plan.Yield {
		vsched.Yield("api:" + r.Verb + ":" + r.Key.Kind + "/" + r.Key.Name)
	}
	idx := h.count
	h.count++
	if h.plan != nil && h.plan.Interfere != nil && idx == h.plan.InterfereAt {
		h.plan.Interfere(h.w)
	}
	h.pass.Reqs = append(h.pass.Reqs, r)
	if h.plan != nil && h.plan.Fault != NoFault && idx == h.plan.FaultAt {
		switch h.plan.Fault {
		case ForeignWrite:
			h.w.S.Touch(r.Key)
		case ErrBefore:
			r.Err = apierrors.NewInternalError(fmt.Errorf("injected fault before effect"))
			r.Post = r.Pre
			return r.Err
		case ConflictBefore:
			r.Err = apierrors.NewConflict(schema.GroupResource{Group: r.Key.Group, Resource: strings.ToLower(r.Key.Kind) + "s"}, r.Key.Name, fmt.Errorf("injected: the object has been modified"))
			r.Post = r.Pre
			return r.Err
		case Crash:
			h.dead = true
			h.pass.Reqs = h.pass.Reqs[:len(h.pass.Reqs)-1]
			panic(crashSentinel{})
		}
	}
	return nil
}

func (h *hook) After(r *kmodel.Request) error {
	if h.plan != nil && h.plan.Fault == LostResponse && h.count-1 == h.plan.FaultAt {
		return apierrors.NewTimeoutError("injected: response lost", 1)
	}
	return r.Err
}

// ---- scripted informer map ----

type fakeInformer struct {
	toolscache.SharedIndexInformer
	gvk schema.GroupVersionKind
}

func (f *fakeInformer) AddEventHandler(toolscache.ResourceEventHandler) (toolscache.ResourceEventHandlerRegistration, error) {
	return nil, nil
}

func (f *fakeInformer) HasSynced() bool { return true }

type informerMap struct {
	reader client.Reader
	live   map[schema.GroupVersionKind]*fakeInformer
}

func (m *informerMap) Get(_ context.Context, gvk schema.GroupVersionKind, _ runtime.Object) (toolscache.SharedIndexInformer, client.Reader, error) {
	inf, ok := m.live[gvk]
	if !ok {
		inf = &fakeInformer{gvk: gvk}
		m.live[gvk] = inf
	}
	return inf, m.reader, nil
}

func (m *informerMap) Delete(_ context.Context, gvk schema.GroupVersionKind) error {
	delete(m.live, gvk)
	return nil
}

// CacheVisible is the label selector the dynamic cache is configured with.
func CacheVisible(c map[string]any) bool {
	return kmodel.Labels(c)[constants.DynamicCacheLabel] == "True"
}

// Env bundles what a pass needs.
type Env struct {
	W        *World
	Client   *kmodel.Client
	Uncached *kmodel.Client
	Cache    *dynamiccache.Cache
	hook     *hook
	cached   *kmodel.Client // reader behind the dynamic cache
}

// retarget points a long-lived environment at the next pass.
func (e *Env) retarget(actor string, pass *Pass, plan *Plan) {
	h := e.hook
	h.pass, h.plan, h.dead, h.count = pass, plan, false, 0
	hide := map[kmodel.Key]bool(nil)
	if plan != nil && len(plan.HideInList) > 0 {
		hide = map[kmodel.Key]bool{}
		for _, k := range plan.HideInList {
			hide[k] = true
		}
	}
	stale := map[kmodel.Key]int(nil)
	if plan != nil && len(plan.StaleGet) > 0 {
		stale = map[kmodel.Key]int{}
		for _, k := range plan.StaleGet {
			stale[k] = 1
		}
	}
	e.Client.Actor, e.Client.ListHide, e.Client.Stale = actor, hide, stale
	e.cached.Actor, e.cached.ListHide, e.cached.Stale = actor, hide, stale
	e.Uncached.Actor = actor
}

// NewEnv builds clients and the real dynamic cache for one pass over w.
func (w *World) NewEnv(actor string, pass *Pass, plan *Plan) *Env {
	h := &hook{w: w, pass: pass, plan: plan}
	base := &kmodel.Client{S: w.S, Sch: Scheme, Map: Mapper, Hook: h, Actor: actor, Manager: "package-operator-manager"}
	if plan != nil && len(plan.HideInList) > 0 {
		base.ListHide = map[kmodel.Key]bool{}
		for _, k := range plan.HideInList {
			base.ListHide[k] = true
		}
	}
	if plan != nil && len(plan.StaleGet) > 0 {
		base.Stale = map[kmodel.Key]int{}
		for _, k := range plan.StaleGet {
			base.Stale[k] = 1
		}
	}
	cacheReader := *base
	cacheReader.Cached = true
	cacheReader.Filter = CacheVisible
	im := &informerMap{reader: &cacheReader, live: map[schema.GroupVersionKind]*fakeInformer{}}
	dc := dynamiccache.NewCacheForVerif(Scheme, im, w.Refs)
	unc := *base
	unc.ListHide, unc.Stale = nil, nil
	return &Env{W: w, Client: base, Uncached: &unc, Cache: dc, hook: h, cached: &cacheReader}
}

// Controller kinds.
const (
	CtrlObjectSet             = "ObjectSet"
	CtrlClusterObjectSet      = "ClusterObjectSet"
	CtrlPhase                 = "ObjectSetPhase"            // same-cluster, class default, native owners
	CtrlClusterPhase          = "ClusterObjectSetPhase"     // same-cluster
	CtrlPhaseAnno             = "ObjectSetPhase/annotation" // multi-cluster constructor, annotation owners
	CtrlObjectDeployment      = "ObjectDeployment"
	CtrlClusterObjectDeploy   = "ClusterObjectDeployment"
	CtrlObjectTemplate        = "ObjectTemplate"
	CtrlClusterObjectTemplate = "ClusterObjectTemplate"
	CtrlPackage               = "Package"
	CtrlClusterPackage        = "ClusterPackage"
)

// PhaseClass is the class the phase controllers serve.
const PhaseClass = "default"

type reconciler interface {
	Reconcile(ctx context.Context, req ctrl.Request) (ctrl.Result, error)
}

func (e *Env) controller(kind string) reconciler {
	log := logr.Discard()
	switch kind {
	case CtrlObjectSet:
		return objectsets.NewObjectSetController(e.Client, log, Scheme, e.Cache, e.Uncached, nil, Mapper)
	case CtrlClusterObjectSet:
		return objectsets.NewClusterObjectSetController(e.Client, log, Scheme, e.Cache, e.Uncached, nil, Mapper)
	case CtrlPhase:
		return objectsetphases.NewSameClusterObjectSetPhaseController(log, Scheme, e.Cache, e.Uncached, PhaseClass, e.Client, Mapper)
	case CtrlClusterPhase:
		return objectsetphases.NewSameClusterClusterObjectSetPhaseController(log, Scheme, e.Cache, e.Uncached, PhaseClass, e.Client, Mapper)
	case CtrlPhaseAnno:
		// two clusters on one store: the management cluster's client (ObjectSetPhases live there) sees
		// package-operator's own API objects only - the managed objects exist in the target cluster,
		// which the cache, the uncached reader and the writer talk to
		mgmt := *e.Client
		mgmt.Filter = func(c map[string]any) bool {
			av, _ := c["apiVersion"].(string)
			return strings.HasPrefix(av, "package-operator.run/")
		}
		return objectsetphases.NewMultiClusterObjectSetPhaseController(log, Scheme, e.Cache, e.Uncached, PhaseClass, &mgmt, e.Client, Mapper)
	case CtrlObjectDeployment:
		return objectdeployments.NewObjectDeploymentController(e.Client, log, Scheme)
	case CtrlClusterObjectDeploy:
		return objectdeployments.NewClusterObjectDeploymentController(e.Client, log, Scheme)
	case CtrlObjectTemplate, CtrlClusterObjectTemplate:
		var c *objecttemplate.GenericObjectTemplateController
		if kind == CtrlObjectTemplate {
			c = objecttemplate.NewObjectTemplateController(e.Client, e.Uncached, log, e.Cache, Scheme, Mapper, objecttemplate.ControllerConfig{OptionalResourceRetryInterval: 30 * time.Second, ResourceRetryInterval: 30 * time.Second})
		} else {
			c = objecttemplate.NewClusterObjectTemplateController(e.Client, e.Uncached, log, e.Cache, Scheme, Mapper, objecttemplate.ControllerConfig{OptionalResourceRetryInterval: 30 * time.Second, ResourceRetryInterval: 30 * time.Second})
		}
		// the environment manager always sets an environment before controllers run
		env := manifests.PackageEnvironment{Kubernetes: manifests.PackageEnvironmentKubernetes{Version: "v1.27.0"}}
		if e.W.Pkg != nil {
			env = e.W.Pkg.Env
		}
		c.SetEnvironment(&env)
		return c
	case CtrlClusterPackage:
		if e.W.Pkg == nil {
			panic("world: ClusterPackage controller needs World.Pkg")
		}
		c := pkgctrl.NewClusterPackageController(e.Client, e.Uncached, log, Scheme, &countingPuller{env: e.W.Pkg, h: e.hook}, nil, e.W.Pkg.HashModifier, nil)
		env := e.W.Pkg.Env
		c.SetEnvironment(&env)
		return c
	case CtrlPackage:
		if e.W.Pkg == nil {
			panic("world: Package controller needs World.Pkg")
		}
		c := pkgctrl.NewPackageController(e.Client, e.Uncached, log, Scheme, &countingPuller{env: e.W.Pkg, h: e.hook}, nil, e.W.Pkg.HashModifier, nil)
		env := e.W.Pkg.Env
		c.SetEnvironment(&env)
		return c
	}
	panic("unknown controller kind " + kind)
}

// Reconcile runs one complete pass of the real controller on the world.
func (w *World) Reconcile(kind string, key types.NamespacedName, plan *Plan) *Pass {
	w.Passes++
	p := &Pass{Actor: "pko:" + kind + ":" + key.String(), Ctrl: kind, Key: key}
	var e *Env
	var c reconciler
	if w.Proc != nil {
		if w.Proc.env == nil {
			w.Proc.env = w.NewEnv(p.Actor, p, plan)
			w.Proc.ctrls = map[string]reconciler{}
		}
		e = w.Proc.env
		e.retarget(p.Actor, p, plan)
		if w.Proc.seen == nil {
			w.Proc.seen = map[string]int{}
		}
		if w.Proc.seen[p.Actor] < 2 {
			w.Proc.seen[p.Actor]++
		}
		if c = w.Proc.ctrls[kind]; c == nil {
			c = e.controller(kind)
			w.Proc.ctrls[kind] = c
		}
	} else {
		e = w.NewEnv(p.Actor, p, plan)
		c = e.controller(kind)
	}
	func() {
		defer func() {
			if r := recover(); r != nil {
				if _, ok := r.(crashSentinel); ok {
					p.Crashed = true
					return
				}
				if vsched.Aborting() {
					panic(r)
				}
				p.Panic = fmt.Sprintf("%v", r)
				p.Panic += "\n" + stack()
			}
		}()
		p.Result, p.Err = c.Reconcile(context.Background(), ctrl.Request{NamespacedName: key})
	}()
	if p.Crashed {
		w.Restart()
	} else {
		w.Refs = dynamiccache.VerifDumpRefs(e.Cache)
	}
	return p
}

// ---- canonical state ----

// Canon renders the world canonically (DESIGN.md §4.4): resourceVersions and timestamps
// dropped, UIDs renamed to key#incarnation, plus cache owner sets and budgets.
func (w *World) Canon() string {
	uidName := map[string]string{}
	for k, o := range w.S.Objs {
		uidName[kmodel.UID(o.Content)] = fmt.Sprintf("%s#%d", k, o.Inc)
	}
	var sb strings.Builder
	for _, k := range w.S.SortedKeys() {
		o := w.S.Objs[k]
		sb.WriteString(k.String())
		sb.WriteByte('=')
		sb.WriteString(canonContent(o.Content, uidName))
		ap := make([]string, 0, len(o.Applied))
		for p := range o.Applied {
			ap = append(ap, p)
		}
		sort.Strings(ap)
		if len(o.Legacy) > 0 {
			sb.WriteString("|legacy-managers:" + strings.Join(o.Legacy, ","))
		}
		if w.Budget["stale-own"] > 0 && o.Prev != nil && k.Group == "package-operator.run" {
			// (only while a system can still serve the previous version of an object to a pass)
			sb.WriteString("|prev:" + canonContent(o.Prev, uidName))
		}
		sb.WriteString("|applied:")
		aps := strings.ReplaceAll(strings.Join(ap, ","), "\x00", ".")
		if strings.Contains(aps, "uid=") {
			for u, n := range uidName {
				aps = strings.ReplaceAll(aps, "uid="+u+",", "uid="+n+",")
				if strings.HasSuffix(aps, "uid="+u) {
					aps = strings.TrimSuffix(aps, u) + n
				}
			}
		}
		sb.WriteString(aps)
		sb.WriteByte('\n')
	}
	var gvks []string
	refs := map[string][]string{}
	for gvk, l := range w.Refs {
		g := gvk.String()
		gvks = append(gvks, g)
		for _, r := range l {
			n := uidName[string(r.UID)]
			if n == "" {
				n = "gone:" + r.Kind + "/" + r.Namespace + "/" + r.Name
			}
			refs[g] = append(refs[g], n)
		}
		sort.Strings(refs[g])
	}
	sort.Strings(gvks)
	for _, g := range gvks {
		fmt.Fprintf(&sb, "watch %s: %v\n", g, refs[g])
	}
	var bs []string
	for k, v := range w.Budget {
		bs = append(bs, fmt.Sprintf("%s=%d", k, v))
	}
	sort.Strings(bs)
	fmt.Fprintf(&sb, "budget %v\n", bs)
	if len(w.S.Admission) > 0 {
		var as []string
		for k, v := range w.S.Admission {
			as = append(as, k.String()+"="+v)
		}
		sort.Strings(as)
		fmt.Fprintf(&sb, "admission %v\n", as)
	}
	if w.Proc != nil {
		var ps []string
		for k, v := range w.Proc.seen {
			ps = append(ps, fmt.Sprintf("%s=%d", k, v))
		}
		sort.Strings(ps)
		fmt.Fprintf(&sb, "process %v\n", ps)
	}
	var ns []string
	for k, v := range w.Notes {
		ns = append(ns, k+"="+v)
	}
	sort.Strings(ns)
	fmt.Fprintf(&sb, "notes %v\n", ns)
	return sb.String()
}

func canonContent(c map[string]any, uidName map[string]string) string {
	cp := runtime.DeepCopyJSON(c)
	var walk func(v any, path string) any
	walk = func(v any, path string) any {
		switch t := v.(type) {
		case map[string]any:
			for k, e := range t {
				p := path + "." + k
				switch {
				case p == ".metadata.resourceVersion" || p == ".metadata.creationTimestamp" || p == ".metadata.managedFields":
					delete(t, k)
				case p == ".metadata.deletionTimestamp":
					t[k] = "set"
				case k == "lastTransitionTime":
					delete(t, k)
				case k == "uid":
					if s, ok := e.(string); ok {
						if n, ok := uidName[s]; ok {
							t[k] = n
						} else {
							t[k] = "dangling"
						}
					}
				default:
					t[k] = walk(e, p)
				}
			}
			return t
		case []any:
			for i, e := range t {
				t[i] = walk(e, path+"[]")
			}
			return t
		case string:
			// owner annotation of the annotation strategy embeds uids as JSON text
			if strings.Contains(t, "\"uid\"") {
				for u, n := range uidName {
					t = strings.ReplaceAll(t, "\""+u+"\"", "\""+n+"\"")
				}
			}
			return t
		}
		return v
	}
	walk(cp, "")
	return kmodel.Digest(cp)
}
