#!/bin/bash
# Run once after a fresh restore (offline): builds the framework and warms the Go build cache.
set -e
export GOFLAGS=-mod=mod GOPROXY=off GOSUMDB=off GOTOOLCHAIN=local GOWORK=off
V=/verif
mkdir -p $V/bin $V/.work $V/evidence
cd $V/harness
go build -o $V/bin/vinstr ./cmd/vinstr
W=$V/.work/setup
rm -rf $W; mkdir -p $W
$V/bin/vinstr --repo /repo --out $W/overlay
go build -overlay $W/overlay/overlay.json -o $W/worker ./cmd/worker
go build -race -overlay $W/overlay/overlay.json -o $W/worker-race ./cmd/worker
go vet ./explore ./vsched/... ./report 2>/dev/null || true
go test ./explore ./vsched/... ./kmodel/... 2>&1 | tail -20
rm -rf $W
echo "setup ok"
