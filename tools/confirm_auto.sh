#!/bin/bash
# confirm_auto.sh <name> : confirm_seed.sh with the demo regex / packages the agent recorded in meta.json
N=$1
M=/tmp/seed/$N-out/meta.json
RX=$(python3 -c "import json;print(json.load(open('$M')).get('demo_regex','TestSeedDemo'))")
PKG=$(python3 -c "import json;print(json.load(open('$M')).get('demo_pkg'))")
PKGS=$(python3 -c "import json;print(' '.join(p for p in json.load(open('$M')).get('test_pkgs',[]) if p.rstrip('/.')!='$PKG'.rstrip('/.')))")
# the demo test files must be in the worktree
(cd /tmp/seed/$N-out && find . -name '*_test.go' | while read f; do mkdir -p /tmp/seed/$N/$(dirname $f); cp $f /tmp/seed/$N/$f; done)
exec /verif/tools/confirm_seed.sh $N "$RX" $PKG $PKGS
