#!/bin/bash
# confirm_seed.sh <name> <demo-test-regex> <go-package-of-demo> [extra test packages...]
# Confirms, in the scratch worktree /tmp/seed/<name>, that the seeded change compiles, that the
# repository's tests of the touched packages still pass with it, that the demonstration fails
# with the change and passes without it. Prints a summary line per step.
N=$1; RX=$2; PKG=$3; shift 3
WT=/tmp/seed/$N; OUT=/tmp/seed/$N-out
cd $WT || exit 2
export GOPROXY=off
git checkout -q -- . 2>/dev/null
git apply $OUT/patch.diff || { echo "PATCH-DOES-NOT-APPLY"; exit 2; }
go build ./... >/dev/null 2>&1 && echo "build-with-change: ok" || { echo "build-with-change: FAIL"; exit 2; }
go test -count=1 -run "$RX" $PKG >/tmp/seed/$N-demo-with.log 2>&1 && echo "demo-with-change: PASSES (bad)" || echo "demo-with-change: fails (good)"
go test -count=1 -skip "SeedDemo|TestLoadRepo" $PKG "$@" >/tmp/seed/$N-tests-with.log 2>&1 && echo "existing-tests-with-change: pass" || { echo "existing-tests-with-change: FAIL"; tail -5 /tmp/seed/$N-tests-with.log; }
git apply -R $OUT/patch.diff
go test -count=1 -run "$RX" $PKG >/tmp/seed/$N-demo-without.log 2>&1 && echo "demo-without-change: passes (good)" || { echo "demo-without-change: FAILS (bad)"; tail -5 /tmp/seed/$N-demo-without.log; }
git apply $OUT/patch.diff
