#!/usr/bin/env python3
"""Generates /verif/MANIFEST.json from the table below (single source of truth)."""
import json, sys

# Extensions made after the seeded-change rounds (DESIGN.md sec. 13.5); appended to the level text.
ADDENDA = {
 "C02": " Extended: the BFS systems also carry a budgeted operator crash before request i of a pass and a foreign resourceVersion bump landing before write i of a pass; the interleaving scenarios include warm-ups that archive or delete the oldest revision, so that its release patch races a newer revision's adoption.",
 "C03": " Extended: a third party may edit the spec of a managed object (budgeted), so that the workload controller catches up and PKO's own revert bumps the generation under a status that was current.",
 "C04": " Extended: (budgeted) a foreign resourceVersion bump lands just before write i of a teardown pass for every i (delete precondition / update conflict).",
 "C05": " Extended: sub orphan-system - explicit-state BFS to closure from the rolled-out state of an ObjectSet with every subset of phases delegated, deleted with orphan propagation, with reconcile(ObjectSet / each ObjectSetPhase), the garbage collector (strips owner references, then drops the orphan finalizer) and crashes in any order: no PKO request deletes anything and no rolled-out object disappears.",
 "C06": " Extended: a complete-takeover chain r1{a} -> r2{a,c} (r1's archival teardown finishes in its first pass) with crashes, and a budgeted foreign write landing before write i of a pass.",
 "C07": " Extended: the lagging cache hides the fresh ObjectSet from the cached Get as well as from List; a foreign write may land before each write of the deployment's pass; an archived newest ObjectSet does not count as matching the template.",
 "C08": " Extended: (a) also pruning chains of 3 and 4 revisions whose older members are paused or archived, available or not, and possibly still terminating from an earlier pruning, for revisionHistoryLimit nil/0/1/2; (b) a foreign write may land before each write of a deployment pass.",
 "C10": " Extended: scenario S8 (complete takeover T1{a} -> T2{a,c}), deletion of ObjectSetPhase objects as drift in the scenarios with delegated phases, and scenario S9 whose template edit comes six rounds after the start, so that earlier disturbances are repaired first and the change meets the repaired state.",
 "C11": " Extended: the duplicate variants include the same object listed through another served version of its API.",
 "C12": " Extended: the dynamic cache's own map iterations are routed through the order shim, so that schedules replay deterministically.",
 "C13": " Extended: packages with a block of 5 files x 3 documents (15 objects in one phase); every range-over-map statement of packagerender, celctx and packagestructure is found by type-checking the current source and routed through the order shim.",
 "C14": " Extended: the slice-GC system switches among three images (quick: v1 -> v2 -> v3; thorough: any to any), so that a slice can be referenced only by an archived revision that still exists.",
 "C15": " Extended: the differential scripts include handover to a successor revision with the same / no / full delegation, also after the phase objects were deleted by a third party and re-created; the BFS has a budgeted foreign write before write i of a pass and third-party deletion of phase objects.",
 "C16": " Extended: a foreign write to the ObjectDeployment may land before each API call of the Package pass (update conflict inside the deployer's retry loop); the image alphabet contains every manifest constraint entry of the grammar {no platform, [Kubernetes], [OpenShift]} x {no version, Kubernetes met/unmet, OpenShift met/unmet} as one entry and as two entries in either order, judged by a reference semantics written from the API documentation.",
 "C17": " Extended: the probe alphabet contains a failing CEL rule with an empty message.",
 "C18": " Extended: the target is compared as a whole with a reference rendering (the template has a conditional key and a list that shrinks; source values 1 / 2 / empty); the optional source is listed before or after the required one; every fault kind at every API call of a template pass and a foreign write before each of its writes are explored (budgeted).",
 "C19": " Extended: CEL expressions (statically bool / non-bool / dynamically typed, compile- and run-time errors) at the condition annotation, named conditions, path conditions and the template cel function with three configs; 11 recursion shapes of helper templates (self, mutual, leaf-then-descend, two descents, count-down, template action, inside range / pipeline) in packages and ObjectTemplates; a Go runtime fatal error of a worker shard (stack overflow) is a violation attributed to the input the shard announced.",
}

CLAIMED = {
 "C15": dict(
   category="model_checking",
   text="(a) Differential: 50 (quick) / 100 (thorough) scripted histories - rollout with objects becoming ready, probe regression and recovery, stale observedGeneration, pause + third-party deletion + unpause, drift, archive, delete with and without failing probes, a foreign object occupying a name (collision), adoption from a previous revision - are run on the all-local ObjectSet and on the same ObjectSet with each subset of its 2-3 phases delegated to the real same-cluster ObjectSetPhase controller; after every step both worlds run fairly to quiescence and the projections (objects: spec, revision, controlled by the ObjectSet directly or through its phase objects, terminating; ObjectSet: lifecycle, condition type/status, controllerOf) must be equal. (b) Explicit-state BFS to closure over delegated layouts with reconciles of ObjectSet and ObjectSetPhases in any order, workload status changes, pause/unpause, deletion with foreign finalizers, GC: a structural monitor demands after every completed ObjectSet pass exactly the expected ObjectSetPhase objects carrying the phase's objects, probes, revision, previous list, paused state and class; the C03 gating monitor (Available trusted only for the phase object's current generation), the C04 teardown monitor (phase object deleted and confirmed gone before earlier phases are touched) and the C06 status monitors run on the same transitions.",
   design_ref="DESIGN.md §7 C15",
   note="Trusted: kmodel; native owner strategy (annotation strategy in C01/C05); the differential compares quiescent points of scripted fair histories.",
   technique="differential replay (local vs delegated) on the real controllers + explicit-state BFS with structural and behavioural trace monitors",
   engine="world"),
 "C10": dict(
   category="fault_enumeration",
   text="Fault enumeration on 8 scenarios (single ObjectSet local / with delegated phase; ObjectDeployment T1{a,b} -> T2{a,c} with handover and archival, also with a delegated phase; teardown of a rolled-out ObjectSet; hand-made chain of three revisions; ObjectTemplate with a source; Package v1 -> v2 through Package, ObjectDeployment and ObjectSet controllers with sliced phases). Per scenario the reference run under a fair schedule (rounds of all reconciles of the real controllers in canonical order, workloads becoming ready, garbage collector) to quiescence yields the projected end state E*. Then for EVERY API request of EVERY pass of the reference run x {error before effect, effect with lost response, process crash + restart with an empty dynamic cache}, and for every third-party drift {delete, modify spec, drop cache label, lower the revision annotation} x managed object x round (3 128 disturbed runs quick; thorough adds pairs of faults): inject, continue fairly, and require quiescence within 50 rounds, projection == E* (managed objects' spec / owners / revision / labels, lifecycle and condition type/status/reason of the PKO objects with ObjectSet names replaced by revision rank) and one further round with zero state-changing requests (no two controllers keep overwriting each other).",
   design_ref="DESIGN.md §7 C10",
   note="Trusted: kmodel (incl. the no-op-write rule that makes quiescence decidable); the fair schedule is one fixed order, not all fair schedules; ownership-changing edits are not drift (an object without the owner's reference is a foreign object, C01 forbids taking it back).",
   technique="exhaustive fault-point enumeration (every API call x fault kind, every drift x object x step) on the real controllers with a differential end-state oracle",
   engine="world"),
 "C18": dict(
   category="model_checking",
   text="Explicit-state BFS to closure over the real ObjectTemplate controller (and a ClusterObjectTemplate variant): template t with a required source s1 and an optional source s2 of different kinds, template text from {renders both values, missing key, does not parse, foreign namespace, cluster-scoped kind with and without the template's namespace}; events with an edit budget: create / edit / delete each source, switch the template text, reconcile, delete the template, operator restart (dynamic cache lost), garbage collector; source variants: in the namespace, in another namespace, cluster-scoped kind (with / without the template's namespace set). Monitor on every pass: with valid inputs the pass succeeds and the target equals the reference rendering of the current source values; a missing optional source asks for a retry; a missing required source, unparsable template, out-of-namespace or cluster-scoped source or target => no write on the target and persisted Invalid=True; every effective write of a namespaced template hits a namespaced kind in its namespace (this is C11's ObjectTemplate clause); after every valid pass the real EnqueueWatchingObjects handler, fed by the real cache's owner sets, enqueues the template for an event on either source; after deletion the cache lists no watch of the template.",
   design_ref="DESIGN.md §7 C18",
   note="Trusted: kmodel; watch-event delivery replaced by 'any reconcile at any time' + the direct enqueue-handler test.",
   technique="explicit-state model checking (BFS) with reference-rendering oracle and trace monitors",
   engine="world"),
 "C19": dict(
   category="exploration",
   text="Structure-aware bounded-exhaustive enumeration at the seams where untrusted data enters, each case executed through the real code under recover(): (1) a managed object whose status takes every shape of the grammar {absent, null, \"\", \"x\", 0, 1.5, true, [], [s], {}, {k:s}} to depth 2, status.conditions lists whose condition fields each take every base shape (857 shapes quick, two-field deviations thorough), through a real ObjectSet pass (active and paused, with condition mappings and probes) and a real ObjectSetPhase pass; (2) the real ObjectTemplate controller with the same status shapes on its target object, 17 x 17 source item key/destination strings (empty, dots, unbalanced braces, indexes) and 11 template texts; (3) 93 package file sets through load -> validate -> render -> phase collection: object annotation values (condition-map, collision-protection, phase, CEL condition) incl. malformed ones, path shapes, manifest shapes, config values against an integer schema, malformed object documents. A panic is a violation identified by the first package-operator frame on its stack.",
   design_ref="DESIGN.md §7 C19, §8",
   note="Structure-level enumeration, not byte-level fuzzing; the OCI/tar importer and the kubectl-package CLI entry points are not driven (they share the package pipeline exercised in (3)).",
   technique="bounded-exhaustive structure-aware input enumeration through the real code under recover()",
   engine="world"),
 "C14": dict(
   category="model_checking",
   text="(a) Chunking: every phase of 0..3 (quick) / 0..4 (thorough) objects whose JSON sizes come from {L/3, L/2-1, L/2, L/2+1, L-1, L, L+1} around the real 1 MiB limit, for NoOp, EachObject and BinpackNextFit: in-order concatenation of the chunks equals the input, no empty chunk, no multi-object chunk above L. Slice names through the real Package controller + PackageDeployer: equal for equal content, different for different content; after a third party tampers with a slice (other content / other controller) a re-deploy of the same spec must not reference the occupied name, an untouched equal slice is reused. (b) Differential: scripted fair histories (rollout with objects becoming ready, then nothing / archive / delete / probe regression + pause + unpause / regression + archive) are run on an ObjectSet with inline objects and on the same ObjectSet with every phase in an ObjectSlice (2-3 phases, local and delegated); after every step the projected cluster state and ObjectSet status (lifecycle, finalizer, condition type/status/reason, controllerOf) must be equal. (c) Explicit-state BFS over Package updates v1{a,b} -> v2{a,c} -> v1 with the real Package, ObjectDeployment and ObjectSet controllers in any order: every ObjectSlice delete must hit a slice referenced neither by the deployment template nor by any existing ObjectSet at that instant.",
   design_ref="DESIGN.md §7 C14",
   note="Trusted: kmodel; the differential runs scripted fair schedules (not all interleavings) and compares state projections, not request sequences.",
   technique="bounded-exhaustive input enumeration + differential replay of scripted histories on the real controllers + explicit-state BFS with a request-level monitor",
   engine="world"),
 "C16": dict(
   category="exploration",
   text="Explicit-state BFS over the real Package controller and PackageDeployer with a scripted registry: Package p whose image is switched among 11 classes {valid v1, valid v2, templated, not in the registry, no manifest, two manifests, malformed object YAML, object without phase annotation, OpenShift-only, Kubernetes >= 1.30, uniqueInScope} and whose config among {none, x:1, x:2, schema-violating}, 2 (quick) / 3 (thorough) edits in any order, pause/unpause, every fault kind (error before effect, lost response, crash) at every API call of the Package pass, environments Kubernetes 1.27 and OpenShift 4.12, optionally a twin Package with the same manifest name. Monitor on every Package pass: an inadmissible package (pull, load, object validation, config schema, platform / version / uniqueness constraint for this environment) never leads to a create or template change of the ObjectDeployment; pull failures persist Unpacked=False, load failures and unmet constraints persist Invalid=True; a spec unchanged since the last successful unpack causes zero pulls and zero template writes; after a completed pass on a valid changed spec the ObjectDeployment's template equals a fresh render of the new spec computed by calling the render pipeline directly (differential oracle); a paused Package pauses its ObjectDeployment and does nothing else (C09's Package clause).",
   design_ref="DESIGN.md §7 C16",
   note="Trusted: scripted registry; kmodel. Object-validation and config failures only need to leave the ObjectDeployment untouched.",
   technique="explicit-state BFS over edit/fault sequences with a differential (fresh-render) oracle",
   engine="world"),
 "C13": dict(
   category="exploration",
   text="Packages generated from a grammar - every subset of up to 4 of 10 file atoms (static single document, multi-document file with an empty document, .gotmpl using .config, _helpers define + include, file under a conditional path, object with a CEL condition annotation, non-YAML file, nested directory, object with collision-protection / condition-map annotations, sibling path that sorts differently with and without '/') x 2 manifest phase orders x 2 configurations = 1 544 packages - are rendered by the real structural loader, validators, template and object renderer and phase collector (the calls PackageDeployer.Deploy makes). The build overlay routes every `range` over a map in packagerender and packagestructure through an explorer-controlled order: each package is rendered under the canonical order and under every permutation (all n! for n <= 4 keys) at one (quick) / two (thorough) executed range sites: ~104 000 renders quick. Oracle: all renders of a package yield the identical ObjectSetTemplateSpec and FNV hash; a reference renderer that knows the expected documents by construction demands every passing object exactly once, in the phase its annotation names, phases in manifest order, objects in path-then-document order, package labels present, control annotations gone. A second sub enumerates the complete template function map and intersects it with the clock / randomness / environment / network / host-file functions of sprig.",
   design_ref="DESIGN.md §7 C13",
   note="Trusted: every map range of the three rendered packages is permuted (found by type-checking at build time); a map range added in another package is not; sprig's keys/values return map-iteration order - a template using them without sortAlpha is outside the grammar (recorded in DESIGN.md).",
   technique="bounded-exhaustive input enumeration with exhaustive map-iteration-order exploration (deviation-bounded) against a reference renderer",
   engine="explore"),
 "C08": dict(
   category="model_checking",
   text="(a) Decision function through its public seam: one real ObjectDeployment pass over every pre-populated chain of 2 revisions (each revision: lifecycle Active/Paused/Archived x Paused condition x Available x objects {a},{b},{a,b} x control reported/unreported/none = 108 shapes; revisionHistoryLimit nil/0/1/2; newest matching the template or not) and of 3 revisions (quick: 24^3 shapes with fixed object sets; thorough: 108 x 108 x 72), with managed objects in the store consistent with the control relation: 97 632 passes quick. Every request of the pass is judged against the reference rule transcribed from the statement: a revision is switched to Archived only if its Paused condition is True at that instant, it is not the newest, and (a newer revision is Available, or it is itself not Available and controls nothing the next newer revision contains); deletes hit only the oldest max(0, |previous| - limit) previous revisions, never the newest. (b) Explicit-state BFS to closure over the real ObjectDeployment and ObjectSet controllers during T1{a,b} -> T2{a,c} (-> T1 thorough) handovers with workload status changes and GC: same oracle on every deployment pass, and no delete request ever hits an object that the newest revision contains.",
   design_ref="DESIGN.md §7 C08, Appendix A.2",
   note="Trusted: kmodel; 'controls' = ownerReferences in the store; empty controllerOf is indistinguishable from unreported (omitempty).",
   technique="exhaustive decision-table enumeration through the real reconciler + explicit-state BFS, request-level oracle",
   engine="world"),
 "C07": dict(
   category="model_checking",
   text="Explicit-state BFS to closure (5 systems quick ~26 000 states, 9 thorough) over the real ObjectDeployment and ObjectSet controllers: template edit sequences over {T1{a,b}, T2{a,c}, no phases} including reverting (2-3 edits), reconciles in any order, every fault kind (error before effect, effect with lost response, crash) at every request of the deployment's pass, a deployment pass whose List does not yet show the ObjectSet a preceding pass created (the staleness the code handles), pause/unpause, and pre-seeded name clashes (archived / different spec / controlled by someone else). Monitor on every deployment pass, from the statement: a create happens only when unpaused, all existing revisions have reported, the template has phases; the created spec equals the template and previous names every existing ObjectSet; at most one create per pass; an unmatched template with all preconditions met leads to a create (or a clash); a clash with an archived / differing / foreign ObjectSet bumps the collision counter instead of being accepted. State invariant: reported revision numbers are pairwise distinct and greater than those of the ObjectSets in previous.",
   design_ref="DESIGN.md §7 C07",
   note="Trusted: kmodel; cache staleness only in the create-not-yet-visible window without an intervening template edit (an edit inside that window is recorded as observation N16 in DESIGN.md, outside the quantifier).",
   technique="explicit-state model checking (BFS) with fault enumeration at every API call, trace monitor + state invariant",
   engine="world"),
 "C02": dict(
   category="model_checking",
   text="(a) Explicit-state BFS to closure over revision chains r1{a,b} <- r2{a,b,c} <- r3{a,c,d} of hand-made ObjectSets with previous lists (each revision's phase local or delegated; collisionProtection Prevent / IfNoController / None) and over an ObjectDeployment rolling T1{a,b} -> T2{a,c} -> T1: reconciles of all ObjectSets, ObjectSetPhases and the ObjectDeployment in every order, the user pausing / archiving / deleting any revision mid-handover, garbage collector. (b) Stateless exploration at API-call granularity: two revisions' passes as threads with a scheduling point before every request, all interleavings with <= 2 (quick) / 3 (thorough) preemptions after atomic warm-up prefixes. Monitor on every effective write to a managed object: the recorded revision never decreases; at most one controller afterwards; when the controller changes, the new one is the writing ObjectSet/phase, the object's previous revision is not higher than the writer's, and every former controller is still listed as plain owner. State invariant: no object is controlled by an owner whose revision is lower than the object's recorded revision.",
   design_ref="DESIGN.md §7 C02",
   note="Trusted: kmodel (one-controller validation, SSA ownerReferences merge by uid); native owner strategy in chains.",
   technique="explicit-state model checking (BFS) + preemption-bounded stateless exploration of API-call interleavings, trace monitor and state invariant",
   engine="world"),
 "C09": dict(
   category="model_checking",
   text="Explicit-state BFS to closure (4 systems quick, ~66 000 states; 8 thorough) over the real ObjectSet, ObjectSetPhase and ObjectDeployment controllers with: the user pausing/unpausing the ObjectSet or the ObjectDeployment at any point of rollout and handover (template edit T1{a,b}->T2{a,c}), workload status changes, a third party deleting, modifying or re-owning managed objects (drift), garbage collector. Monitors: in every pass of an owner whose spec the pass read as paused (not terminating/archived) there is no effective create/update/patch/delete on any object listed in it, the pass still persists Paused (True; Unknown only while delegated phases have not confirmed) and an Available condition for the current generation whose status equals an independent reference probing of what the cache shows; in every pass of a paused ObjectDeployment no ObjectSet is created, archived or deleted and (once all revisions have reported their number) every non-archived revision ends paused; an unpaused ObjectDeployment switches to Active only revisions carrying the paused-by-parent marker and leaves none of them paused-by-parent.",
   design_ref="DESIGN.md §7 C09",
   note="Trusted: kmodel; Package-level pause propagation is covered by the C16 package harness monitor (Package.spec.paused -> ObjectDeployment.spec.paused).",
   technique="explicit-state model checking (BFS, canonical state hashing) with trace monitors on paused passes",
   engine="world"),
 "C06": dict(
   category="model_checking",
   text="Explicit-state BFS to closure (5 systems quick / 10 thorough, ~95 000 states quick) over the real ObjectSet and ObjectSetPhase controllers with workload status changes (ready / not-ready / stale observedGeneration), user pause / unpause / archive / delete, the garbage collector and operator crashes before request i of a pass; systems are a single ObjectSet with 2-3 local/delegated phases and a two-revision handover chain r1{a,b} -> r2{a,c}. On every status write of the ObjectSet controller: Available=True for generation G requires that the pass read generation G, saw every object of every phase present and passing the independent reference prober (delegated: phase object Available for its current generation) and that controllerOf equals exactly what the pass saw under the ObjectSet's control; Succeeded is only newly set together with Available and without InTransition and is never withdrawn; InTransition is only cleared when every spec object was seen controlled; Archived=True comes without Available and with empty controllerOf, and afterwards the controller sends nothing but the initial read.",
   design_ref="DESIGN.md §7 C06",
   note="Trusted: kmodel; pass-atomic interleaving (status writes are pinned by resourceVersion; the call-granular window is covered for teardown in C05).",
   technique="explicit-state model checking (BFS, canonical state hashing) with history monitors on every status write",
   engine="world"),
 "C05": dict(
   category="model_checking",
   text="Stateless model checking at API-call granularity: the real teardown pass of an owner (native ObjectSet; annotation-strategy ObjectSetPhase; orphan deletion) over one phase whose objects start in every combination of {controlled, co-owned, foreign, absent} runs as a thread under the controlled scheduler with a scheduling point before every API request, against up to two third-party actions on a target object (re-own to another controller, delete + re-create unowned / owned by another, modify spec, strip owners); every interleaving with <= 2 preemptions is executed (36 systems, ~290 000 executions quick; 3-object phases thorough). Monitors on every request: each delete carries UID+resourceVersion preconditions equal to the version the same pass last read; a delete that takes effect hits an object the owner controls at that instant; an effective write on an object it merely co-owns changes nothing beyond its own owner reference and the cache label; objects owned by others are untouched; orphan deletion sends no delete/patch at all.",
   design_ref="DESIGN.md §7 C05",
   note="Trusted: kmodel preconditions/optimistic concurrency; scheduling points only at API requests (controller code between them is thread-local).",
   technique="stateless model checking under a controlled scheduler (preemption-bounded DFS over API-call interleavings of real controller code), trace monitors",
   engine="vsched"),
 "C04": dict(
   category="model_checking",
   text="Explicit-state BFS to closure from the fully rolled-out state of an ObjectSet with 2-3 phases (every local/delegated mask quick for 2 phases, 4 masks for 3; thorough all 8 masks x 4 finalizer-hold sets): the user deletes or archives it; then the real ObjectSet and ObjectSetPhase controllers run in every order with a finalizer holder releasing foreign finalizers on managed objects, the garbage collector, a third party making another ObjectSet the controller of an object, and an operator crash before request i of a teardown pass for every i (1 crash quick, 2 thorough; the dynamic cache is lost). Monitors: every effective delete of an object (or phase object) of phase k requires that no object of a later phase that the ObjectSet still controls (transitively through ObjectSetPhases) is present at that instant; every write that drops the package-operator.run/cached finalizer or reports Archived=True requires that nothing listed is still controlled; state invariant: while something is controlled the finalizer is there and Archived is not True.",
   design_ref="DESIGN.md §7 C04",
   note="Trusted: kmodel finalizer/GC semantics; orphan deletion excluded (C05).",
   technique="explicit-state model checking (BFS, canonical state hashing) with crash-point enumeration at every API call, trace monitors + state invariant",
   engine="world"),
 "C03": dict(
   category="model_checking",
   text="Explicit-state BFS to closure (state hashing on canonical store + cache owner sets) over the real ObjectSet controller and the real same-cluster ObjectSetPhase controller interleaved, at pass granularity, with a workload controller that can set the status of any existing object to none / ready / not-ready / stale observedGeneration, and (one system) the user pausing/unpausing; 7 systems quick / 22 thorough = phase layouts of 2-3 phases with every local/delegated mask. On every request of every ObjectSet pass a monitor checks: a create/patch of an object (or of the ObjectSetPhase) of phase k happens only if, in what this pass read before that request, every object of every earlier phase was present and passes an independent reference prober (delegated: the phase object read was Available for its current generation); a persisted Available=False/ProbeFailure names the first failing phase in spec order.",
   design_ref="DESIGN.md §7 C03",
   note="Trusted: kmodel; 'found' = last answer the pass received for the key; fixed probe pair (condition on Widget, fieldsEqual on Gadget).",
   technique="explicit-state model checking (BFS with canonical state hashing) over the real controllers, trace monitor on every API request",
   engine="world"),
 "C17": dict(
   category="exploration",
   text="Bounded-exhaustive enumeration: 12 265 (quick) / ~95 000 (thorough) probe lists ([], [p], [p,q]; 6 selector forms x up to two probes from {condition True/False, fieldsEqual present/missing path, CEL true/false/erroring, empty probe}) are compiled by the real internal/probing.Parse and evaluated on 1 704 generated objects (generation 1/2 x 4 label sets x status absent / {} / scalar / observedGeneration absent, equal, older-or-newer, string, float x 14 shapes of status.conditions incl. malformed entries and per-condition observedGeneration x fieldsEqual operand absent/equal/different): ~21 M evaluations, each compared with a reference evaluator transcribed from the statement (success, number of failure messages = number of failing selected probes, object deep-equal before/after). Non-boolean CEL rules must be refused by Parse.",
   design_ref="DESIGN.md §7 C17, Appendix A.4",
   note="Non-integer observedGeneration and malformed condition entries that precede a match are undecided (either outcome accepted).",
   technique="bounded-exhaustive input enumeration against a reference evaluator",
   engine="explore"),
 "C11": dict(
   category="exploration",
   text="Bounded-exhaustive enumeration of phase contents: every slot kind {valid, unknown API, preset ownerReferences, foreign namespace, cluster-scoped kind without / with the owner's / with another namespace, rejected by dry run} at every position of [2 objects][1 object] phases (plus single-object, three-phase, duplicate same-phase / cross-phase / via-namespace-defaulting variants; thorough adds all [1][2][1] layouts), for owners ObjectSet, ClusterObjectSet, same-cluster ObjectSetPhase and ClusterObjectSetPhase, each in rollout (two real reconcile passes) and in teardown (objects pre-existing and controlled, owner deleted, up to four real passes). Oracle on every request of every pass: no effective write on an object of a phase that contains a preflight-violating object (none at all for duplicates in an ObjectSet), persisted Available=False/PreflightError, valid inputs are rolled out, and every effective write/delete of a namespaced owner resolves to a namespaced kind in its own namespace (judged by the store key the request hit).",
   design_ref="DESIGN.md §7 C11",
   note="Trusted: kmodel scope semantics (cluster-scoped kinds ignore metadata.namespace), scripted dry-run rejection; ObjectTemplate owners are covered by the C18 check's namespace monitor, not here.",
   technique="bounded-exhaustive input enumeration driven through the real controllers against the API model, request-level oracle",
   engine="world"),
 "C01": dict(
   category="model_checking",
   text="(a) One real reconcile pass (real ObjectSet controller with native owners; real multi-cluster ObjectSetPhase controller with annotation owners) for every row of the adoption decision table: 12 owner states of the pre-existing object x 4 revision annotations x 3 package labels x 4 collisionProtection values x 4 previous lists (incl. deleted previous, delegated phase of a previous revision matched by name+UID) x 3 owner revisions x forced adoption on/off = 27 648 passes against the kmodel API model; each pass is judged against a reference function transcribed from the statement: not permitted => no non-dry-run request on the object's key, stored object byte-identical, refusal persisted as Available=False/CollisionDetected unless the object belongs to a newer revision; permitted => exactly one controller (the owner), revision annotation and spec updated. (b) Explicit-state BFS to closure over histories in which a third party creates, re-owns, relabels, re-annotates or deletes the object between reconciles (budget 4 quick / 6 thorough events, 6 systems = 3 collisionProtection values x previous declared or not); the same oracle is evaluated on the start state of every reconcile transition.",
   design_ref="DESIGN.md §7 C01, Appendix A.1",
   note="Trusted: kmodel API semantics (DESIGN.md §3); fresh caches; the in-pass window between PKO's read and its apply is outside C01's quantifier and not explored here; non-numeric revision annotations undecided.",
   technique="exhaustive decision-table enumeration through the real reconcilers + explicit-state BFS with state hashing over third-party/reconcile histories, reference-model oracle on every transition",
   engine="world"),
 "C12": dict(
   category="model_checking",
   text="(a) Every sequence of 5 (quick) / 6 (thorough) operations from Watch/Free/Get/List x 2 owners x 2 kinds is executed on the real dynamiccache.Cache (real cacheSource with two registered controller handlers, scripted informer map) with every informer start answering ok / error-before-start / error-after-start (<= 2 failures per sequence); after every operation a reference model (kind -> owner set) decides owners, running informers, CacheNotStartedError without implicit informer start, idempotent Watch, Free stopping exactly the orphaned informers, and literal event delivery (an Add event fired on the informer must reach both controller handlers). (b) Every interleaving with <= 3 (quick) / 6 (thorough) preemptions of 3 concurrent callers (RWMutex operations routed through the controlled scheduler, a scheduling point inside the informer start) must produce a linearizable history and a final state with informers == watched kinds. A free-running -race pass covers unsynchronised accesses.",
   design_ref="DESIGN.md §7 C12, Appendix A.3",
   note="Trusted: scripted informer map mirroring InformerMap.Get's two failure modes; vsched shim semantics; owner registration after a failed Watch is left undecided.",
   technique="bounded-exhaustive operation-sequence enumeration with fault deviations against a reference model + stateless model checking of concurrent callers (linearizability by brute force) + race-detector pass",
   engine="vsched"),
 "C20": dict(
   category="model_checking",
   text="Stateless model checking of the real RequestManager: its mutex, goroutine spawn and channel operations are routed through a cooperative scheduler by a build overlay and every interleaving of 2-4 callers (1-2 pulls each, one or two images, scripted pull with/without error) with at most 2 (quick) / 3 (thorough) preemptions is executed; each execution is judged for at-most-one pull in flight per image, exactly one response per caller stemming from a pull that overlapped its wait, private copies (mutation test), no deadlock. A free-running -race pass of the same bodies covers unsynchronised accesses the scheduler cannot see.",
   design_ref="DESIGN.md §5.1, §7 C20",
   note="Trusted: the vsched shim's mutex/channel semantics; scheduling points only at sync operations (thread-local code in between, checked by the race pass); scripted pull function instead of a registry.",
   technique="stateless model checking under a controlled scheduler (preemption-bounded DFS over real code) + free-running race-detector pass",
   engine="vsched"),
}

NOT_YET = "check not built yet in this round (framework under construction); see DESIGN.md §7 for the planned model-checking design"

props = [json.loads(l) for l in open('/verif/properties.jsonl')]
checks, na = [], []
for p in props:
    i = p['id']
    if i in CLAIMED:
        c = CLAIMED[i]
        checks.append({
          "property_id": i,
          "quick_cmd": f"./check {i} --tier quick",
          "thorough_cmd": f"./check {i} --tier thorough",
          "evidence_file": f"/verif/evidence/{i}.json",
          "replay_cmd_template": f"./check {i} --replay {{path}}",
          "engine": c["engine"],
          "level_claimed": {"category": c["category"], "text": c["text"] + ADDENDA.get(i, ""), "design_ref": c["design_ref"]},
          "level_note": c["note"],
          "technique": c["technique"],
        })
    else:
        na.append({"property_id": i, "reason": NOT_YET})

m = {
 "version": 1,
 "setup_cmd": "./setup.sh",
 "hooks": {
   "guard": "verif-overlay (go build -overlay generated by bin/vinstr; no build tag needed because /repo is never edited)",
   "enable": "/verif/check regenerates .work/run-*/overlay/overlay.json from /repo's working tree (sync/go/chan rewrite of listed files, range-over-map routing in the rendering packages + added zz_verif.go accessor files from harness/hooks) and builds the worker with `go build -overlay`",
   "baseline_off_cmd": "cd /repo && go test -vet=off -count=1 ./... && (cd apis && go test -vet=off -count=1 ./...) && (cd pkg && go test -vet=off -count=1 ./...)",
   "source_commits": [],
   "add_only": True,
 },
 "engines": [
   {"name": "explore", "path": "harness/explore", "serves_properties": sorted(CLAIMED), "kind_free_text": "choice-point DFS with deviation budget, sharding, replay"},
   {"name": "world", "path": "harness/world + harness/kmodel", "serves_properties": [i for i in sorted(CLAIMED) if CLAIMED[i]["engine"]=="world"], "kind_free_text": "real PKO controllers closed over a deterministic API-server model (kmodel) and the real dynamic cache; explicit-state BFS with canonical state hashing; fault plans at API-call gates"},
   {"name": "vsched", "path": "harness/vsched", "serves_properties": [i for i in sorted(CLAIMED) if CLAIMED[i]["engine"]=="vsched"], "kind_free_text": "cooperative controlled scheduler + sync/chan shims; overlay instrumenter cmd/vinstr"},
 ],
 "checks": checks,
 "not_applicable": na,
 "notes": "All checks rebuild the worker from /repo's working tree through a generated build overlay; no commit in /repo is needed for hooks. Known findings: /verif/known-findings.json.",
}
json.dump(m, open('/verif/MANIFEST.json','w'), indent=1)
print("claimed:", [c["property_id"] for c in checks])
