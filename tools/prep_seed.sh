#!/bin/bash
# prep_seed.sh <name e.g. c16b> <prop id e.g. c16> "<what earlier attempts did>" : creates the scratch
# worktree /tmp/seed/<name>, the output dir and the prompt file /tmp/seed/<name>-prompt.txt.
N=$1; P=$2; AVOID=$3
mkdir -p /tmp/seed/$N-out
[ -f /tmp/seed/PROMPT.txt ] || cp /verif/tools/seed_prompt.txt /tmp/seed/PROMPT.txt
git -C /repo worktree add --detach /tmp/seed/$N HEAD >/dev/null 2>&1 || { echo "worktree failed"; exit 2; }
python3 - "$N" "$P" "$AVOID" <<'PY'
import sys
n,p,avoid=sys.argv[1:4]
t=open('/tmp/seed/PROMPT.txt').read()
import json, os
if not os.path.exists(f'/tmp/seed/{p}-prop.txt'):
    for l in open('/verif/properties.jsonl'):
        q = json.loads(l)
        if q['id'].lower() == p:
            open(f'/tmp/seed/{p}-prop.txt', 'w').write(f"{q['id']}: {q.get('title','')}\n\n{q.get('statement','')}\n")
prop=open(f'/tmp/seed/{p}-prop.txt').read()
t=t.replace('__WT__',f'/tmp/seed/{n}').replace('__OUT__',f'/tmp/seed/{n}-out').replace('__PROP__',prop)
if avoid:
    t+=f"\n\nEarlier attempts at this property already did the following; do NOT repeat them - choose a different mechanism, preferably in a different function or file and breaking a different clause of the statement:\n{avoid}\n"
open(f'/tmp/seed/{n}-prompt.txt','w').write(t)
PY
echo /tmp/seed/$N-prompt.txt
