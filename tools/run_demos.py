#!/usr/bin/env python3
"""Runs every catalogue mutation against the check of its property (quick tier, overlay only,
/repo untouched) and writes mutations/results.json: id -> {prop, exit, detected}."""
import json, subprocess, sys, os
cat = json.load(open('/verif/mutations/catalogue.json'))
only = set(sys.argv[1:])
res = {}
out = '/verif/mutations/results.json'
if os.path.exists(out):
    res = json.load(open(out))
combos = [("C08-archive-unconfirmed-pause,C08-ensurepaused-spec", "C08"), ("C18-hoist-sources-config-field,C18-hoist-sources-config-use", "C18")]
todo = [(m['id'], m['prop']) for m in cat['mutations']] + combos
for mid, prop in todo:
    if only and prop not in only and mid not in only:
        continue
    p = subprocess.run(['/verif/check', prop, '--no-evidence', '--mutate', mid], capture_output=True, text=True)
    tail = [l for l in p.stdout.splitlines() if l.startswith(prop + '/') or l.startswith('HARNESS')]
    res[mid] = {"prop": prop, "exit": p.returncode, "detected": p.returncode == 1, "summary": tail[-4:]}
    print(mid, prop, p.returncode, flush=True)
    json.dump(res, open(out, 'w'), indent=1)
