#!/bin/bash
# run_thorough.sh [ids...] : runs the thorough tier of each check (no evidence rewrite), prints wall and exit.
cd "$(dirname "$0")/.."
IDS="$@"; [ -z "$IDS" ] && IDS="C16 C18 C19 C11 C17 C13 C01 C02 C04 C08 C09 C10 C12 C14 C15 C20 C03 C05 C07 C06"
for id in $IDS; do
  s=$(date +%s)
  ./check $id --tier thorough --no-evidence > /tmp/thorough-$id.log 2>&1; rc=$?
  e=$(date +%s)
  echo "$id exit=$rc wall=$((e-s))s $(grep -c '^VIOLATION' /tmp/thorough-$id.log) violations; $(grep -E "^$id/" /tmp/thorough-$id.log | grep -c 'exhaustive=false') subs non-exhaustive"
  grep -E "^$id/" /tmp/thorough-$id.log | sed 's/^/    /'
done
