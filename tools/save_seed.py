#!/usr/bin/env python3
"""save_seed.py <name> <PROP> <caught_by comma list> <notes> : stores a confirmed seeded change under /verif/seeded/<name>/"""
import json, os, shutil, sys, glob
name, prop, caught, notes = sys.argv[1:5]
src = f'/tmp/seed/{name}-out'
dst = f'/verif/seeded/{name}'
os.makedirs(dst, exist_ok=True)
shutil.copy(f'{src}/patch.diff', f'{dst}/patch.diff')
for f in glob.glob(f'{src}/**/*', recursive=True):
    if os.path.isfile(f) and not f.endswith('patch.diff') and not f.endswith('meta.json'):
        rel = os.path.relpath(f, src)
        # Go files are stored with a .txt suffix so they are never compiled as part of /verif
        out = os.path.join(dst, 'demo', rel + ('.txt' if rel.endswith('.go') else ''))
        os.makedirs(os.path.dirname(out), exist_ok=True)
        shutil.copy(f, out)
agent = {}
try:
    agent = json.load(open(f'{src}/meta.json'))
except Exception:
    pass
meta = {
  "property": prop,
  "summary": agent.get("summary", ""),
  "needs_to_manifest": agent.get("needs", ""),
  "files": agent.get("files", []),
  "author": "independent sub-agent given only the property text and a scratch worktree",
  "confirmed_by_me": {
     "procedure": "tools/confirm_seed.sh in the scratch worktree: build with the change; the demonstration test fails with the change and passes with the change reverted; the repository's tests of the touched packages pass with the change (TestLoadRepo excluded, it fails offline on the pinned tree)",
     "result": "build ok; demo fails with change; demo passes without change; existing tests pass with change",
  },
  "checks_run_against_it": "git -C /repo apply patch.diff; ./check <ID> --no-evidence; git -C /repo checkout -- .",
  "caught_by": [c for c in caught.split(',') if c],
  "notes": notes,
}
json.dump(meta, open(f'{dst}/meta.json', 'w'), indent=1)
print("saved", dst)
