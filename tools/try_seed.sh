#!/bin/bash
# try_seed.sh <patch.diff> <check id>... : applies the seeded change to /repo, runs the checks, undoes it.
P=$1; shift
cd /verif
git -C /repo diff --quiet || { echo "/repo is dirty"; exit 2; }
git -C /repo apply "$P" || exit 2
for c in "$@"; do
  ./check $c --no-evidence 2>&1 | grep -v "^  " | tail -3
done
git -C /repo checkout -- .
git -C /repo status --short | head -3
